#!/usr/bin/env python3
"""Compose seeded/<id>/meta.json from the author's notes, my own confirmation run
(confirmation.json written by confirm_seeded.py) and the detection record (seeded/detection.json).
Also prints the markdown table used in DESIGN.md section 10.3."""
import json, os, sys

ROOT = os.path.join(os.path.dirname(os.path.abspath(__file__)), "..", "seeded")


def main():
    det = json.load(open(os.path.join(ROOT, "detection.json")))
    rows = []
    for sid in sorted(d for d in os.listdir(ROOT) if os.path.isdir(os.path.join(ROOT, d))):
        d = os.path.join(ROOT, sid)
        notes = {}
        for n in ("author_notes.json", "notes.json"):
            p = os.path.join(d, n)
            if os.path.exists(p):
                try:
                    notes = json.load(open(p))
                except Exception:
                    notes = {}
                break
        conf = json.load(open(os.path.join(d, "confirmation.json"))) if os.path.exists(os.path.join(d, "confirmation.json")) else {}
        dt = det.get(sid, {})
        meta = {
            "property": notes.get("property", sid),
            "breaks": notes.get("summary", ""),
            "needs_to_manifest": notes.get("needs_to_manifest", ""),
            "files": {"change": "patch.diff", "demonstration": "demo/ (demo.diff adds the test file)"},
            "confirmed_by_me": {
                "how": "tools/confirm_seeded.py in a scratch worktree of /repo (never in /repo itself)",
                "repo_head": conf.get("repo_head"),
                "change_applies": conf.get("applies"),
                "existing_tests_with_change": conf.get("existing_tests_with_change"),
                "existing_tests_pass": conf.get("existing_tests_pass"),
                "demo_with_change": conf.get("demo_with_change"),
                "demo_fails_with_change": conf.get("demo_fails_with_change"),
                "demo_without_change": conf.get("demo_without_change"),
                "demo_passes_without_change": conf.get("demo_passes_without_change"),
                "confirmed": conf.get("confirmed"),
            },
            "check_result": dt,
        }
        json.dump(meta, open(os.path.join(d, "meta.json"), "w"), indent=1)
        caught = dt.get("caught")
        rows.append((sid, (notes.get("summary", "") or "")[:150].replace("|", "/").replace("\n", " "),
                     "yes" if conf.get("confirmed") else "NO", {True: "caught", False: "MISSED", None: "not run"}[caught],
                     (dt.get("how", "") + (" — " + dt["note"] if dt.get("note") else "")).replace("|", "/")))
    print("| change | what it breaks (author's summary, truncated) | confirmed | check | how / note |")
    print("|---|---|---|---|---|")
    for r in rows:
        print("| seeded/%s | %s… | %s | %s | %s |" % r)


if __name__ == "__main__":
    main()
