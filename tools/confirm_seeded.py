#!/usr/bin/env python3
"""Confirm a seeded change in a scratch worktree of /repo (never in /repo itself):

  1. the change applies and the touched crates' existing unit tests still pass,
  2. the author's demonstration FAILS with the change,
  3. the demonstration PASSES without it.

usage: confirm_seeded.py <worktree> <seeded-dir> [<seeded-dir> ...]
Writes <seeded-dir>/confirmation.json. The worktree is reset (git checkout/clean) before and after.
"""
import json, os, re, subprocess, sys, time

ENV = dict(os.environ, CARGO_NET_OFFLINE="true", RUST_BACKTRACE="0")


def sh(cmd, cwd, timeout=3600):
    t0 = time.time()
    try:
        p = subprocess.run(cmd, cwd=cwd, env=ENV, stdout=subprocess.PIPE, stderr=subprocess.STDOUT, text=True, timeout=timeout)
        return p.returncode, p.stdout, time.time() - t0
    except subprocess.TimeoutExpired as e:
        return 124, (e.stdout or "") + "\nTIMEOUT", time.time() - t0


def reset(wt):
    sh(["git", "checkout", "-q", "--", "."], wt)
    sh(["git", "clean", "-fdq", "-e", "target"], wt)


def pkg_of(wt, path):
    d = os.path.dirname(path)
    while d and not os.path.exists(os.path.join(wt, d, "Cargo.toml")):
        d = os.path.dirname(d)
    txt = open(os.path.join(wt, d, "Cargo.toml")).read()
    m = re.search(r'^name\s*=\s*"([^"]+)"', txt, re.M)
    return m.group(1)


def files_in(diff_path):
    out = []
    for l in open(diff_path):
        if l.startswith("+++ b/"):
            out.append(l[6:].strip())
    return out


def demo_features(crate, sid):
    """cargo features a demonstration needs (stated in its HOWTO)"""
    if crate == "datafusion-common" and sid == "C52":
        return ["--features", "sql"]
    if crate == "datafusion-physical-plan" and sid == "C11":
        return ["--features", "verif_hooks"]
    return []


def summarize(out):
    lines = [l for l in out.splitlines() if l.startswith("test result:") or " FAILED" in l or l.startswith("error")]
    return lines[-6:]


def confirm(wt, sd):
    sid = os.path.basename(sd.rstrip("/"))
    patch = os.path.join(sd, "patch.diff")
    demo = os.path.join(sd, "demo", "demo.diff")
    res = {"id": sid, "repo_head": sh(["git", "rev-parse", "HEAD"], wt)[1].strip()}
    reset(wt)
    rc, out, _ = sh(["git", "apply", "--check", patch], wt)
    if rc != 0:
        res["applies"] = False
        res["note"] = out[-400:]
        return res
    res["applies"] = True
    sh(["git", "apply", patch], wt)
    crates = sorted({pkg_of(wt, f) for f in files_in(patch)})
    res["touched_crates"] = crates
    # 1. existing unit tests of the touched crates, with the change
    ex = []
    ok = True
    for c in crates:
        rc, out, dt = sh(["cargo", "test", "-q", "-p", c, "--lib", "--offline"], wt)
        ex.append({"cmd": f"cargo test -q -p {c} --lib --offline", "exit": rc, "seconds": round(dt), "tail": summarize(out)})
        ok = ok and rc == 0
    res["existing_tests_with_change"] = ex
    res["existing_tests_pass"] = ok
    # 2. demo with the change
    sh(["git", "apply", demo], wt)
    demo_files = files_in(demo)
    tests = [f for f in demo_files if "/tests/" in f and f.endswith(".rs")]
    runs = []
    failed_with = False
    for f in tests:
        c = pkg_of(wt, f)
        stem = os.path.splitext(os.path.basename(f))[0]
        feats = demo_features(c, sid)
        cmd = ["cargo", "test", "-q", "-p", c, "--test", stem, "--offline"] + feats
        for attempt in range(3):  # racy demos: any failing run counts
            rc, out, dt = sh(cmd, wt, timeout=1800)
            runs.append({"cmd": " ".join(cmd), "exit": rc, "seconds": round(dt), "tail": summarize(out)})
            if rc != 0 and "error: could not compile" not in out:
                failed_with = True
                break
    res["demo_with_change"] = runs
    res["demo_fails_with_change"] = failed_with
    # 3. demo without the change
    sh(["git", "apply", "-R", patch], wt)
    runs = []
    passed_without = bool(tests)
    for f in tests:
        c = pkg_of(wt, f)
        stem = os.path.splitext(os.path.basename(f))[0]
        feats = demo_features(c, sid)
        cmd = ["cargo", "test", "-q", "-p", c, "--test", stem, "--offline"] + feats
        for attempt in range(2):
            rc, out, dt = sh(cmd, wt, timeout=1800)
            runs.append({"cmd": " ".join(cmd), "exit": rc, "seconds": round(dt), "tail": summarize(out)})
            passed_without = passed_without and rc == 0
    res["demo_without_change"] = runs
    res["demo_passes_without_change"] = passed_without
    reset(wt)
    res["confirmed"] = bool(res["existing_tests_pass"] and failed_with and passed_without)
    return res


def main():
    wt = sys.argv[1]
    for sd in map(os.path.abspath, sys.argv[2:]):
        r = confirm(wt, sd)
        json.dump(r, open(os.path.join(sd, "confirmation.json"), "w"), indent=1)
        print(r["id"], "confirmed" if r.get("confirmed") else "NOT-CONFIRMED",
              {k: r.get(k) for k in ("applies", "existing_tests_pass", "demo_fails_with_change", "demo_passes_without_change")}, flush=True)


if __name__ == "__main__":
    main()
