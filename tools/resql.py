#!/usr/bin/env python3
"""resql.py <witness.json> <out.json> <sql>: same tables/layout, different SQL (for triage)."""
import json, sys
e = json.load(open(sys.argv[1])); w = e['witness']
w['sql'] = sys.argv[3]; w['reference_rows'] = []
json.dump({'witness': w}, open(sys.argv[2], 'w'))
