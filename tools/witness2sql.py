#!/usr/bin/env python3
"""Turn a C01-style replay witness (tables + sql) into a datafusion-cli script."""
import json, sys
e = json.load(open(sys.argv[1])); w = e.get('witness', e)
def lit(v, ty):
    if v is None: return 'NULL'
    if ty == 'Str': return "'" + str(v).replace("'", "''") + "'"
    if ty == 'Bool': return 'true' if v else 'false'
    if ty == 'Float': return f"cast({v} as double)"
    return str(v)
SQLT = {'Int': 'bigint', 'Float': 'double', 'Str': 'varchar', 'Bool': 'boolean'}
for t in w['tables']:
    cols = [c.split(':') for c in t['cols']]
    print(f"create table {t['name']}(" + ", ".join(f"{n} {SQLT[ty]}" for n, ty in cols) + ");")
    if t['rows']:
        print(f"insert into {t['name']} values " + ", ".join("(" + ", ".join(lit(v, ty) for v, (n, ty) in zip(r, cols)) + ")" for r in t['rows']) + ";")
extra = sys.argv[2:] 
for x in extra: print(x)
print(w['sql'] + ";")
