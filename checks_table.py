"""Property id -> how the driver builds and runs its check (native stage + sanitizer stages)."""

CHECKS = {
    "C15": {
        "pkg": "chan", "bin": "c15", "level": "exploration",
        "technique": "runtime monitoring: shadow-model oracle over real-code schedules (exhaustive poll-level DFS for tiny configs, random beyond), offline history checker on OS-thread runs, Miri + ThreadSanitizer stages",
        "level_text": "Every schedule of 9 tiny configurations is enumerated at poll granularity on the real channel code (complete flag per config in evidence); larger configurations, spurious polls, send cancellations and intra-poll preemption are only sampled (random schedules, oversubscribed OS threads, Miri seeds, TSan). Held = no exactly-once/FIFO/EOS/send-error/lost-wake-up/deadlock refutation on what was observed.",
        "level_note": "Trusts the 80-line shadow model (gate = no open channel is empty) taken from the module documentation; layer-1 atomicity is one poll; a race needing a specific multi-step preemption inside a poll in a large configuration can be missed.",
        "stages": [
            # the chan crate is tiny: 6 Miri seeds are part of the quick tier
            {"kind": "miri", "tiers": ["quick", "thorough"], "seeds": {"quick": 6, "thorough": 64},
             "opts": {"quick": {"l2_runs": 2}, "thorough": {"l2_runs": 3}}},
            {"kind": "tsan", "tiers": ["thorough"], "repeats": {"thorough": 5},
             "opts": {"thorough": {"l2_runs": 500}}},
        ],
    },
}
