"""Property id -> how the driver builds and runs its check (native stage + sanitizer stages)."""

CHECKS = {
    "C15": {
        "pkg": "chan", "bin": "c15", "level": "exploration",
        "technique": "runtime monitoring: shadow-model oracle over real-code schedules (exhaustive poll-level DFS for tiny configs, random beyond), offline history checker on OS-thread runs, Miri + ThreadSanitizer stages",
        "level_text": "Every schedule of 9 tiny configurations is enumerated at poll granularity on the real channel code (complete flag per config in evidence); larger configurations, spurious polls, send cancellations and intra-poll preemption are only sampled (random schedules, oversubscribed OS threads, Miri seeds, TSan). Held = no exactly-once/FIFO/EOS/send-error/lost-wake-up/deadlock refutation on what was observed.",
        "level_note": "Trusts the 80-line shadow model (gate = no open channel is empty) taken from the module documentation; layer-1 atomicity is one poll; a race needing a specific multi-step preemption inside a poll in a large configuration can be missed.",
        "stages": [
            # the chan crate is tiny: 6 Miri seeds are part of the quick tier
            {"kind": "miri", "tiers": ["quick", "thorough"], "seeds": {"quick": 6, "thorough": 64},
             "opts": {"quick": {"l2_runs": 2}, "thorough": {"l2_runs": 3}}},
            {"kind": "tsan", "tiers": ["thorough"], "repeats": {"thorough": 5},
             "opts": {"thorough": {"l2_runs": 500}}},
        ],
    },

    "C11": {"pkg": "conc", "bin": "c11", "level": "exploration",
      "technique": "runtime monitoring: differential oracle (native u64 %) over stratified (divisor, hash) pairs through the verif_hooks wrappers of the real StrengthReducedU64 (production partition_indices loop + quotient/remainder), public BatchPartitioner cross-check, overflow-check panics as violations, Miri stage",
      "level_text": "No counterexample in 2.9e7 (quick) / 4.7e9 (thorough) stratified pairs: every divisor < 2^16 (thorough: < 2^20) through the production routing loop, 2^k, 2^k+-1, 2^k+-small, primes near 2^32/2^48/2^63/2^64, u64::MAX-0..64 and random divisors of every bit length, each with 0,1,d+-1, k*d-1/k*d/k*d+1 for k of every bit length up to floor((2^64-1)/d), u64::MAX-0..8 and random values; both carry outcomes and all 64 divisor/quotient bit lengths are coverage obligations. BatchPartitioner hash partitioning is cross-checked against create_hashes % n for n = 1..4096.",
      "level_note": "Sampling, not the proof the property asks for: 2^128 pairs exist. The strata are aimed at the failure modes of reciprocal division (floor vs ceil reciprocal, dropped carry, truncated high half, wrong mask); an error confined to pairs outside those strata and rarer than ~1e-9 among random pairs would be missed. The oracle trusts native `%`.",
      "stages": [{"kind": "miri", "tiers": ["thorough"], "seeds": {"thorough": 2}}]},
    "C14": {"pkg": "conc", "bin": "c14", "level": "exploration",
      "technique": "runtime monitoring: list-comprehension oracle over the real JoinHashMapU32/U64 (update_from_iter with the hash-join reverse-batch idiom, get_matched_indices_with_limit_offset at every page size resumed from the returned offset, contain_hashes, get_matched_indices with deleted_offset), exhaustive small build/probe alphabets + seeded long-chain/unique-map cases, Miri stage",
      "level_text": "All build sequences of length <=4 over {h1,h2,NULL} x probe sequences of length <=3 over {h1,h2,miss,NULL} (single and split batches) are enumerated; 20k (quick) / 200k (thorough) seeded cases add chains up to 40 rows, unique-only maps (fast path), NULL-key build/probe rows and multi-batch builds. For each case every page size 1..|result|+1 is replayed and its concatenation must equal the complete lookup, which must equal [(p,b) | p non-NULL, b inserted, B[b]=P[p]] per probe row; resume points at chain ends, mid-chain and in the fast path are coverage obligations.",
      "level_note": "Within-probe-row order of build indices is observed (always reverse insertion order) but not asserted. PruningJoinHashMap is not public, so deleted_offset is exercised by emulating its post-prune state (stale chain tails) on the public maps. Build sizes <= 40 rows; the u32/u64 index overflow boundary is not reachable at these sizes.",
      "stages": [{"kind": "miri", "tiers": ["thorough"], "seeds": {"thorough": 1}}]},
    "C17": {"pkg": "conc", "bin": "c17", "level": "exploration",
      "technique": "runtime monitoring: model-based sequential oracle after every operation, quiescent-point conservation checks at barriers, call/return history bound for limit enforcement, Miri + ThreadSanitizer stages",
      "level_text": "Random operation histories (<= 60 ops) on the real Unbounded/Greedy/FairSpill pools under 8 nestings of TrackConsumersPool and PeakRecordingPool, compared with a sequential model of each pool's documented admission rule after every operation; 2-3 thread runs with barriers as quiescent points and an offline limit bound over the call/return log of every growth and release. Miri (8 schedules) and ThreadSanitizer re-run the concurrent workload.",
      "level_note": "Bounded exploration: <= 3 consumers, <= 6 reservations, 2-3 threads; concurrent limit enforcement is checked by a conservative bound valid under every linearization, not by enumerating interleavings. FairSpillPool's share is taken per reservation as its try_grow implements it.",
      "stages": [{"kind": "miri", "tiers": ["thorough"], "seeds": {"thorough": 8}},
                 {"kind": "tsan", "tiers": ["thorough"], "repeats": {"thorough": 5}}]},
    "C40": {"pkg": "conc", "bin": "c40", "level": "exploration",
      "technique": "runtime monitoring: model-based sequential oracle (LRU + TTL + byte budget) with per-operation accounting checks, protocol-level validity oracle on the concrete caches, Miri stage",
      "level_text": "Component stage: random histories (<= 60 ops, <= 6 keys, sizes 0 .. above the limit, mock clock) on DefaultCache and on the file-statistics / list-files / file-metadata caches obtained from CacheManager, compared after every operation with a sequential LRU + TTL + byte-budget model (contents, len, memory_used == sum of entries <= limit, expiry stamps); the concrete caches are driven with the documented get -> is_valid_for -> put protocol over simulated files whose size, mtime, e_tag and existence change.",
      "level_note": "Covers the cache components; the exact TTL boundary instant and the return value of put/remove for already-expired entries are left open by the docs and are not asserted.",
      "stages": [{"kind": "miri", "tiers": ["thorough"], "seeds": {"thorough": 2}}]},
    "C52": {"pkg": "dfv", "bin": "c52", "level": "exploration",
      "technique": "runtime monitoring: identity round-trip oracle on TableReference::to_quoted_string/parse_str and Column::quoted_flat_name/from_qualified_name, exhaustive over a 6-character hostile alphabet for short identifiers x 1..3 parts, seeded random longer identifiers (keywords, quotes, control/unicode), Miri stage",
      "level_text": "Exhaustive over identifiers of length 1..3 from {a, A, ., \", space, e-acute}: all 1- and 2-part references and Bare-qualified columns, 3-part references complete over length <=2 (quick, plus 120k sampled length-3 triples) or length <=3 (thorough, 17M), 2/3-part-relation columns over shorter identifiers; plus 60k/3M random identifiers up to 24 characters. Held = every non-empty reference/column re-parsed to itself. The native stage runs in the dfv crate (datafusion-common with its `sql` feature = the production sqlparser-based splitter); the Miri stage runs the same source in the slim conc crate (fallback splitter).",
      "level_note": "Empty identifiers are executed but not asserted (the statement quantifies over identifiers containing characters; the code makes no promise for empty ones). parse_identifiers_normalized is pub(crate) and reached only through its callers.",
      "stages": [{"kind": "miri", "pkg": "conc", "bin": "c52", "tiers": ["thorough"], "seeds": {"thorough": 1}}]},
}
