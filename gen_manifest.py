#!/usr/bin/env python3
"""Regenerates MANIFEST.json from checks_table.py (+ properties.jsonl for the unclaimed list)."""
import json, os, subprocess
from checks_table import CHECKS

ROOT = os.path.dirname(os.path.abspath(__file__))
props = [json.loads(l) for l in open(os.path.join(ROOT, "properties.jsonl"))]
hook_commits = subprocess.run(["git", "-C", "/repo", "log", "--format=%H %s"], capture_output=True, text=True).stdout.splitlines()
hook_commits = [l.split()[0] for l in hook_commits if l.split(" ", 1)[1].startswith("hooks:")]

checks, na = [], []
for p in props:
    pid = p["id"]
    c = CHECKS.get(pid)
    if not c or not c.get("claimed", True):
        na.append({"property_id": pid, "reason": (c or {}).get("na_reason", "check not built yet; see DESIGN.md section 5 for the planned monitor")})
        continue
    checks.append({
        "property_id": pid,
        "quick_cmd": f"./check {pid} --tier quick",
        "thorough_cmd": f"./check {pid} --tier thorough",
        "evidence_file": f"/verif/evidence/{pid}.json",
        "replay_cmd_template": f"./check {pid} --replay {{path}}",
        "engine": f"harness/{c['pkg']} (bin {c['bin']})",
        "level_claimed": {"category": c.get("level", "exploration"), "text": c["level_text"], "design_ref": f"DESIGN.md section 5, {pid}"},
        "level_note": c["level_note"] + (" Thorough tier = the quick workload at %d consecutive seeds starting at VERIF_SEED (DESIGN.md 10.5); the binary's own `--tier thorough` bounds stay available for exploration." % c["thorough_multi_seed"] if c.get("thorough_multi_seed") else ""),
        "technique": c["technique"],
    })

m = {
    "version": 1,
    "setup_cmd": "./check --setup",
    "hooks": {
        "guard": "cargo feature `verif_hooks` (datafusion-physical-plan), off by default",
        "enable": "the harness crates depend on datafusion-physical-plan with features=[\"verif_hooks\"]; nothing else enables it",
        "baseline_off_cmd": "cd /repo && cargo nextest run --workspace --no-fail-fast --tool-config-file pb:/w/lib/nextest.toml --profile pb --test-threads 8 --offline || cargo test --workspace --no-fail-fast --offline",
        "source_commits": hook_commits,
        "add_only": True,
    },
    "engines": [
        {"name": "vcommon", "path": "harness/vcommon", "kind_free_text": "seeded RNG, evidence/verdict reporting (3-valued), history log, parallel case runner"},
        {"name": "chan", "path": "harness/chan", "serves_properties": ["C15"], "kind_free_text": "#[path]-includes the unmodified distributor_channels.rs; poll-level schedule explorer + thread stress; Miri/TSan stages"},
        {"name": "conc", "path": "harness/conc", "kind_free_text": "component-level monitors on datafusion-physical-plan/execution (native, Miri, TSan)"},
        {"name": "dfv", "path": "harness/dfv", "kind_free_text": "engine-level monitors on the full datafusion crate: generators, reference interpreter, in-situ plan monitors, fault/schedule injectors"},
        {"name": "check", "path": "check", "kind_free_text": "driver: rebuilds from /repo's working tree, runs native + sanitizer stages, merges evidence, prints verdict lines"},
    ],
    "checks": checks,
    "not_applicable": na,
    "notes": "Technique family: runtime monitoring and sanitizers only. Exit 2 (no VIOLATION line) = inconclusive. Known findings: known_findings.json.",
}
json.dump(m, open(os.path.join(ROOT, "MANIFEST.json"), "w"), indent=1)
print(f"MANIFEST.json: {len(checks)} checks, {len(na)} not claimed")
