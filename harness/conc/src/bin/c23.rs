//! C23: interval arithmetic and constraint propagation are SOUND (containment only, never tightness).
//!
//! Part A: `apply_operator` / direct `Interval` methods / `NullableInterval` / `satisfy_greater` /
//!         `cast_to` / `intersect` / `union` / `contains` / `contains_value` / `cardinality` on
//!         endpoint grids (8-bit types: every x, y of both operands is enumerated) plus a seeded
//!         random tail. Oracle: checked native arithmetic (i128 / IEEE round-to-nearest).
//! Part B: `ExprIntervalGraph::{evaluate_bounds, update_ranges}` over typed expression trees; the
//!         observed value of an assignment is what the real `PhysicalExpr` evaluates to.

use std::collections::{BTreeMap, BTreeSet, HashMap};
use std::sync::atomic::{AtomicU64, Ordering};
use std::sync::{Arc, Mutex};

use arrow::array::{Array, ArrayRef, BooleanArray, Float64Array, Int32Array, Int64Array};
use arrow::compute::CastOptions;
use arrow::datatypes::{DataType, Field, Schema};
use arrow::record_batch::RecordBatch;
use datafusion_common::ScalarValue;
use datafusion_expr_common::interval_arithmetic::{apply_operator, satisfy_greater, Interval, NullableInterval};
use datafusion_expr_common::operator::Operator;
use datafusion_physical_expr::expressions::{BinaryExpr, CastExpr, Column, Literal, NegativeExpr};
use datafusion_physical_expr::intervals::cp_solver::{ExprIntervalGraph, PropagationResult};
use datafusion_physical_expr::PhysicalExpr;
use vcommon::par::guard;
use vcommon::{fp_mix, fp_str, json, Args, Json, Report, Rng};

const PID: u64 = 23;

// ---------------------------------------------------------------------------------------
// FP rounding mode monitor (the engine switches the mode with fesetround around float bounds)
// ---------------------------------------------------------------------------------------

#[cfg(all(not(miri), target_os = "linux"))]
unsafe extern "C" {
    fn fegetround() -> i32;
    fn fesetround(round: i32) -> i32;
}

/// true when the thread is in round-to-nearest; otherwise restores it and returns false
fn rounding_mode_ok() -> bool {
    #[cfg(all(not(miri), target_os = "linux"))]
    unsafe {
        if fegetround() != 0 {
            fesetround(0);
            return false;
        }
    }
    true
}

// ---------------------------------------------------------------------------------------
// Types and values
// ---------------------------------------------------------------------------------------

#[derive(Clone, Copy, PartialEq, Eq, Debug, Hash, PartialOrd, Ord)]
enum Ty {
    I8,
    U8,
    I32,
    I64,
    U64,
    F32,
    F64,
}

const ALL_TYS: [Ty; 7] = [Ty::I8, Ty::U8, Ty::I32, Ty::I64, Ty::U64, Ty::F32, Ty::F64];

impl Ty {
    fn name(self) -> &'static str {
        match self {
            Ty::I8 => "Int8",
            Ty::U8 => "UInt8",
            Ty::I32 => "Int32",
            Ty::I64 => "Int64",
            Ty::U64 => "UInt64",
            Ty::F32 => "Float32",
            Ty::F64 => "Float64",
        }
    }
    fn dt(self) -> DataType {
        match self {
            Ty::I8 => DataType::Int8,
            Ty::U8 => DataType::UInt8,
            Ty::I32 => DataType::Int32,
            Ty::I64 => DataType::Int64,
            Ty::U64 => DataType::UInt64,
            Ty::F32 => DataType::Float32,
            Ty::F64 => DataType::Float64,
        }
    }
    fn is_float(self) -> bool {
        matches!(self, Ty::F32 | Ty::F64)
    }
    fn is_8bit(self) -> bool {
        matches!(self, Ty::I8 | Ty::U8)
    }
    fn is_unsigned(self) -> bool {
        matches!(self, Ty::U8 | Ty::U64)
    }
    fn imin(self) -> i128 {
        match self {
            Ty::I8 => i8::MIN as i128,
            Ty::I32 => i32::MIN as i128,
            Ty::I64 => i64::MIN as i128,
            _ => 0,
        }
    }
    fn imax(self) -> i128 {
        match self {
            Ty::I8 => i8::MAX as i128,
            Ty::U8 => u8::MAX as i128,
            Ty::I32 => i32::MAX as i128,
            Ty::I64 => i64::MAX as i128,
            Ty::U64 => u64::MAX as i128,
            _ => 0,
        }
    }
    fn fmax(self) -> f64 {
        if self == Ty::F32 { f32::MAX as f64 } else { f64::MAX }
    }
    fn code(self) -> u64 {
        self as u64
    }
    /// round an f64 to this float type (identity for F64)
    fn fr(self, x: f64) -> f64 {
        if self == Ty::F32 { x as f32 as f64 } else { x }
    }
    fn next_up(self, x: f64) -> f64 {
        if self == Ty::F32 { (x as f32).next_up() as f64 } else { x.next_up() }
    }
    fn next_down(self, x: f64) -> f64 {
        if self == Ty::F32 { (x as f32).next_down() as f64 } else { x.next_down() }
    }
}

/// A native value. Float32 values are carried as the (exactly) widened f64.
#[derive(Clone, Copy, Debug, PartialEq)]
enum V {
    I(i128),
    F(f64),
}

impl V {
    fn int(self) -> i128 {
        match self {
            V::I(x) => x,
            V::F(x) => x as i128,
        }
    }
    fn flt(self) -> f64 {
        match self {
            V::I(x) => x as f64,
            V::F(x) => x,
        }
    }
    fn show(self) -> String {
        match self {
            V::I(x) => x.to_string(),
            V::F(x) => format!("{x:?}"),
        }
    }
    fn bits(self) -> u64 {
        match self {
            V::I(x) => (x as u64) ^ ((x >> 64) as u64),
            V::F(x) => x.to_bits(),
        }
    }
}

fn show_opt(v: Option<V>) -> String {
    v.map(|v| v.show()).unwrap_or_else(|| "unbounded".to_string())
}

fn sv(ty: Ty, v: Option<V>) -> ScalarValue {
    match ty {
        Ty::I8 => ScalarValue::Int8(v.map(|v| v.int() as i8)),
        Ty::U8 => ScalarValue::UInt8(v.map(|v| v.int() as u8)),
        Ty::I32 => ScalarValue::Int32(v.map(|v| v.int() as i32)),
        Ty::I64 => ScalarValue::Int64(v.map(|v| v.int() as i64)),
        Ty::U64 => ScalarValue::UInt64(v.map(|v| v.int() as u64)),
        Ty::F32 => ScalarValue::Float32(v.map(|v| v.flt() as f32)),
        Ty::F64 => ScalarValue::Float64(v.map(|v| v.flt())),
    }
}

fn from_sv(s: &ScalarValue) -> Option<(Ty, Option<V>)> {
    Some(match s {
        ScalarValue::Int8(v) => (Ty::I8, v.map(|x| V::I(x as i128))),
        ScalarValue::UInt8(v) => (Ty::U8, v.map(|x| V::I(x as i128))),
        ScalarValue::Int32(v) => (Ty::I32, v.map(|x| V::I(x as i128))),
        ScalarValue::Int64(v) => (Ty::I64, v.map(|x| V::I(x as i128))),
        ScalarValue::UInt64(v) => (Ty::U64, v.map(|x| V::I(x as i128))),
        ScalarValue::Float32(v) => (Ty::F32, v.map(|x| V::F(x as f64))),
        ScalarValue::Float64(v) => (Ty::F64, v.map(V::F)),
        _ => return None,
    })
}

/// Harness-side interval: `None` endpoint = unbounded on that side. Also used for the intervals
/// observed from the engine.
#[derive(Clone, Debug, PartialEq)]
struct Iv {
    ty: Ty,
    lo: Option<V>,
    hi: Option<V>,
}

impl Iv {
    fn ilo(&self) -> i128 {
        self.lo.map(|v| v.int()).unwrap_or(self.ty.imin())
    }
    fn ihi(&self) -> i128 {
        self.hi.map(|v| v.int()).unwrap_or(self.ty.imax())
    }
    fn flo(&self) -> f64 {
        self.lo.map(|v| v.flt()).unwrap_or(f64::NEG_INFINITY)
    }
    fn fhi(&self) -> f64 {
        self.hi.map(|v| v.flt()).unwrap_or(f64::INFINITY)
    }
    fn has_i(&self, x: i128) -> bool {
        self.ilo() <= x && x <= self.ihi()
    }
    /// IEEE (numeric) membership: -0.0 and +0.0 are the same point. Used for what the engine returned.
    fn has_f(&self, x: f64) -> bool {
        self.flo() <= x && x <= self.fhi()
    }
    /// totalOrder membership (what the engine itself uses): used for choosing inputs.
    fn has_f_total(&self, x: f64) -> bool {
        use std::cmp::Ordering::Greater;
        !x.is_nan() && self.flo().total_cmp(&x) != Greater && x.total_cmp(&self.fhi()) != Greater
    }
    fn has(&self, v: V) -> bool {
        match v {
            V::I(x) => self.has_i(x),
            V::F(x) => self.has_f(x),
        }
    }
    fn fully_unbounded(&self) -> bool {
        (self.lo.is_none() || (self.ty.is_unsigned() && self.ilo() == 0)) && self.hi.is_none()
    }
    fn show(&self) -> String {
        format!("{}[{}, {}]", self.ty.name(), show_opt(self.lo), show_opt(self.hi))
    }
    fn key(&self) -> u64 {
        let a = self.lo.map(|v| v.bits()).unwrap_or(0x1111_2222_3333_4444);
        let b = self.hi.map(|v| v.bits()).unwrap_or(0x5555_6666_7777_8888);
        fp_mix(fp_mix(self.ty.code(), a), b)
    }
    /// self-test corruption of an OBSERVED interval: pull the upper bound in by one step
    fn corrupt(&mut self) {
        let ty = self.ty;
        self.hi = Some(if ty.is_float() {
            let h = self.hi.map(|v| v.flt()).unwrap_or(ty.fmax());
            V::F(ty.next_down(h))
        } else {
            V::I(self.ihi() - 1)
        });
    }
    /// `flavour` picks how an unbounded float endpoint is handed to `Interval::try_new`
    /// (NULL, ±inf or NaN — all documented to normalise to unbounded)
    fn engine(&self, flavour: u64) -> datafusion_common::Result<Interval> {
        let ty = self.ty;
        let unb = |upper: bool| -> ScalarValue {
            if !ty.is_float() {
                return sv(ty, None);
            }
            match flavour % 3 {
                0 => sv(ty, None),
                1 => sv(ty, Some(V::F(if upper { f64::INFINITY } else { f64::NEG_INFINITY }))),
                _ => sv(ty, Some(V::F(f64::NAN))),
            }
        };
        let lo = if self.lo.is_some() { sv(ty, self.lo) } else { unb(false) };
        let hi = if self.hi.is_some() { sv(ty, self.hi) } else { unb(true) };
        Interval::try_new(lo, hi)
    }
}

fn observe(i: &Interval) -> Option<Iv> {
    let (ty, lo) = from_sv(i.lower())?;
    let (ty2, hi) = from_sv(i.upper())?;
    (ty == ty2).then_some(Iv { ty, lo, hi })
}

fn observe_bool(i: &Interval) -> Option<(bool, bool)> {
    match (i.lower(), i.upper()) {
        (ScalarValue::Boolean(Some(l)), ScalarValue::Boolean(Some(u))) => Some((*l, *u)),
        _ => None,
    }
}

/// does the boolean interval [l, u] contain truth value t
fn bool_has(b: (bool, bool), t: bool) -> bool {
    if t { b.1 } else { !b.0 }
}

fn corrupt_bool(b: (bool, bool)) -> (bool, bool) {
    match b {
        (true, true) => (false, false),
        (false, false) => (true, true),
        (false, true) => (true, true),
        x => x,
    }
}

// ---------------------------------------------------------------------------------------
// Sampling
// ---------------------------------------------------------------------------------------

fn f64_key(x: f64) -> u64 {
    let b = x.to_bits();
    if b >> 63 == 1 { !b } else { b | (1 << 63) }
}
fn f64_unkey(k: u64) -> f64 {
    f64::from_bits(if k >> 63 == 1 { k & !(1 << 63) } else { !k })
}
fn f32_key(x: f32) -> u32 {
    let b = x.to_bits();
    if b >> 31 == 1 { !b } else { b | (1 << 31) }
}
fn f32_unkey(k: u32) -> f32 {
    f32::from_bits(if k >> 31 == 1 { k & !(1 << 31) } else { !k })
}

/// uniformly random representable float of `ty` in [l, h] (totalOrder)
fn rand_float_between(ty: Ty, l: f64, h: f64, rng: &mut Rng) -> f64 {
    if ty == Ty::F32 {
        let (a, b) = (f32_key(l as f32), f32_key(h as f32));
        f32_unkey(a + rng.below((b - a) as u64 + 1) as u32) as f64
    } else {
        let (a, b) = (f64_key(l), f64_key(h));
        let span = b - a;
        f64_unkey(if span == u64::MAX { rng.next_u64() } else { a + rng.below(span + 1) })
    }
}

fn rand_i128_between(lo: i128, hi: i128, rng: &mut Rng) -> i128 {
    let span = (hi - lo) as u128;
    if span >= u64::MAX as u128 {
        lo + (rng.next_u64() as u128 % (span + 1).max(1)) as i128
    } else {
        lo + rng.below(span as u64 + 1) as i128
    }
}

/// values of an integer interval: all of them when there are at most `all_limit`, otherwise
/// boundary values + `nrand` seeded random ones. Returns (values, exhaustive).
fn int_samples(iv: &Iv, all_limit: i128, nrand: usize, rng: &mut Rng) -> (Vec<i128>, bool) {
    let (lo, hi) = (iv.ilo(), iv.ihi());
    if hi - lo < all_limit {
        return ((lo..=hi).collect(), true);
    }
    let mut s: BTreeSet<i128> = BTreeSet::new();
    for d in 0..3 {
        s.insert(lo + d);
        s.insert(hi - d);
    }
    for c in [-2i128, -1, 0, 1, 2, iv.ty.imin(), iv.ty.imin() + 1, iv.ty.imax() - 1, iv.ty.imax(), (lo + hi) / 2] {
        if iv.has_i(c) {
            s.insert(c);
        }
    }
    for k in 0..nrand {
        let v = if k % 2 == 0 {
            rand_i128_between(lo, hi, rng)
        } else {
            // small magnitudes / near an end
            let w = 1i128 << (1 + rng.below(40));
            let base = *rng.pick(&[lo, hi, 0]);
            (base + rand_i128_between(-w, w, rng)).clamp(lo, hi)
        };
        s.insert(v);
    }
    (s.into_iter().collect(), false)
}

fn float_samples(iv: &Iv, nrand: usize, rng: &mut Rng) -> Vec<f64> {
    let ty = iv.ty;
    let (l, h) = (iv.flo(), iv.fhi());
    let tiny = if ty == Ty::F32 { f32::from_bits(1) as f64 } else { f64::from_bits(1) };
    let minpos = if ty == Ty::F32 { f32::MIN_POSITIVE as f64 } else { f64::MIN_POSITIVE };
    let mut c = vec![l, ty.next_up(l), ty.next_up(ty.next_up(l)), h, ty.next_down(h), ty.next_down(ty.next_down(h))];
    for m in [0.0, tiny, minpos, 0.5, 1.0, 3.0, ty.fmax()] {
        c.push(m);
        c.push(-m);
    }
    if l.is_finite() && h.is_finite() {
        c.push(ty.fr(l * 0.5 + h * 0.5));
    }
    for k in 0..nrand {
        if k % 2 == 0 || !(l.is_finite() && h.is_finite()) {
            c.push(rand_float_between(ty, l, h, rng));
        } else {
            let u = rng.f64();
            c.push(ty.fr(l * (1.0 - u) + h * u));
        }
    }
    let mut seen = BTreeSet::new();
    c.into_iter().filter(|x| iv.has_f_total(*x) && seen.insert(x.to_bits())).collect()
}

/// An interval prepared once: engine object + the values it is checked with.
struct Prep {
    iv: Iv,
    eng: Interval,
    xi: Vec<i128>,
    xf: Vec<f64>,
    exhaustive: bool,
}

impl Prep {
    fn new(iv: Iv, flavour: u64, all_limit: i128, nrand: usize, rng: &mut Rng) -> Option<Prep> {
        let eng = iv.engine(flavour).ok()?;
        let (xi, xf, exhaustive) = if iv.ty.is_float() {
            (vec![], float_samples(&iv, nrand, rng), false)
        } else {
            let (xi, e) = int_samples(&iv, all_limit, nrand, rng);
            (xi, vec![], e)
        };
        Some(Prep { iv, eng, xi, xf, exhaustive })
    }
    fn values(&self) -> Vec<V> {
        if self.iv.ty.is_float() { self.xf.iter().map(|x| V::F(*x)).collect() } else { self.xi.iter().map(|x| V::I(*x)).collect() }
    }
}

fn endpoint_grid(ty: Ty) -> Vec<V> {
    let mut s: Vec<V> = vec![];
    if ty.is_float() {
        let mx = ty.fmax();
        let tiny = if ty == Ty::F32 { f32::from_bits(1) as f64 } else { f64::from_bits(1) };
        let minpos = if ty == Ty::F32 { f32::MIN_POSITIVE as f64 } else { f64::MIN_POSITIVE };
        for x in [-mx, ty.next_up(-mx), -1.5, -1.0, -minpos, -tiny, -0.0, 0.0, tiny, minpos, 1.0, 1.5, ty.next_down(mx), mx] {
            s.push(V::F(x));
        }
        return s;
    }
    let (mn, mx) = (ty.imin(), ty.imax());
    let mut set: BTreeSet<i128> = [mn, mn + 1, mx - 1, mx, 0, 1, 2].into_iter().collect();
    if !ty.is_unsigned() {
        set.insert(-1);
        set.insert(-2);
    }
    // the square-root-of-overflow boundary for the wide types
    let sq: Option<i128> = match ty {
        Ty::I32 => Some(46340),
        Ty::I64 => Some(3037000499),
        Ty::U64 => Some(4294967295),
        _ => None,
    };
    if let Some(q) = sq {
        set.insert(q);
        set.insert(q + 1);
        if !ty.is_unsigned() {
            set.insert(-q);
            set.insert(-q - 1);
        }
    }
    set.into_iter().map(V::I).collect()
}

/// every endpoint pair lo <= hi of the grid, plus unbounded on either/both sides
fn grid_intervals(ty: Ty) -> Vec<Iv> {
    let g = endpoint_grid(ty);
    let mut out = vec![];
    for (i, lo) in g.iter().enumerate() {
        for hi in &g[i..] {
            out.push(Iv { ty, lo: Some(*lo), hi: Some(*hi) });
        }
    }
    for e in &g {
        out.push(Iv { ty, lo: None, hi: Some(*e) });
        out.push(Iv { ty, lo: Some(*e), hi: None });
    }
    out.push(Iv { ty, lo: None, hi: None });
    out
}

// ---------------------------------------------------------------------------------------
// Shared context / local accumulators
// ---------------------------------------------------------------------------------------

#[derive(Default)]
struct Local {
    c: HashMap<String, u64>,
    seen: BTreeSet<(String, String)>,
    skips: HashMap<String, u64>,
}

impl Local {
    fn add(&mut self, k: &str, n: u64) {
        if n > 0 {
            *self.c.entry(k.to_string()).or_insert(0) += n;
        }
    }
    fn skip(&mut self, k: &str) {
        *self.skips.entry(k.to_string()).or_insert(0) += 1;
    }
    fn see(&mut self, set: &str, m: String) {
        self.seen.insert((set.to_string(), m));
    }
    fn flush(self, rep: &Report) {
        for (k, n) in self.c {
            rep.count(&k, n);
        }
        for (k, n) in self.skips {
            for _ in 0..n {
                rep.skip(&k);
            }
        }
        for (s, m) in self.seen {
            rep.seen(&s, &m);
        }
    }
}

struct Ctx<'a> {
    rep: &'a Report,
    seed: u64,
    stage: u64,
    selftest: bool,
    in_miri: bool,
    panic_count: AtomicU64,
    panics: Mutex<BTreeMap<String, (u64, Json)>>,
    forwarded: Mutex<BTreeMap<String, u64>>,
    zero_notes: AtomicU64,
}

impl Ctx<'_> {
    /// an engine panic: reported apart from soundness violations (see triage note in `run`)
    fn panic(&self, what: &str, ty: &str, msg: &str, witness: Json) {
        self.panic_count.fetch_add(1, Ordering::Relaxed);
        self.rep.count(&format!("panic/{what}/{ty}"), 1);
        let loc = msg.rsplit(" @ ").next().unwrap_or("").to_string();
        let key = format!("{what}/{ty} @ {loc}");
        let mut g = self.panics.lock().unwrap_or_else(|e| e.into_inner());
        g.entry(key).or_insert_with(|| (0, json!({"message": msg, "witness": witness}))).0 += 1;
    }
    /// a violation, also tallied per signature (the report keeps only a few witnesses)
    fn violation(&self, signature: &str, witness: Json) {
        self.rep.count(&format!("violations/{signature}"), 1);
        // the report keeps 25 witnesses in total: forward one per signature so that every kind is shown (tallies are in the counters)
        let mut g = self.forwarded.lock().unwrap_or_else(|e| e.into_inner());
        let n = g.entry(signature.to_string()).or_insert(0);
        *n += 1;
        if *n <= 1 {
            self.rep.violation(signature, witness);
        }
    }
    fn rng(&self, path: &[u64]) -> Rng {
        let mut p = vec![PID, self.stage];
        p.extend_from_slice(path);
        Rng::derive(self.seed, &p)
    }
}

fn first_line(e: &dyn std::fmt::Display) -> String {
    let s = e.to_string();
    let l = s.lines().next().unwrap_or("");
    l.chars().take(90).collect()
}

// ---------------------------------------------------------------------------------------
// Part A: binary operations on two intervals of the same type
// ---------------------------------------------------------------------------------------

#[derive(Clone, Copy, Debug, PartialEq, Eq)]
enum Op2 {
    Plus,
    Minus,
    Multiply,
    Divide,
    Lt,
    LtEq,
    Gt,
    GtEq,
    Eq,
    NotEq,
    Intersect,
    Union,
    Contains,
    SatGt,
    SatGtEq,
}

const ALL_OP2: [Op2; 15] = [
    Op2::Plus,
    Op2::Minus,
    Op2::Multiply,
    Op2::Divide,
    Op2::Lt,
    Op2::LtEq,
    Op2::Gt,
    Op2::GtEq,
    Op2::Eq,
    Op2::NotEq,
    Op2::Intersect,
    Op2::Union,
    Op2::Contains,
    Op2::SatGt,
    Op2::SatGtEq,
];

impl Op2 {
    fn name(self) -> &'static str {
        match self {
            Op2::Plus => "Plus",
            Op2::Minus => "Minus",
            Op2::Multiply => "Multiply",
            Op2::Divide => "Divide",
            Op2::Lt => "Lt",
            Op2::LtEq => "LtEq",
            Op2::Gt => "Gt",
            Op2::GtEq => "GtEq",
            Op2::Eq => "Eq",
            Op2::NotEq => "NotEq",
            Op2::Intersect => "intersect",
            Op2::Union => "union",
            Op2::Contains => "contains",
            Op2::SatGt => "satisfy_greater_strict",
            Op2::SatGtEq => "satisfy_greater_eq",
        }
    }
    fn operator(self) -> Option<Operator> {
        Some(match self {
            Op2::Plus => Operator::Plus,
            Op2::Minus => Operator::Minus,
            Op2::Multiply => Operator::Multiply,
            Op2::Divide => Operator::Divide,
            Op2::Lt => Operator::Lt,
            Op2::LtEq => Operator::LtEq,
            Op2::Gt => Operator::Gt,
            Op2::GtEq => Operator::GtEq,
            Op2::Eq => Operator::Eq,
            Op2::NotEq => Operator::NotEq,
            _ => return None,
        })
    }
    fn is_arith(self) -> bool {
        matches!(self, Op2::Plus | Op2::Minus | Op2::Multiply | Op2::Divide)
    }
    fn is_cmp(self) -> bool {
        matches!(self, Op2::Lt | Op2::LtEq | Op2::Gt | Op2::GtEq | Op2::Eq | Op2::NotEq)
    }
}

/// checked native integer arithmetic in the result type `rty`; None = not representable
fn arith_i(op: Op2, rty: Ty, x: i128, y: i128) -> Option<i128> {
    let r = match op {
        Op2::Plus => x.checked_add(y)?,
        Op2::Minus => x.checked_sub(y)?,
        Op2::Multiply => x.checked_mul(y)?,
        Op2::Divide => {
            if y == 0 {
                return None;
            }
            x.checked_div(y)? // truncating, like the arrow kernel
        }
        _ => return None,
    };
    (rty.imin() <= r && r <= rty.imax()).then_some(r)
}

/// native IEEE round-to-nearest arithmetic in `rty`; None = not finite
fn arith_f(op: Op2, rty: Ty, x: f64, y: f64) -> Option<f64> {
    let r = if rty == Ty::F32 {
        let (x, y) = (x as f32, y as f32);
        (match op {
            Op2::Plus => x + y,
            Op2::Minus => x - y,
            Op2::Multiply => x * y,
            Op2::Divide => x / y,
            _ => return None,
        }) as f64
    } else {
        match op {
            Op2::Plus => x + y,
            Op2::Minus => x - y,
            Op2::Multiply => x * y,
            Op2::Divide => x / y,
            _ => return None,
        }
    };
    r.is_finite().then_some(r)
}

fn cmp_i(op: Op2, x: i128, y: i128) -> bool {
    match op {
        Op2::Lt => x < y,
        Op2::LtEq => x <= y,
        Op2::Gt => x > y,
        Op2::GtEq => x >= y,
        Op2::Eq => x == y,
        Op2::NotEq => x != y,
        _ => false,
    }
}

/// (IEEE truth, totalOrder truth) — the arrow comparison kernels use totalOrder, SQL users expect
/// IEEE; they only differ for -0.0 vs +0.0 (no NaN is ever sampled). Either one is accepted.
fn cmp_f(op: Op2, x: f64, y: f64) -> (bool, bool) {
    let o = x.total_cmp(&y);
    use std::cmp::Ordering::*;
    match op {
        Op2::Lt => (x < y, o == Less),
        Op2::LtEq => (x <= y, o != Greater),
        Op2::Gt => (x > y, o == Greater),
        Op2::GtEq => (x >= y, o != Less),
        Op2::Eq => (x == y, o == Equal),
        Op2::NotEq => (x != y, o != Equal),
        _ => (false, false),
    }
}

enum EngOut {
    Iv(Interval),
    Opt(Option<Interval>),
    Pair(Option<(Interval, Interval)>),
}

fn engine_call(op: Op2, direct: bool, a: &Interval, b: &Interval) -> datafusion_common::Result<EngOut> {
    Ok(match op {
        Op2::Intersect => EngOut::Opt(a.intersect(b)?),
        Op2::Union => EngOut::Iv(a.union(b)?),
        Op2::Contains => EngOut::Iv(a.contains(b)?),
        Op2::SatGt => EngOut::Pair(satisfy_greater(a, b, true)?),
        Op2::SatGtEq => EngOut::Pair(satisfy_greater(a, b, false)?),
        _ if direct => EngOut::Iv(match op {
            Op2::Plus => a.add(b)?,
            Op2::Minus => a.sub(b)?,
            Op2::Multiply => a.mul(b)?,
            Op2::Divide => a.div(b)?,
            Op2::Lt => a.lt(b)?,
            Op2::LtEq => a.lt_eq(b)?,
            Op2::Gt => a.gt(b)?,
            Op2::GtEq => a.gt_eq(b)?,
            Op2::Eq => a.equal(b)?,
            _ => a.equal(b)?.not()?,
        }),
        _ => EngOut::Iv(apply_operator(&op.operator().expect("operator"), a, b)?),
    })
}

fn witness2(op: Op2, a: &Prep, b: &Prep, returned: String, x: V, y: Option<V>, native: String, expected: &str) -> Json {
    json!({
        "operation": op.name(), "type": a.iv.ty.name(),
        "lhs": a.iv.show(), "rhs": b.iv.show(),
        "lhs_engine": a.eng.to_string(), "rhs_engine": b.eng.to_string(),
        "x": x.show(), "y": y.map(|v| v.show()), "native": native,
        "returned": returned, "expected": expected,
    })
}

/// One (op, I, J) triple. Returns (pairs checked, nontrivial).
fn run_binary(cx: &Ctx, loc: &mut Local, op: Op2, direct: bool, a: &Prep, b: &Prep) {
    let ty = a.iv.ty;
    let fp = fp_mix(fp_mix(op as u64 + 1000, a.iv.key()), b.iv.key());
    let cell = format!("{}/{}", op.name(), ty.name());
    if cx.in_miri && ty.is_float() && op.is_arith() {
        // float bounds call the C function fesetround, which Miri cannot execute
        loc.skip("miri-cannot-call-fesetround");
        return;
    }
    let out = guard(|| engine_call(op, direct, &a.eng, &b.eng));
    if !rounding_mode_ok() {
        loc.add("fp_rounding_mode_left_altered", 1);
    }
    let out = match out {
        Err(p) => {
            cx.panic(op.name(), ty.name(), &p, json!({"lhs": a.eng.to_string(), "rhs": b.eng.to_string(), "direct_method": direct}));
            cx.rep.case(fp, false);
            return;
        }
        Ok(Err(e)) => {
            loc.skip(&format!("engine-error/{cell}"));
            loc.see("engine_errors", format!("{cell}: {}", first_line(&e)));
            cx.rep.case(fp, false);
            return;
        }
        Ok(Ok(o)) => o,
    };
    loc.add(&format!("op/{cell}"), 1);
    let mut checked = 0u64;
    let mut nontrivial = false;
    let is_f = ty.is_float();
    match (op, out) {
        (o, EngOut::Iv(res)) if o.is_arith() => {
            let Some(mut obs) = observe(&res) else {
                loc.skip(&format!("result-type-not-modelled/{cell}"));
                cx.rep.case(fp, false);
                return;
            };
            if obs.ty.is_float() != is_f {
                loc.skip(&format!("result-type-family-changed/{cell}"));
                cx.rep.case(fp, false);
                return;
            }
            if cx.selftest {
                obs.corrupt();
            }
            loc.see("result_types", format!("{} {} -> {}", ty.name(), op.name(), obs.ty.name()));
            let mut bad: Option<(V, V, V)> = None;
            let mut zero_only = 0u64;
            if is_f {
                let (lo, hi) = (obs.flo(), obs.fhi());
                for &x in &a.xf {
                    for &y in &b.xf {
                        let Some(r) = arith_f(op, obs.ty, x, y) else { continue };
                        checked += 1;
                        if !(lo <= r && r <= hi) {
                            bad.get_or_insert((V::F(x), V::F(y), V::F(r)));
                        } else if r == 0.0 && !obs.has_f_total(r) {
                            zero_only += 1;
                        }
                    }
                }
            } else {
                let (lo, hi) = (obs.ilo(), obs.ihi());
                let rty = obs.ty;
                for &x in &a.xi {
                    for &y in &b.xi {
                        let Some(r) = arith_i(op, rty, x, y) else { continue };
                        checked += 1;
                        if r < lo || r > hi {
                            bad.get_or_insert((V::I(x), V::I(y), V::I(r)));
                        }
                    }
                }
            }
            if zero_only > 0 {
                cx.zero_notes.fetch_add(zero_only, Ordering::Relaxed);
                loc.add(&format!("note/signed-zero-outside-under-totalOrder/{cell}"), zero_only);
            }
            if let Some((x, y, r)) = bad {
                cx.violation(
                    &format!("unsound/{cell}"),
                    witness2(op, a, b, res.to_string(), x, Some(y), r.show(), "x (op) y is representable and must lie inside the returned interval"),
                );
            }
            nontrivial = checked > 0 && !obs.fully_unbounded();
        }
        (o, EngOut::Iv(res)) if o.is_cmp() => {
            let Some(mut obs) = observe_bool(&res) else {
                loc.skip(&format!("non-boolean-result/{cell}"));
                cx.rep.case(fp, false);
                return;
            };
            if cx.selftest {
                obs = corrupt_bool(obs);
            }
            let mut bad: Option<(V, V, bool)> = None;
            if is_f {
                for &x in &a.xf {
                    for &y in &b.xf {
                        let (t1, t2) = cmp_f(op, x, y);
                        checked += 1;
                        if !bool_has(obs, t1) && !bool_has(obs, t2) {
                            bad.get_or_insert((V::F(x), V::F(y), t1));
                        }
                    }
                }
            } else {
                // a certain answer can only be refuted by the opposite truth value
                for &x in &a.xi {
                    for &y in &b.xi {
                        let t = cmp_i(op, x, y);
                        checked += 1;
                        if !bool_has(obs, t) {
                            bad.get_or_insert((V::I(x), V::I(y), t));
                        }
                    }
                }
            }
            if let Some((x, y, t)) = bad {
                cx.violation(
                    &format!("unsound/{cell}"),
                    witness2(op, a, b, res.to_string(), x, Some(y), t.to_string(), "the truth value of x (op) y must be inside the returned boolean interval"),
                );
            }
            nontrivial = checked > 0 && obs.0 == obs.1;
        }
        (Op2::Intersect, EngOut::Opt(res)) => {
            let mut obs = res.as_ref().and_then(observe);
            if res.is_some() && obs.is_none() {
                loc.skip(&format!("result-type-not-modelled/{cell}"));
                cx.rep.case(fp, false);
                return;
            }
            if cx.selftest {
                if let Some(o) = obs.as_mut() {
                    o.corrupt()
                }
            }
            let mut bad: Option<V> = None;
            for v in a.values().into_iter().chain(b.values()) {
                let both = match v {
                    V::I(x) => a.iv.has_i(x) && b.iv.has_i(x),
                    V::F(x) => a.iv.has_f_total(x) && b.iv.has_f_total(x),
                };
                if both {
                    checked += 1;
                    if !obs.as_ref().is_some_and(|o| o.has(v)) {
                        bad.get_or_insert(v);
                    }
                }
            }
            if let Some(v) = bad {
                cx.violation(
                    &format!("unsound/{cell}"),
                    witness2(op, a, b, format!("{:?}", res.as_ref().map(|r| r.to_string())), v, None, "x is in both".into(), "a value in both operands must be in the intersection"),
                );
            }
            nontrivial = checked > 0 || res.is_none();
        }
        (Op2::Union, EngOut::Iv(res)) => {
            let Some(mut obs) = observe(&res) else {
                loc.skip(&format!("result-type-not-modelled/{cell}"));
                cx.rep.case(fp, false);
                return;
            };
            if cx.selftest {
                obs.corrupt();
            }
            let mut bad: Option<V> = None;
            for v in a.values().into_iter().chain(b.values()) {
                checked += 1;
                if !obs.has(v) {
                    bad.get_or_insert(v);
                }
            }
            if let Some(v) = bad {
                cx.violation(&format!("unsound/{cell}"), witness2(op, a, b, res.to_string(), v, None, "x is in one operand".into(), "a value of either operand must be in the union"));
            }
            nontrivial = checked > 0 && !obs.fully_unbounded();
        }
        (Op2::Contains, EngOut::Iv(res)) => {
            let Some(mut obs) = observe_bool(&res) else {
                loc.skip(&format!("non-boolean-result/{cell}"));
                cx.rep.case(fp, false);
                return;
            };
            if cx.selftest {
                obs = corrupt_bool(obs);
            }
            let mut bad: Option<(V, &str)> = None;
            if obs == (true, true) {
                // documented: superset ⇒ every value of `other` is a value of `self`
                for v in b.values() {
                    checked += 1;
                    if !a.iv.has(v) {
                        bad.get_or_insert((v, "[true,true] = superset, but this value of rhs is not in lhs"));
                    }
                }
            } else if obs == (false, false) {
                // documented: disjoint ⇒ no common value
                for v in a.values().into_iter().chain(b.values()) {
                    checked += 1;
                    let both = match v {
                        V::I(x) => a.iv.has_i(x) && b.iv.has_i(x),
                        V::F(x) => a.iv.has_f_total(x) && b.iv.has_f_total(x),
                    };
                    if both {
                        bad.get_or_insert((v, "[false,false] = disjoint, but this value is in both"));
                    }
                }
            }
            if let Some((v, why)) = bad {
                cx.violation(&format!("unsound/{cell}"), witness2(op, a, b, res.to_string(), v, None, why.into(), why));
            }
            nontrivial = checked > 0;
        }
        (Op2::SatGt | Op2::SatGtEq, EngOut::Pair(res)) => {
            let strict = op == Op2::SatGt;
            let mut obs: Option<(Iv, Iv)> = None;
            if let Some((l, r)) = &res {
                match (observe(l), observe(r)) {
                    (Some(l), Some(r)) => obs = Some((l, r)),
                    _ => {
                        loc.skip(&format!("result-type-not-modelled/{cell}"));
                        cx.rep.case(fp, false);
                        return;
                    }
                }
            }
            if cx.selftest {
                if let Some((l, _)) = obs.as_mut() {
                    l.corrupt()
                }
            }
            let mut bad: Option<(V, V, &str)> = None;
            let mut judge = |x: V, y: V| {
                checked += 1;
                match &obs {
                    None => {
                        bad.get_or_insert((x, y, "returned None (infeasible) although this pair satisfies the inequality"));
                    }
                    Some((l, r)) => {
                        if !l.has(x) || !r.has(y) {
                            bad.get_or_insert((x, y, "a satisfying pair must survive in the returned (left, right)"));
                        }
                    }
                }
            };
            if is_f {
                for &x in &a.xf {
                    for &y in &b.xf {
                        // only pairs on which IEEE and totalOrder agree that the inequality holds
                        let (t1, t2) = cmp_f(if strict { Op2::Gt } else { Op2::GtEq }, x, y);
                        if t1 && t2 {
                            judge(V::F(x), V::F(y));
                        }
                    }
                }
            } else {
                for &x in &a.xi {
                    for &y in &b.xi {
                        if (strict && x > y) || (!strict && x >= y) {
                            judge(V::I(x), V::I(y));
                        }
                    }
                }
            }
            if let Some((x, y, why)) = bad {
                let ret = res.as_ref().map(|(l, r)| format!("({l}, {r})")).unwrap_or_else(|| "None".into());
                cx.violation(&format!("unsound/{cell}"), witness2(op, a, b, ret, x, Some(y), "x > y (or >=) holds".into(), why));
            }
            nontrivial = checked > 0;
        }
        _ => {
            loc.skip(&format!("unexpected-output-shape/{cell}"));
        }
    }
    loc.add(&format!("pairs/{cell}"), checked);
    if nontrivial {
        loc.add(&format!("nontrivial/{cell}"), 1);
    }
    cx.rep.case(fp, nontrivial);
    if nontrivial && cx.rep.want_sample() && (fp % 97 == 0) {
        cx.rep.sample(json!({"part": "A", "operation": op.name(), "lhs": a.eng.to_string(), "rhs": b.eng.to_string(), "value_pairs_checked": checked}));
    }
}

// ---------------------------------------------------------------------------------------
// Part A: per-interval operations (cast_to, contains_value, cardinality, arithmetic_negate)
// ---------------------------------------------------------------------------------------

fn cast_targets(ty: Ty) -> &'static [Ty] {
    match ty {
        Ty::I8 => &[Ty::I32, Ty::U8, Ty::F32],
        Ty::U8 => &[Ty::I8, Ty::I32, Ty::U64],
        Ty::I32 => &[Ty::I64, Ty::I8, Ty::U8, Ty::F64, Ty::F32],
        Ty::I64 => &[Ty::F64, Ty::I32, Ty::U64],
        Ty::U64 => &[Ty::F64, Ty::I64],
        Ty::F32 => &[Ty::F64, Ty::I32],
        Ty::F64 => &[Ty::F32, Ty::I64, Ty::I32],
    }
}

const STRICT_CAST: CastOptions<'static> = CastOptions { safe: false, format_options: arrow::util::display::FormatOptions::new() };

fn run_unary(cx: &Ctx, loc: &mut Local, a: &Prep) {
    let ty = a.iv.ty;
    let vals = a.values();
    // --- cast_to with default CastOptions -------------------------------------------------
    for &target in cast_targets(ty) {
        let cell = format!("cast_to/{}->{}", ty.name(), target.name());
        let fp = fp_mix(fp_mix(2000 + target.code(), a.iv.key()), 7);
        let out = guard(|| a.eng.cast_to(&target.dt(), &CastOptions::default()));
        let res = match out {
            Err(p) => {
                cx.panic("cast_to", ty.name(), &p, json!({"interval": a.eng.to_string(), "target": target.name()}));
                cx.rep.case(fp, false);
                continue;
            }
            Ok(Err(e)) => {
                loc.skip(&format!("engine-error/{cell}"));
                loc.see("engine_errors", format!("{cell}: {}", first_line(&e)));
                cx.rep.case(fp, false);
                continue;
            }
            Ok(Ok(r)) => r,
        };
        let Some(mut obs) = observe(&res) else {
            loc.skip(&format!("result-type-not-modelled/{cell}"));
            cx.rep.case(fp, false);
            continue;
        };
        if cx.selftest {
            obs.corrupt();
        }
        loc.add(&format!("op/{cell}"), 1);
        let mut checked = 0u64;
        let mut bad: Option<(V, V)> = None;
        // the arrow cast kernel itself decides what "x casts to" (strict mode: errors when not representable)
        for v in vals.iter().take(40) {
            let Ok(c) = sv(ty, Some(*v)).cast_to_with_options(&target.dt(), &STRICT_CAST) else { continue };
            let Some((_, Some(cv))) = from_sv(&c) else { continue };
            if let V::F(f) = cv {
                if !f.is_finite() {
                    continue;
                }
            }
            checked += 1;
            if !obs.has(cv) {
                bad.get_or_insert((*v, cv));
            }
        }
        if let Some((x, c)) = bad {
            cx.violation(
                &format!("unsound/cast_to/{}->{}", ty.name(), target.name()),
                json!({"operation": "cast_to", "interval": a.eng.to_string(), "target": target.name(), "x": x.show(), "cast_of_x": c.show(), "returned": res.to_string(),
                       "expected": "x is in the interval and casts successfully, so cast(x) must be in the cast interval"}),
            );
        }
        loc.add(&format!("pairs/{cell}"), checked);
        cx.rep.case(fp, checked > 0 && !obs.fully_unbounded());
    }
    // --- contains_value --------------------------------------------------------------------
    {
        let cell = format!("contains_value/{}", ty.name());
        let fp = fp_mix(a.iv.key(), 3001);
        let mut probes: Vec<V> = vals.iter().take(24).copied().collect();
        if ty.is_float() {
            for x in [a.iv.flo(), a.iv.fhi()] {
                if x.is_finite() {
                    probes.push(V::F(ty.next_down(x)));
                    probes.push(V::F(ty.next_up(x)));
                }
            }
            probes.extend([V::F(0.0), V::F(ty.fmax()), V::F(-ty.fmax())]);
        } else {
            for x in [a.iv.ilo() - 1, a.iv.ihi() + 1, ty.imin(), ty.imax(), 0] {
                if ty.imin() <= x && x <= ty.imax() {
                    probes.push(V::I(x));
                }
            }
        }
        let mut checked = 0u64;
        for v in probes {
            let expect = match v {
                V::I(x) => a.iv.has_i(x),
                V::F(x) => {
                    if a.iv.has_f(x) != a.iv.has_f_total(x) {
                        continue; // signed-zero edge: the doc does not say which order is meant
                    }
                    a.iv.has_f(x)
                }
            };
            match guard(|| a.eng.contains_value(sv(ty, Some(v)))) {
                Err(p) => cx.panic("contains_value", ty.name(), &p, json!({"interval": a.eng.to_string(), "value": v.show()})),
                Ok(Err(_)) => loc.skip(&format!("engine-error/{cell}")),
                Ok(Ok(got)) => {
                    checked += 1;
                    let got = if cx.selftest { !got } else { got };
                    if got != expect {
                        cx.violation(
                            &format!("wrong/{cell}"),
                            json!({"operation": "contains_value", "interval": a.eng.to_string(), "value": v.show(), "returned": got, "expected": expect}),
                        );
                    }
                }
            }
        }
        loc.add(&format!("op/{cell}"), 1);
        loc.add(&format!("pairs/{cell}"), checked);
        cx.rep.case(fp, checked > 0);
    }
    // --- cardinality (integers: "number of all distinct points inside it"; None when unbounded) ----
    if !ty.is_float() {
        let cell = format!("cardinality/{}", ty.name());
        let fp = fp_mix(a.iv.key(), 3002);
        match guard(|| a.eng.cardinality()) {
            Err(p) => cx.panic("cardinality", ty.name(), &p, json!({"interval": a.eng.to_string()})),
            Ok(got) => {
                let got = if cx.selftest { got.map(|n| n.wrapping_add(1)) } else { got };
                loc.add(&format!("op/{cell}"), 1);
                let eng = observe(&a.eng);
                let bounded = eng.as_ref().is_some_and(|e| e.lo.is_some() && e.hi.is_some());
                let expect = (a.iv.ihi() - a.iv.ilo() + 1) as u128;
                let ok = match (bounded, got) {
                    (false, g) => g.is_none(),
                    (true, Some(n)) => n as u128 == expect,
                    (true, None) => true, // None is documented for overflow and for "not implemented"
                };
                if !ok {
                    cx.violation(
                        &format!("wrong/{cell}"),
                        json!({"operation": "cardinality", "interval": a.eng.to_string(), "returned": got, "expected_points": expect.to_string(), "bounded": bounded}),
                    );
                }
                cx.rep.case(fp, bounded && got.is_some());
            }
        }
    }
    // --- arithmetic_negate (what NegativeExpr::evaluate_bounds uses) --------------------------
    if !ty.is_unsigned() {
        let cell = format!("arithmetic_negate/{}", ty.name());
        let fp = fp_mix(a.iv.key(), 3003);
        match guard(|| a.eng.arithmetic_negate()) {
            Err(p) => cx.panic("arithmetic_negate", ty.name(), &p, json!({"interval": a.eng.to_string()})),
            Ok(Err(_)) => {
                loc.skip(&format!("engine-error/{cell}"));
                cx.rep.case(fp, false);
            }
            Ok(Ok(res)) => {
                if let Some(mut obs) = observe(&res) {
                    if cx.selftest {
                        obs.corrupt();
                    }
                    loc.add(&format!("op/{cell}"), 1);
                    let mut checked = 0u64;
                    let mut bad = None;
                    for v in &vals {
                        let n = match *v {
                            V::I(x) => {
                                let n = -x;
                                if n > ty.imax() {
                                    continue;
                                }
                                V::I(n)
                            }
                            V::F(x) => V::F(-x),
                        };
                        checked += 1;
                        if !obs.has(n) {
                            bad.get_or_insert((*v, n));
                        }
                    }
                    if let Some((x, n)) = bad {
                        cx.violation(
                            &format!("unsound/{cell}"),
                            json!({"operation": "arithmetic_negate", "interval": a.eng.to_string(), "x": x.show(), "minus_x": n.show(), "returned": res.to_string()}),
                        );
                    }
                    loc.add(&format!("pairs/{cell}"), checked);
                    cx.rep.case(fp, checked > 0 && !obs.fully_unbounded());
                }
            }
        }
    }
}

// ---------------------------------------------------------------------------------------
// Part A: boolean intervals and NullableInterval
// ---------------------------------------------------------------------------------------

fn bool_interval(b: (bool, bool)) -> Interval {
    match b {
        (true, true) => Interval::TRUE,
        (false, false) => Interval::FALSE,
        _ => Interval::TRUE_OR_FALSE,
    }
}

const BOOL_IVS: [(bool, bool); 3] = [(true, true), (false, false), (false, true)];

fn run_boolean(cx: &Ctx, loc: &mut Local) {
    for (ai, a) in BOOL_IVS.iter().enumerate() {
        // NOT
        if let Ok(Ok(r)) = guard(|| bool_interval(*a).not()) {
            if let Some(mut obs) = observe_bool(&r) {
                if cx.selftest {
                    obs = corrupt_bool(obs);
                }
                loc.add("op/Not/Boolean", 1);
                for x in [false, true] {
                    if bool_has(*a, x) {
                        loc.add("pairs/Not/Boolean", 1);
                        if !bool_has(obs, !x) {
                            cx.violation("unsound/Not/Boolean", json!({"operation": "not", "interval": bool_interval(*a).to_string(), "x": x, "returned": r.to_string()}));
                        }
                    }
                }
                cx.rep.case(fp_mix(4000, ai as u64), true);
            }
        }
        for (bi, b) in BOOL_IVS.iter().enumerate() {
            for (op, name) in [(Operator::And, "And"), (Operator::Or, "Or")] {
                let fp = fp_mix(fp_mix(4100 + ai as u64, bi as u64), name.len() as u64);
                let (ia, ib) = (bool_interval(*a), bool_interval(*b));
                let r = match guard(|| apply_operator(&op, &ia, &ib)) {
                    Err(p) => {
                        cx.panic(name, "Boolean", &p, json!({"lhs": ia.to_string(), "rhs": ib.to_string()}));
                        continue;
                    }
                    Ok(Err(_)) => {
                        loc.skip(&format!("engine-error/{name}/Boolean"));
                        continue;
                    }
                    Ok(Ok(r)) => r,
                };
                let Some(mut obs) = observe_bool(&r) else { continue };
                if cx.selftest {
                    obs = corrupt_bool(obs);
                }
                loc.add(&format!("op/{name}/Boolean"), 1);
                for x in [false, true] {
                    for y in [false, true] {
                        if bool_has(*a, x) && bool_has(*b, y) {
                            loc.add(&format!("pairs/{name}/Boolean"), 1);
                            let t = if name == "And" { x && y } else { x || y };
                            if !bool_has(obs, t) {
                                cx.violation(
                                    &format!("unsound/{name}/Boolean"),
                                    json!({"operation": name, "lhs": ia.to_string(), "rhs": ib.to_string(), "x": x, "y": y, "native": t, "returned": r.to_string()}),
                                );
                            }
                        }
                    }
                }
                cx.rep.case(fp, obs.0 == obs.1);
            }
        }
    }
}

#[derive(Clone, Copy, Debug, PartialEq)]
enum NVar {
    Null,
    Maybe,
    NotNull,
}
const NVARS: [NVar; 3] = [NVar::Null, NVar::Maybe, NVar::NotNull];

fn nullable(var: NVar, values: &Interval) -> NullableInterval {
    match var {
        NVar::Null => NullableInterval::Null { datatype: values.data_type() },
        NVar::Maybe => NullableInterval::MaybeNull { values: values.clone() },
        NVar::NotNull => NullableInterval::NotNull { values: values.clone() },
    }
}

/// (admits NULL, value interval) of a NullableInterval per its variant documentation
fn nullable_parts(n: &NullableInterval) -> (bool, Option<&Interval>) {
    match n {
        NullableInterval::Null { .. } => (true, None),
        NullableInterval::MaybeNull { values } => (true, Some(values)),
        NullableInterval::NotNull { values } => (false, Some(values)),
    }
}

/// Kleene AND/OR exactly as tabulated in the doc comments of NullableInterval::{and, or}
fn kleene(and: bool, x: Option<bool>, y: Option<bool>) -> Option<bool> {
    if and {
        if x == Some(false) || y == Some(false) {
            Some(false)
        } else if x == Some(true) && y == Some(true) {
            Some(true)
        } else {
            None
        }
    } else if x == Some(true) || y == Some(true) {
        Some(true)
    } else if x == Some(false) && y == Some(false) {
        Some(false)
    } else {
        None
    }
}

fn nullable_bool_values(var: NVar, b: (bool, bool)) -> Vec<Option<bool>> {
    let mut v = vec![];
    if var != NVar::NotNull {
        v.push(None);
    }
    if var != NVar::Null {
        for t in [false, true] {
            if bool_has(b, t) {
                v.push(Some(t));
            }
        }
    }
    v
}

fn run_nullable_logic(cx: &Ctx, loc: &mut Local) {
    for va in NVARS {
        for a in BOOL_IVS {
            for vb in NVARS {
                for b in BOOL_IVS {
                    // the Null variant carries no values: enumerate it once
                    if (va == NVar::Null && a != BOOL_IVS[0]) || (vb == NVar::Null && b != BOOL_IVS[0]) {
                        continue;
                    }
                    for (op, name, and) in [(Operator::And, "And", true), (Operator::Or, "Or", false)] {
                        let (na, nb) = (nullable(va, &bool_interval(a)), nullable(vb, &bool_interval(b)));
                        let fp = fp_str(&format!("nl/{name}/{na}/{nb}"));
                        let r = match guard(|| na.apply_operator(&op, &nb)) {
                            Err(p) => {
                                cx.panic(name, "NullableBoolean", &p, json!({"lhs": na.to_string(), "rhs": nb.to_string()}));
                                continue;
                            }
                            Ok(Err(_)) => {
                                loc.skip(&format!("engine-error/nullable/{name}"));
                                continue;
                            }
                            Ok(Ok(r)) => r,
                        };
                        let (mut admits_null, vals) = nullable_parts(&r);
                        let mut vb_obs = vals.and_then(observe_bool);
                        if cx.selftest {
                            admits_null = !admits_null;
                            vb_obs = vb_obs.map(corrupt_bool);
                        }
                        loc.add(&format!("op/nullable/{name}/Boolean"), 1);
                        for x in nullable_bool_values(va, a) {
                            for y in nullable_bool_values(vb, b) {
                                loc.add(&format!("pairs/nullable/{name}/Boolean"), 1);
                                let t = kleene(and, x, y);
                                let ok = match t {
                                    None => admits_null,
                                    Some(t) => vb_obs.is_some_and(|o| bool_has(o, t)),
                                };
                                if !ok {
                                    cx.violation(
                                        &format!("unsound/nullable/{name}"),
                                        json!({"operation": name, "lhs": na.to_string(), "rhs": nb.to_string(), "x": x, "y": y, "three_valued_result": t, "returned": r.to_string()}),
                                    );
                                }
                            }
                        }
                        cx.rep.case(fp, true);
                    }
                }
            }
        }
    }
}

const NULLABLE_OPS: [(Operator, &str); 12] = [
    (Operator::Plus, "Plus"),
    (Operator::Minus, "Minus"),
    (Operator::Multiply, "Multiply"),
    (Operator::Divide, "Divide"),
    (Operator::Lt, "Lt"),
    (Operator::LtEq, "LtEq"),
    (Operator::Gt, "Gt"),
    (Operator::GtEq, "GtEq"),
    (Operator::Eq, "Eq"),
    (Operator::NotEq, "NotEq"),
    (Operator::IsDistinctFrom, "IsDistinctFrom"),
    (Operator::IsNotDistinctFrom, "IsNotDistinctFrom"),
];

fn op2_of(name: &str) -> Option<Op2> {
    ALL_OP2.iter().copied().find(|o| o.name() == name)
}

/// NullableInterval::apply_operator on integer operands; x, y range over the values admitted by
/// the variant (NULL and/or the interval's values). SQL: arithmetic/comparison with a NULL operand
/// is NULL; IS [NOT] DISTINCT FROM is never NULL.
fn run_nullable_numeric(cx: &Ctx, loc: &mut Local, a: &Prep, b: &Prep) {
    let ty = a.iv.ty;
    let pick = |p: &Prep| -> Vec<i128> {
        let n = p.xi.len();
        let step = n.div_ceil(10).max(1);
        let mut v: Vec<i128> = p.xi.iter().step_by(step).copied().collect();
        if let Some(l) = p.xi.last() {
            v.push(*l);
        }
        v
    };
    let (xs, ys) = (pick(a), pick(b));
    for va in NVARS {
        for vb in NVARS {
            let (na, nb) = (nullable(va, &a.eng), nullable(vb, &b.eng));
            let vx: Vec<Option<i128>> = (if va != NVar::NotNull { vec![None] } else { vec![] }).into_iter().chain(if va != NVar::Null { xs.iter().map(|x| Some(*x)).collect() } else { vec![] }).collect();
            let vy: Vec<Option<i128>> = (if vb != NVar::NotNull { vec![None] } else { vec![] }).into_iter().chain(if vb != NVar::Null { ys.iter().map(|x| Some(*x)).collect() } else { vec![] }).collect();
            for (op, name) in NULLABLE_OPS {
                let cell = format!("nullable/{name}/{}", ty.name());
                let fp = fp_mix(fp_mix(fp_str(&format!("{name}{va:?}{vb:?}")), a.iv.key()), b.iv.key());
                let r = match guard(|| na.apply_operator(&op, &nb)) {
                    Err(p) => {
                        cx.panic(&format!("nullable/{name}"), ty.name(), &p, json!({"lhs": na.to_string(), "rhs": nb.to_string()}));
                        cx.rep.case(fp, false);
                        continue;
                    }
                    Ok(Err(e)) => {
                        loc.skip(&format!("engine-error/{cell}"));
                        loc.see("engine_errors", format!("{cell}: {}", first_line(&e)));
                        cx.rep.case(fp, false);
                        continue;
                    }
                    Ok(Ok(r)) => r,
                };
                let (mut admits_null, vals) = nullable_parts(&r);
                let op2 = op2_of(name);
                let arith = op2.is_some_and(|o| o.is_arith());
                let mut num = if arith { vals.and_then(observe) } else { None };
                let mut boo = if arith { None } else { vals.and_then(observe_bool) };
                if cx.selftest {
                    admits_null = !admits_null;
                    if let Some(n) = num.as_mut() {
                        n.corrupt()
                    }
                    boo = boo.map(corrupt_bool);
                }
                loc.add(&format!("op/{cell}"), 1);
                let mut checked = 0u64;
                let mut bad: Option<(Option<i128>, Option<i128>, String)> = None;
                for x in &vx {
                    for y in &vy {
                        // expected SQL result: Err(()) = not representable (skip), Ok(None) = NULL
                        let exp: Result<Option<V>, ()> = match (name, x, y) {
                            ("IsDistinctFrom", x, y) => Ok(Some(V::I((x != y) as i128))),
                            ("IsNotDistinctFrom", x, y) => Ok(Some(V::I((x == y) as i128))),
                            (_, None, _) | (_, _, None) => Ok(None),
                            (_, Some(x), Some(y)) => {
                                let o = op2.expect("op2");
                                if arith {
                                    let rty = num.as_ref().map(|n| n.ty).unwrap_or(ty);
                                    arith_i(o, rty, *x, *y).map(|r| Some(V::I(r))).ok_or(())
                                } else {
                                    Ok(Some(V::I(cmp_i(o, *x, *y) as i128)))
                                }
                            }
                        };
                        let Ok(exp) = exp else { continue };
                        checked += 1;
                        let ok = match exp {
                            None => admits_null,
                            Some(v) if arith => num.as_ref().is_some_and(|n| n.has(v)),
                            Some(v) => boo.is_some_and(|b| bool_has(b, v.int() == 1)),
                        };
                        if !ok {
                            bad.get_or_insert((*x, *y, exp.map(|v| if arith { v.show() } else { (v.int() == 1).to_string() }).unwrap_or_else(|| "NULL".into())));
                        }
                    }
                }
                if let Some((x, y, exp)) = bad {
                    let s = |v: Option<i128>| v.map(|v| v.to_string()).unwrap_or_else(|| "NULL".into());
                    cx.violation(
                        &format!("unsound/nullable/{name}"),
                        json!({"operation": name, "type": ty.name(), "lhs": na.to_string(), "rhs": nb.to_string(), "x": s(x), "y": s(y), "sql_result": exp, "returned": r.to_string(),
                               "expected": "the SQL result of x (op) y must be admitted by the returned NullableInterval"}),
                    );
                }
                loc.add(&format!("pairs/{cell}"), checked);
                cx.rep.case(fp, checked > 0);
            }
        }
    }
}

// ---------------------------------------------------------------------------------------
// Part A driver
// ---------------------------------------------------------------------------------------

enum ItemA {
    /// one row of a type grid: interval index `i` against every `j` (stride-thinned) and every op
    Row { ty: Ty, i: usize },
    Boolean,
    NullableRow { ty: Ty, i: usize },
    Random { chunk: u64, n: u64 },
}

struct Grids {
    by_ty: BTreeMap<Ty, Vec<Prep>>,
}

fn build_grids(cx: &Ctx, tys: &[Ty]) -> Grids {
    let mut by_ty = BTreeMap::new();
    for &ty in tys {
        let all_limit: i128 = if ty.is_8bit() && !cx.in_miri && cx.stage == 0 { 256 } else { 64 };
        let mut v = vec![];
        for (k, iv) in grid_intervals(ty).into_iter().enumerate() {
            let mut rng = cx.rng(&[1, ty.code(), k as u64]);
            let nrand = if cx.stage == 0 { 8 } else { 3 };
            if let Some(p) = Prep::new(iv, k as u64, all_limit, nrand, &mut rng) {
                v.push(p);
            }
        }
        by_ty.insert(ty, v);
    }
    Grids { by_ty }
}

fn random_endpoint(ty: Ty, rng: &mut Rng) -> V {
    let g = endpoint_grid(ty);
    let base = *rng.pick(&g);
    if ty.is_float() {
        match rng.below(5) {
            0 => base,
            // harness-side endpoints stay finite (an infinite endpoint is spelled `None`)
            1 => V::F(ty.next_up(base.flt()).min(ty.fmax())),
            2 => V::F(ty.next_down(base.flt()).max(-ty.fmax())),
            3 => V::F(rand_float_between(ty, -ty.fmax(), ty.fmax(), rng)),
            _ => V::F(ty.fr((rng.f64() - 0.5) * 2f64.powi(rng.range(-8, 24) as i32))),
        }
    } else {
        let (mn, mx) = (ty.imin(), ty.imax());
        let v = match rng.below(5) {
            0 => base.int(),
            1 => base.int() + rng.range(-3, 3) as i128,
            2 => rand_i128_between(mn, mx, rng),
            3 => rng.range(-200, 200) as i128,
            _ => {
                let w = 1i128 << rng.below(62);
                rand_i128_between(-w, w, rng)
            }
        };
        V::I(v.clamp(mn, mx))
    }
}

fn random_interval(ty: Ty, rng: &mut Rng) -> Iv {
    let (a, b) = (random_endpoint(ty, rng), random_endpoint(ty, rng));
    let (lo, hi) = match (a, b) {
        (V::F(x), V::F(y)) => {
            if x.total_cmp(&y).is_le() { (a, b) } else { (b, a) }
        }
        _ => {
            if a.int() <= b.int() { (a, b) } else { (b, a) }
        }
    };
    Iv { ty, lo: (!rng.chance(1, 10)).then_some(lo), hi: (!rng.chance(1, 10)).then_some(hi) }
}

fn part_a(cx: &Ctx, args: &Args) {
    let tys: Vec<Ty> = ALL_TYS.to_vec();
    let grids = build_grids(cx, &tys);
    // native tiers: full cross product (grid_stride 1). Reduced stages thin rows (I) and columns (J)
    // systematically; the Miri interpreter is ~10^4 times slower than native code.
    let (row_step_8bit, row_step_wide, stride_8bit, stride_wide, nullable_stride, random_triples): (usize, usize, usize, usize, usize, u64) = match cx.stage {
        0 => (1, 1, 1, args.bound("grid_stride", 1, 1).max(1) as usize, args.bound("nullable_stride", 6, 2).max(1) as usize, args.bound("triples", 300_000, 100_000_000)),
        1 => (6, 12, 12, 59, 400, args.bound("triples", 300_000, 100_000_000) / 1000),
        _ => (1, 1, 3, 5, 60, args.bound("triples", 300_000, 100_000_000) / 10),
    };
    let mut items: Vec<ItemA> = vec![];
    for ty in [Ty::I8, Ty::U8] {
        for i in (0..grids.by_ty[&ty].len()).step_by(row_step_8bit) {
            items.push(ItemA::Row { ty, i });
        }
    }
    items.push(ItemA::Boolean);
    for ty in [Ty::I32, Ty::I64, Ty::U64, Ty::F32, Ty::F64] {
        for i in (0..grids.by_ty[&ty].len()).step_by(row_step_wide) {
            items.push(ItemA::Row { ty, i });
        }
    }
    for ty in [Ty::I8, Ty::I32] {
        for i in (0..grids.by_ty[&ty].len()).step_by(row_step_wide) {
            items.push(ItemA::NullableRow { ty, i });
        }
    }
    let chunk = 500u64;
    for c in 0..random_triples.div_ceil(chunk) {
        items.push(ItemA::Random { chunk: c, n: chunk.min(random_triples - c * chunk) });
    }
    let all_8bit_exhaustive = AtomicU64::new(1);

    vcommon::par::run(args.workers, items.into_iter(), |item| {
        let mut loc = Local::default();
        let r = guard(|| match item {
            ItemA::Row { ty, i } => {
                let g = &grids.by_ty[&ty];
                let a = &g[i];
                if ty.is_8bit() && !a.exhaustive {
                    all_8bit_exhaustive.store(0, Ordering::Relaxed);
                }
                let stride = if ty.is_8bit() { stride_8bit } else { stride_wide };
                for (j, b) in g.iter().enumerate() {
                    if (i * 7 + j) % stride != 0 {
                        continue;
                    }
                    for (k, op) in ALL_OP2.iter().enumerate() {
                        run_binary(cx, &mut loc, *op, (i + j + k) % 2 == 1, a, b);
                    }
                }
                run_unary(cx, &mut loc, a);
            }
            ItemA::Boolean => {
                run_boolean(cx, &mut loc);
                run_nullable_logic(cx, &mut loc);
            }
            ItemA::NullableRow { ty, i } => {
                let g = &grids.by_ty[&ty];
                for (j, b) in g.iter().enumerate() {
                    if (i * 5 + j) % nullable_stride == 0 {
                        run_nullable_numeric(cx, &mut loc, &g[i], b);
                    }
                }
            }
            ItemA::Random { chunk, n } => {
                if !cx.rep.within_budget(if cx.rep.args.tier == vcommon::Tier::Quick { 35.0 } else { 600.0 }) {
                    loc.add("random_tail_cut_by_budget", n);
                    return;
                }
                for k in 0..n {
                    let mut rng = cx.rng(&[3, chunk, k]);
                    let ty = *rng.pick(&ALL_TYS);
                    let (ia, ib) = (random_interval(ty, &mut rng), random_interval(ty, &mut rng));
                    let (Some(a), Some(b)) = (Prep::new(ia, rng.below(3), 64, 10, &mut rng), Prep::new(ib, rng.below(3), 64, 10, &mut rng)) else {
                        loc.skip("try_new-rejected-random-interval");
                        continue;
                    };
                    let op = *rng.pick(&ALL_OP2);
                    run_binary(cx, &mut loc, op, rng.bool(), &a, &b);
                    loc.add("random_tail_triples", 1);
                    if k % 16 == 0 {
                        run_unary(cx, &mut loc, &a);
                    }
                }
            }
        });
        if let Err(p) = r {
            cx.rep.inconclusive(&format!("harness panic in part A: {p}"));
        }
        loc.flush(cx.rep);
    });
    cx.rep.extra("exhaustive_8bit_grid", json!(all_8bit_exhaustive.load(Ordering::Relaxed) == 1 && cx.stage == 0));
    cx.rep.extra(
        "grid_sizes",
        json!(grids.by_ty.iter().map(|(t, g)| (t.name().to_string(), json!({"intervals": g.len(), "endpoints": endpoint_grid(*t).iter().map(|v| v.show()).collect::<Vec<_>>()}))).collect::<BTreeMap<_, _>>()),
    );
    cx.rep.extra("grid_stride_wide_types", json!(stride_wide));
}

// ---------------------------------------------------------------------------------------
// Part B: ExprIntervalGraph over typed expression trees
// ---------------------------------------------------------------------------------------

#[derive(Clone, Copy, Debug, PartialEq, Eq)]
enum BT {
    I32,
    I64,
    F64,
    Bool,
}

impl BT {
    fn dt(self) -> DataType {
        match self {
            BT::I32 => DataType::Int32,
            BT::I64 => DataType::Int64,
            BT::F64 => DataType::Float64,
            BT::Bool => DataType::Boolean,
        }
    }
    fn ty(self) -> Ty {
        match self {
            BT::I32 => Ty::I32,
            BT::I64 => Ty::I64,
            _ => Ty::F64,
        }
    }
    fn is_int(self) -> bool {
        matches!(self, BT::I32 | BT::I64)
    }
}

const COLS: [(&str, BT); 6] = [("i0", BT::I32), ("i1", BT::I32), ("l0", BT::I64), ("l1", BT::I64), ("f0", BT::F64), ("f1", BT::F64)];

fn cols_of(t: BT) -> [usize; 2] {
    match t {
        BT::I32 => [0, 1],
        BT::I64 => [2, 3],
        _ => [4, 5],
    }
}

#[derive(Clone, Copy, Debug, PartialEq)]
enum NV {
    I(i64),
    F(f64),
    B(bool),
}

impl NV {
    fn to_v(self) -> V {
        match self {
            NV::I(x) => V::I(x as i128),
            NV::F(x) => V::F(x),
            NV::B(b) => V::I(b as i128),
        }
    }
    fn show(self) -> String {
        match self {
            NV::I(x) => x.to_string(),
            NV::F(x) => format!("{x:?}"),
            NV::B(b) => b.to_string(),
        }
    }
}

#[derive(Clone, Copy, Debug, PartialEq, Eq)]
enum BOp {
    Plus,
    Minus,
    Multiply,
    Divide,
    Lt,
    LtEq,
    Gt,
    GtEq,
    Eq,
    And,
}

const ARITH_BOPS: [BOp; 4] = [BOp::Plus, BOp::Minus, BOp::Multiply, BOp::Divide];
const CMP_BOPS: [BOp; 5] = [BOp::Lt, BOp::LtEq, BOp::Gt, BOp::GtEq, BOp::Eq];

impl BOp {
    fn operator(self) -> Operator {
        match self {
            BOp::Plus => Operator::Plus,
            BOp::Minus => Operator::Minus,
            BOp::Multiply => Operator::Multiply,
            BOp::Divide => Operator::Divide,
            BOp::Lt => Operator::Lt,
            BOp::LtEq => Operator::LtEq,
            BOp::Gt => Operator::Gt,
            BOp::GtEq => Operator::GtEq,
            BOp::Eq => Operator::Eq,
            BOp::And => Operator::And,
        }
    }
    fn sym(self) -> &'static str {
        match self {
            BOp::Plus => "+",
            BOp::Minus => "-",
            BOp::Multiply => "*",
            BOp::Divide => "/",
            BOp::Lt => "<",
            BOp::LtEq => "<=",
            BOp::Gt => ">",
            BOp::GtEq => ">=",
            BOp::Eq => "=",
            BOp::And => "AND",
        }
    }
}

#[derive(Clone, Debug)]
enum K {
    Col(usize),
    Lit(NV),
    Bin(Box<E>, BOp, Box<E>),
    Neg(Box<E>),
    Cast(Box<E>),
}

#[derive(Clone, Debug)]
struct E {
    k: K,
    t: BT,
}

impl E {
    fn col(i: usize) -> E {
        E { k: K::Col(i), t: COLS[i].1 }
    }
    fn lit(v: NV, t: BT) -> E {
        E { k: K::Lit(v), t }
    }
    fn bin(a: E, op: BOp, b: E) -> E {
        let t = if matches!(op, BOp::Plus | BOp::Minus | BOp::Multiply | BOp::Divide) { a.t } else { BT::Bool };
        E { k: K::Bin(Box::new(a), op, Box::new(b)), t }
    }
    fn show(&self) -> String {
        match &self.k {
            K::Col(i) => COLS[*i].0.to_string(),
            K::Lit(v) => match self.t {
                BT::I64 => format!("{}L", v.show()),
                _ => v.show(),
            },
            K::Bin(a, op, b) => format!("({} {} {})", a.show(), op.sym(), b.show()),
            K::Neg(a) => format!("(-{})", a.show()),
            K::Cast(a) => format!("CAST({} AS {:?})", a.show(), self.t),
        }
    }
    fn columns(&self, out: &mut BTreeSet<usize>) {
        match &self.k {
            K::Col(i) => {
                out.insert(*i);
            }
            K::Lit(_) => {}
            K::Bin(a, _, b) => {
                a.columns(out);
                b.columns(out);
            }
            K::Neg(a) | K::Cast(a) => a.columns(out),
        }
    }
    /// features used to key a violation signature by the kind of construct involved
    fn features(&self, int_div: &mut bool, int_mul: &mut bool, f2i: &mut bool, farith: &mut bool) {
        match &self.k {
            K::Bin(a, op, b) => {
                if *op == BOp::Divide && self.t.is_int() {
                    *int_div = true;
                }
                // Multiply propagates through its inverse, an integer interval division
                if *op == BOp::Multiply && self.t.is_int() {
                    *int_mul = true;
                }
                // inverse propagation through rounded float arithmetic (1-ulp effects)
                if matches!(op, BOp::Plus | BOp::Minus | BOp::Multiply | BOp::Divide) && self.t == BT::F64 {
                    *farith = true;
                }
                a.features(int_div, int_mul, f2i, farith);
                b.features(int_div, int_mul, f2i, farith);
            }
            K::Neg(a) => a.features(int_div, int_mul, f2i, farith),
            K::Cast(a) => {
                if a.t == BT::F64 && self.t.is_int() {
                    *f2i = true;
                }
                a.features(int_div, int_mul, f2i, farith);
            }
            _ => {}
        }
    }
    fn physical(&self) -> Arc<dyn PhysicalExpr> {
        match &self.k {
            K::Col(i) => Arc::new(Column::new(COLS[*i].0, *i)),
            K::Lit(v) => Arc::new(Literal::new(match (*v, self.t) {
                (NV::I(x), BT::I32) => ScalarValue::Int32(Some(x as i32)),
                (NV::I(x), _) => ScalarValue::Int64(Some(x)),
                (NV::F(x), _) => ScalarValue::Float64(Some(x)),
                (NV::B(b), _) => ScalarValue::Boolean(Some(b)),
            })),
            K::Bin(a, op, b) => Arc::new(BinaryExpr::new(a.physical(), op.operator(), b.physical())),
            K::Neg(a) => Arc::new(NegativeExpr::new(a.physical())),
            K::Cast(a) => Arc::new(CastExpr::new(a.physical(), self.t.dt(), None)),
        }
    }
    /// native reference evaluation; None = some operator application is not representable
    /// (integer overflow, division by zero, non-finite float) or is a signed-zero comparison
    fn eval(&self, row: &[NV; 6]) -> Option<NV> {
        let fit = |x: i64, t: BT| -> Option<NV> { (t != BT::I32 || (i32::MIN as i64 <= x && x <= i32::MAX as i64)).then_some(NV::I(x)) };
        match &self.k {
            K::Col(i) => Some(row[*i]),
            K::Lit(v) => Some(*v),
            K::Neg(a) => match a.eval(row)? {
                NV::I(x) => fit(x.checked_neg()?, self.t),
                NV::F(x) => Some(NV::F(-x)),
                NV::B(_) => None,
            },
            K::Cast(a) => match (a.eval(row)?, self.t) {
                (NV::I(x), BT::F64) => Some(NV::F(x as f64)),
                (NV::I(x), t) => fit(x, t),
                (NV::F(x), BT::F64) => Some(NV::F(x)),
                (NV::F(x), t) => {
                    let tr = x.trunc();
                    if tr.abs() < 9.0e18 { fit(tr as i64, t) } else { None }
                }
                _ => None,
            },
            K::Bin(a, op, b) => {
                let (x, y) = (a.eval(row)?, b.eval(row)?);
                match (x, y) {
                    (NV::B(x), NV::B(y)) if *op == BOp::And => Some(NV::B(x && y)),
                    (NV::I(x), NV::I(y)) => match op {
                        BOp::Plus => fit(x.checked_add(y)?, self.t),
                        BOp::Minus => fit(x.checked_sub(y)?, self.t),
                        BOp::Multiply => fit(x.checked_mul(y)?, self.t),
                        BOp::Divide => {
                            if y == 0 {
                                None
                            } else {
                                fit(x.checked_div(y)?, self.t)
                            }
                        }
                        BOp::Lt => Some(NV::B(x < y)),
                        BOp::LtEq => Some(NV::B(x <= y)),
                        BOp::Gt => Some(NV::B(x > y)),
                        BOp::GtEq => Some(NV::B(x >= y)),
                        BOp::Eq => Some(NV::B(x == y)),
                        BOp::And => None,
                    },
                    (NV::F(x), NV::F(y)) => {
                        let fin = |r: f64| r.is_finite().then_some(NV::F(r));
                        if x == 0.0 && y == 0.0 && x.to_bits() != y.to_bits() && !matches!(op, BOp::Plus | BOp::Minus | BOp::Multiply | BOp::Divide) {
                            return None;
                        }
                        match op {
                            BOp::Plus => fin(x + y),
                            BOp::Minus => fin(x - y),
                            BOp::Multiply => fin(x * y),
                            BOp::Divide => fin(x / y),
                            BOp::Lt => Some(NV::B(x < y)),
                            BOp::LtEq => Some(NV::B(x <= y)),
                            BOp::Gt => Some(NV::B(x > y)),
                            BOp::GtEq => Some(NV::B(x >= y)),
                            BOp::Eq => Some(NV::B(x == y)),
                            BOp::And => None,
                        }
                    }
                    _ => None,
                }
            }
        }
    }
}

/// one graph case: expression + the range of every column it uses
#[derive(Clone, Debug)]
struct GraphCase {
    e: E,
    ranges: BTreeMap<usize, (Option<NV>, Option<NV>)>,
}

fn gen_lit(t: BT, rng: &mut Rng) -> E {
    match t {
        BT::F64 => E::lit(NV::F(rng.range(-20, 20) as f64 * 0.5), t),
        _ => {
            let mut v = rng.range(-10, 10);
            if v == 0 && rng.chance(3, 4) {
                v = 3;
            }
            E::lit(NV::I(v), t)
        }
    }
}

fn gen_arith(t: BT, depth: u32, rng: &mut Rng) -> E {
    let leaf = |rng: &mut Rng| if rng.chance(7, 10) { E::col(*rng.pick(&cols_of(t))) } else { gen_lit(t, rng) };
    if depth == 0 {
        return leaf(rng);
    }
    match rng.below(100) {
        0..20 => leaf(rng),
        20..80 => {
            let op = *rng.pick(&ARITH_BOPS);
            E::bin(gen_arith(t, depth - 1, rng), op, gen_arith(t, depth - 1, rng))
        }
        80..88 => E { k: K::Neg(Box::new(gen_arith(t, depth - 1, rng))), t },
        _ => {
            let src = match t {
                BT::I32 => BT::I64,
                BT::I64 => {
                    if rng.chance(1, 4) {
                        BT::F64
                    } else {
                        BT::I32
                    }
                }
                _ => {
                    if rng.bool() {
                        BT::I32
                    } else {
                        BT::I64
                    }
                }
            };
            E { k: K::Cast(Box::new(gen_arith(src, depth - 1, rng))), t }
        }
    }
}

fn gen_cmp(depth: u32, rng: &mut Rng) -> E {
    let t = *rng.pick(&[BT::I32, BT::I64, BT::F64]);
    E::bin(gen_arith(t, depth, rng), *rng.pick(&CMP_BOPS), gen_arith(t, depth, rng))
}

fn gen_range(t: BT, rng: &mut Rng) -> (Option<NV>, Option<NV>) {
    let m = *rng.pick(&[5i64, 20, 100, 1000]);
    let w = *rng.pick(&[0i64, 1, 3, 10, 50, 2 * m]);
    let lo = match rng.below(4) {
        0 => rng.range(1, m),
        1 => rng.range(-m, -1),
        _ => rng.range(-m, m),
    };
    let hi = (lo + rng.range(0, w)).min(m.max(lo));
    let (mut l, mut h) = match t {
        BT::F64 => {
            if rng.chance(1, 4) {
                let a = (rng.f64() - 0.5) * 2.0 * m as f64;
                let b = a + rng.f64() * w as f64;
                (Some(NV::F(a)), Some(NV::F(b)))
            } else {
                (Some(NV::F(lo as f64 * 0.25)), Some(NV::F(hi as f64 * 0.25)))
            }
        }
        _ => (Some(NV::I(lo)), Some(NV::I(hi))),
    };
    if rng.chance(1, 12) {
        l = None;
    } else if rng.chance(1, 12) {
        h = None;
    }
    (l, h)
}

fn gen_case(rng: &mut Rng) -> GraphCase {
    for _ in 0..20 {
        let e = match rng.below(10) {
            0..5 => gen_cmp(2, rng),
            5..8 => {
                let mut e = E::bin(gen_cmp(1, rng), BOp::And, gen_cmp(1, rng));
                if rng.chance(1, 3) {
                    e = E::bin(e, BOp::And, gen_cmp(1, rng));
                }
                e
            }
            _ => gen_arith(*rng.pick(&[BT::I32, BT::I64, BT::F64]), 3, rng),
        };
        let mut cols = BTreeSet::new();
        e.columns(&mut cols);
        if cols.is_empty() {
            continue;
        }
        let ranges = cols.iter().map(|c| (*c, gen_range(COLS[*c].1, rng))).collect();
        return GraphCase { e, ranges };
    }
    GraphCase { e: E::bin(E::col(0), BOp::Gt, E::col(1)), ranges: [(0, (Some(NV::I(0)), Some(NV::I(9)))), (1, (Some(NV::I(3)), Some(NV::I(12))))].into_iter().collect() }
}

/// seed-independent templates: every arithmetic op × comparison × type over three sign configurations
fn systematic_cases() -> Vec<GraphCase> {
    let mut out = vec![];
    let mk = |t: BT, v: i64| if t == BT::F64 { NV::F(v as f64 * 0.5) } else { NV::I(v) };
    for t in [BT::I32, BT::I64, BT::F64] {
        let [c0, c1] = cols_of(t);
        let cfgs: [((i64, i64), (i64, i64), i64); 4] = [((1, 20), (1, 5), 6), ((-10, 10), (-3, 3), 2), ((-20, -1), (2, 4), -4), ((7, 8), (2, 2), 3)];
        for (r0, r1, k) in cfgs {
            let ranges: BTreeMap<usize, (Option<NV>, Option<NV>)> = [(c0, (Some(mk(t, r0.0)), Some(mk(t, r0.1)))), (c1, (Some(mk(t, r1.0)), Some(mk(t, r1.1))))].into_iter().collect();
            for cop in CMP_BOPS {
                out.push(GraphCase { e: E::bin(E::col(c0), cop, E::col(c1)), ranges: ranges.clone() });
                for aop in ARITH_BOPS {
                    out.push(GraphCase { e: E::bin(E::bin(E::col(c0), aop, E::col(c1)), cop, E::lit(mk(t, k), t)), ranges: ranges.clone() });
                    out.push(GraphCase { e: E::bin(E::bin(E::col(c0), aop, E::lit(mk(t, 3), t)), cop, E::col(c1)), ranges: ranges.clone() });
                    out.push(GraphCase {
                        e: E::bin(E::bin(E::bin(E::col(c0), aop, E::col(c1)), cop, E::lit(mk(t, k), t)), BOp::And, E::bin(E::col(c0), BOp::GtEq, E::lit(mk(t, 0), t))),
                        ranges: ranges.clone(),
                    });
                }
            }
            for aop in ARITH_BOPS {
                out.push(GraphCase { e: E::bin(E::col(c0), aop, E::col(c1)), ranges: ranges.clone() });
            }
        }
    }
    out
}

fn candidates(t: BT, r: (Option<NV>, Option<NV>), cap: usize, rng: &mut Rng) -> Vec<NV> {
    match t {
        BT::F64 => {
            let f = |v: Option<NV>| match v {
                Some(NV::F(x)) => Some(x),
                _ => None,
            };
            let (lo, hi) = match (f(r.0), f(r.1)) {
                (Some(l), Some(h)) => (l, h),
                (Some(l), None) => (l, l + 2000.0),
                (None, Some(h)) => (h - 2000.0, h),
                _ => (-1000.0, 1000.0),
            };
            let mut c = vec![lo, hi, lo.next_up(), hi.next_down(), (lo + hi) / 2.0, lo.ceil(), hi.floor(), 0.0, lo + (hi - lo) * 0.25, lo + (hi - lo) * 0.75];
            for _ in 0..cap {
                c.push(if rng.bool() { lo + (hi - lo) * rng.f64() } else { (lo + (hi - lo) * rng.f64()).round() });
            }
            let mut seen = BTreeSet::new();
            c.into_iter().filter(|x| lo <= *x && *x <= hi && seen.insert(x.to_bits())).take(cap.max(2)).map(NV::F).collect()
        }
        _ => {
            let f = |v: Option<NV>| match v {
                Some(NV::I(x)) => Some(x),
                _ => None,
            };
            let (lo, hi) = match (f(r.0), f(r.1)) {
                (Some(l), Some(h)) => (l, h),
                (Some(l), None) => (l, l + 2000),
                (None, Some(h)) => (h - 2000, h),
                _ => (-1000, 1000),
            };
            if (hi - lo) < cap as i64 {
                return (lo..=hi).map(NV::I).collect();
            }
            let mut s: BTreeSet<i64> = [lo, hi, lo + 1, hi - 1, (lo + hi) / 2].into_iter().collect();
            for z in [0, 1, -1] {
                if lo <= z && z <= hi {
                    s.insert(z);
                }
            }
            while s.len() < cap {
                s.insert(rng.range(lo, hi));
            }
            s.into_iter().take(cap.max(2)).map(NV::I).collect()
        }
    }
}

fn range_interval(t: BT, r: (Option<NV>, Option<NV>)) -> datafusion_common::Result<Interval> {
    let ty = t.ty();
    Interval::try_new(sv(ty, r.0.map(|v| v.to_v())), sv(ty, r.1.map(|v| v.to_v())))
}

fn array_value(a: &ArrayRef, i: usize) -> Option<NV> {
    if a.is_null(i) {
        return None;
    }
    if let Some(x) = a.as_any().downcast_ref::<Int32Array>() {
        Some(NV::I(x.value(i) as i64))
    } else if let Some(x) = a.as_any().downcast_ref::<Int64Array>() {
        Some(NV::I(x.value(i)))
    } else if let Some(x) = a.as_any().downcast_ref::<Float64Array>() {
        Some(NV::F(x.value(i)))
    } else {
        a.as_any().downcast_ref::<BooleanArray>().map(|x| NV::B(x.value(i)))
    }
}

fn same_nv(a: NV, b: NV) -> bool {
    match (a, b) {
        (NV::F(x), NV::F(y)) => x == y,
        _ => a == b,
    }
}

fn run_graph(cx: &Ctx, loc: &mut Local, case: &GraphCase, rng: &mut Rng, sat_rows: &AtomicU64, shrunk: &AtomicU64) {
    let text = case.e.show();
    let ranges_text: Vec<String> = case.ranges.iter().map(|(c, r)| format!("{} in [{}, {}]", COLS[*c].0, r.0.map(|v| v.show()).unwrap_or("-inf".into()), r.1.map(|v| v.show()).unwrap_or("+inf".into()))).collect();
    let fp = fp_str(&format!("{text} | {ranges_text:?}"));
    let (mut int_div, mut int_mul, mut f2i, mut farith) = (false, false, false, false);
    case.e.features(&mut int_div, &mut int_mul, &mut f2i, &mut farith);
    let feature = if int_div { "int-divide" } else if int_mul { "int-multiply" } else if f2i { "cast-float-to-int" } else if farith { "float-arith" } else { "other" };
    let witness = |extra: Json| json!({"part": "B", "expr": text, "ranges": ranges_text, "detail": extra});

    let schema = Schema::new(COLS.iter().map(|(n, t)| Field::new(*n, t.dt(), true)).collect::<Vec<_>>());
    let phys = case.e.physical();
    let cols: Vec<usize> = case.ranges.keys().copied().collect();
    // ---- build the graph and evaluate bounds --------------------------------------------
    let built = guard(|| -> datafusion_common::Result<(ExprIntervalGraph, Vec<(usize, Interval)>, Interval)> {
        let mut graph = ExprIntervalGraph::try_new(Arc::clone(&phys), &schema)?;
        let col_exprs: Vec<Arc<dyn PhysicalExpr>> = cols.iter().map(|c| Arc::new(Column::new(COLS[*c].0, *c)) as Arc<dyn PhysicalExpr>).collect();
        let idx = graph.gather_node_indices(&col_exprs);
        let mut leaf = vec![];
        for ((_, node), c) in idx.iter().zip(&cols) {
            if *node == usize::MAX {
                return datafusion_common::internal_err!("column node not found");
            }
            leaf.push((*node, range_interval(COLS[*c].1, case.ranges[c])?));
        }
        graph.assign_intervals(&leaf);
        let bounds = graph.evaluate_bounds()?.clone();
        Ok((graph, leaf, bounds))
    });
    if !rounding_mode_ok() {
        loc.add("fp_rounding_mode_left_altered", 1);
    }
    let (mut graph, leaf, bounds) = match built {
        Err(p) => {
            cx.panic("evaluate_bounds", feature, &p, witness(json!(null)));
            cx.rep.case(fp, false);
            return;
        }
        Ok(Err(e)) => {
            loc.skip("graph-build-or-bounds-error");
            loc.see("engine_errors", format!("graph: {}", first_line(&e)));
            cx.rep.case(fp, false);
            return;
        }
        Ok(Ok(x)) => x,
    };
    loc.add("graphs", 1);
    // ---- assignments ----------------------------------------------------------------------
    let cap = match cols.len() {
        1 => 512,
        2 => 64,
        3 => 16,
        4 => 8,
        5 => 5,
        _ => 4,
    };
    let cands: Vec<Vec<NV>> = cols.iter().map(|c| candidates(COLS[*c].1, case.ranges[c], cap, rng)).collect();
    let total: usize = cands.iter().map(|c| c.len()).product();
    let mut rows: Vec<[NV; 6]> = vec![];
    let base: [NV; 6] = [NV::I(1), NV::I(1), NV::I(1), NV::I(1), NV::F(1.0), NV::F(1.0)];
    for n in 0..total.min(4096) {
        let mut row = base;
        let mut k = n;
        for (ci, c) in cols.iter().enumerate() {
            row[*c] = cands[ci][k % cands[ci].len()];
            k /= cands[ci].len();
        }
        if case.e.eval(&row).is_some() {
            rows.push(row);
        }
    }
    if rows.is_empty() {
        loc.skip("no-representable-assignment");
        cx.rep.case(fp, false);
        return;
    }
    // ---- observed values: the real PhysicalExpr on a batch of all assignments -------------
    let arrays: Vec<ArrayRef> = (0..6)
        .map(|c| match COLS[c].1 {
            BT::I32 => Arc::new(Int32Array::from(rows.iter().map(|r| if let NV::I(x) = r[c] { x as i32 } else { 0 }).collect::<Vec<_>>())) as ArrayRef,
            BT::I64 => Arc::new(Int64Array::from(rows.iter().map(|r| if let NV::I(x) = r[c] { x } else { 0 }).collect::<Vec<_>>())) as ArrayRef,
            _ => Arc::new(Float64Array::from(rows.iter().map(|r| if let NV::F(x) = r[c] { x } else { 0.0 }).collect::<Vec<_>>())) as ArrayRef,
        })
        .collect();
    let observed = guard(|| -> datafusion_common::Result<ArrayRef> {
        let batch = RecordBatch::try_new(Arc::new(schema.clone()), arrays)?;
        phys.evaluate(&batch)?.into_array(rows.len())
    });
    let observed = match observed {
        Ok(Ok(a)) => a,
        Ok(Err(e)) => {
            loc.skip("engine-evaluation-error");
            loc.see("engine_errors", format!("evaluate: {}", first_line(&e)));
            cx.rep.case(fp, false);
            return;
        }
        Err(p) => {
            cx.panic("evaluate", feature, &p, witness(json!(null)));
            cx.rep.case(fp, false);
            return;
        }
    };
    let mut vals: Vec<NV> = vec![];
    for (i, row) in rows.iter().enumerate() {
        let native = case.e.eval(row).expect("filtered");
        match array_value(&observed, i) {
            Some(v) => {
                if !same_nv(v, native) {
                    loc.add("reference_disagrees_with_engine_value", 1);
                    loc.see("reference_disagreements", format!("{text}: engine {} native {}", v.show(), native.show()));
                }
                vals.push(v);
            }
            None => vals.push(native),
        }
    }
    // ---- bounds must contain every observed value --------------------------------------------
    let is_pred = case.e.t == BT::Bool;
    let mut bounds_ok = true;
    if is_pred {
        if let Some(mut b) = observe_bool(&bounds) {
            if cx.selftest {
                b = corrupt_bool(b);
            }
            for (i, v) in vals.iter().enumerate() {
                if let NV::B(t) = v {
                    if !bool_has(b, *t) && bounds_ok {
                        bounds_ok = false;
                        cx.violation(&format!("bounds-exclude-value/{feature}"), witness(json!({"assignment": rows[i].iter().map(|v| v.show()).collect::<Vec<_>>(), "columns": COLS.map(|c| c.0), "value": t, "evaluate_bounds": bounds.to_string()})));
                    }
                }
            }
        }
    } else if let Some(mut b) = observe(&bounds) {
        if cx.selftest {
            b.corrupt();
        }
        for (i, v) in vals.iter().enumerate() {
            if !b.has(v.to_v()) && bounds_ok {
                bounds_ok = false;
                cx.violation(&format!("bounds-exclude-value/{feature}"), witness(json!({"assignment": rows[i].iter().map(|v| v.show()).collect::<Vec<_>>(), "columns": COLS.map(|c| c.0), "value": v.show(), "evaluate_bounds": bounds.to_string()})));
            }
        }
    }
    loc.add("assignments_checked_against_bounds", rows.len() as u64);
    loc.add(&format!("graphs/{}", if is_pred { "predicate" } else { "arithmetic" }), 1);
    let mut nontrivial = !bounds.is_unbounded() && (!is_pred || bounds != Interval::TRUE_OR_FALSE);
    // ---- propagation -------------------------------------------------------------------------
    if is_pred {
        let mut new_leaf = leaf.clone();
        let res = guard(|| graph.update_ranges(&mut new_leaf, Interval::TRUE));
        if !rounding_mode_ok() {
            loc.add("fp_rounding_mode_left_altered", 1);
        }
        let sat: Vec<usize> = (0..rows.len()).filter(|i| vals[*i] == NV::B(true)).collect();
        match res {
            Err(p) => cx.panic("update_ranges", feature, &p, witness(json!(null))),
            Ok(Err(e)) => {
                loc.skip("update_ranges-error");
                loc.see("engine_errors", format!("update_ranges: {}", first_line(&e)));
            }
            Ok(Ok(PropagationResult::CannotPropagate)) => loc.add("propagation/CannotPropagate", 1),
            Ok(Ok(PropagationResult::Infeasible)) => {
                loc.add("propagation/Infeasible", 1);
                if let Some(i) = sat.first() {
                    cx.violation(
                        &format!("propagation-infeasible-but-satisfiable/{feature}"),
                        witness(json!({"satisfying_assignment": rows[*i].iter().map(|v| v.show()).collect::<Vec<_>>(), "columns": COLS.map(|c| c.0), "result": "Infeasible"})),
                    );
                }
                sat_rows.fetch_add(sat.len() as u64, Ordering::Relaxed);
                nontrivial = true;
            }
            Ok(Ok(PropagationResult::Success)) => {
                loc.add("propagation/Success", 1);
                let changed = new_leaf.iter().zip(&leaf).any(|(a, b)| a.1 != b.1);
                if changed {
                    loc.add("propagation/Success-shrunk", 1);
                    shrunk.fetch_add(1, Ordering::Relaxed);
                    nontrivial = true;
                }
                let mut reported = false;
                for (ci, c) in cols.iter().enumerate() {
                    let Some(mut nb) = observe(&new_leaf[ci].1) else { continue };
                    if cx.selftest && changed {
                        nb.corrupt();
                    }
                    for i in &sat {
                        if !nb.has(rows[*i][*c].to_v()) && !reported {
                            reported = true;
                            cx.violation(
                                &format!("propagation-removed-satisfying/{feature}"),
                                witness(json!({"satisfying_assignment": rows[*i].iter().map(|v| v.show()).collect::<Vec<_>>(), "columns": COLS.map(|c| c.0), "column": COLS[*c].0,
                                               "range_before": leaf[ci].1.to_string(), "range_after": new_leaf[ci].1.to_string(),
                                               "expected": "the assignment satisfies the predicate, so each of its values must remain inside the propagated range"})),
                            );
                        }
                    }
                }
                sat_rows.fetch_add(sat.len() as u64, Ordering::Relaxed);
                loc.add("satisfying_assignments_checked", sat.len() as u64);
            }
        }
    }
    cx.rep.case(fp, nontrivial);
    if nontrivial && cx.rep.want_sample() && fp % 11 == 0 {
        cx.rep.sample(json!({"part": "B", "expr": text, "ranges": ranges_text, "evaluate_bounds": bounds.to_string(), "assignments": rows.len()}));
    }
}

fn part_b(cx: &Ctx, args: &Args) -> (u64, u64) {
    let sat_rows = AtomicU64::new(0);
    let shrunk = AtomicU64::new(0);
    let n_random = args.bound("graphs", 4000, 300_000);
    let sys = systematic_cases();
    let n_sys = sys.len() as u64;
    enum ItemB {
        Sys(usize),
        Rand(u64),
    }
    let items = (0..sys.len()).map(ItemB::Sys).chain((0..n_random).map(ItemB::Rand));
    vcommon::par::run(args.workers, items, |item| {
        let mut loc = Local::default();
        let r = guard(|| match item {
            ItemB::Sys(i) => {
                let mut rng = cx.rng(&[4, i as u64]);
                run_graph(cx, &mut loc, &sys[i], &mut rng, &sat_rows, &shrunk);
                loc.add("graphs/systematic", 1);
            }
            ItemB::Rand(i) => {
                if !cx.rep.within_budget(if cx.rep.args.tier == vcommon::Tier::Quick { 50.0 } else { 1000.0 }) {
                    loc.add("random_graphs_cut_by_budget", 1);
                    return;
                }
                let mut rng = cx.rng(&[5, i]);
                let case = gen_case(&mut rng);
                run_graph(cx, &mut loc, &case, &mut rng, &sat_rows, &shrunk);
                loc.add("graphs/random", 1);
            }
        });
        if let Err(p) = r {
            cx.rep.inconclusive(&format!("harness panic in part B: {p}"));
        }
        loc.flush(cx.rep);
    });
    cx.rep.extra("systematic_graphs", json!(n_sys));
    (shrunk.load(Ordering::Relaxed), sat_rows.load(Ordering::Relaxed))
}

// ---------------------------------------------------------------------------------------
// main
// ---------------------------------------------------------------------------------------

fn main() {
    let args = Args::parse();
    vcommon::par::quiet_panics();
    std::process::exit(run(&args));
}

fn run(args: &Args) -> i32 {
    let rep = Report::new("C23", "exploration", args);
    rep.set_rule(
        "a case is one (operation, interval I, interval J) triple, one (interval, unary operation) or one expression graph with column ranges; \
         it is distinct by operation+type+endpoints (graphs: expression text + ranges) and non-trivial when at least one representable value \
         pair/assignment was checked against a result that is not fully unbounded / not [false,true] (graphs: bounded bounds, or a propagation that shrank a range / reported infeasible)",
    );
    rep.assume("checked native arithmetic (i128, IEEE-754 round-to-nearest f32/f64, truncating integer division) is the reference for x (op) y; 'representable' = no overflow / finite");
    rep.assume("-0.0 and +0.0 are treated as the same point when judging what the engine returned (inputs are drawn with the engine's own totalOrder membership); for comparisons either the IEEE or the totalOrder truth value is accepted");
    rep.assume("part B: the value of an expression under an assignment is what the real PhysicalExpr evaluates to on a RecordBatch; assignments on which the native reference sees overflow / division by zero / non-finite values are skipped");
    rep.assume("the arrow cast kernel (strict mode) defines what a single value casts to");
    let stage: u64 = match args.stage.as_str() {
        "" => 0,
        "miri" => 1,
        "memcheck" => 2,
        _ => 3,
    };
    let cx = Ctx {
        rep: &rep,
        seed: args.seed,
        stage,
        selftest: args.opt_u64("selftest", 0) != 0,
        in_miri: cfg!(miri),
        panic_count: AtomicU64::new(0),
        panics: Mutex::new(BTreeMap::new()),
        forwarded: Mutex::new(BTreeMap::new()),
        zero_notes: AtomicU64::new(0),
    };
    rep.set_exhaustive(false);
    let parts = args.opt_str("parts").unwrap_or("ab").to_string();
    if parts.contains('a') {
        part_a(&cx, args);
    }
    let run_b = parts.contains('b') && stage != 1;
    let (shrunk, sat_rows) = if run_b { part_b(&cx, args) } else { (0, 0) };

    // ---- coverage obligations -------------------------------------------------------------------
    if parts.contains('a') {
        let mut missing = vec![];
        let mut cells = 0;
        for ty in ALL_TYS {
            for op in ALL_OP2 {
                if cx.in_miri && ty.is_float() && op.is_arith() {
                    continue;
                }
                cells += 1;
                let cell = format!("{}/{}", op.name(), ty.name());
                if rep.get_count(&format!("op/{cell}")) == 0 || rep.get_count(&format!("pairs/{cell}")) == 0 {
                    missing.push(cell);
                }
            }
        }
        for cell in ["And/Boolean", "Or/Boolean", "nullable/And/Boolean", "nullable/Or/Boolean", "nullable/Plus/Int8", "nullable/Gt/Int32", "nullable/IsDistinctFrom/Int8"] {
            cells += 1;
            if rep.get_count(&format!("pairs/{cell}")) == 0 {
                missing.push(cell.to_string());
            }
        }
        rep.obligation("every-operation-x-type-cell-exercised", missing.is_empty(), &format!("{} of {cells} cells have engine results with checked value pairs; missing: {missing:?}", cells - missing.len()));
    }
    if run_b {
        let need_shrunk = if stage == 0 { args.bound("min_shrunk", 200, 2000) } else { 5 };
        let need_sat = if stage == 0 { args.bound("min_satisfying", 10_000, 100_000) } else { 100 };
        rep.obligation("graphs-with-successful-shrinking-propagation", shrunk >= need_shrunk, &format!("{shrunk} graphs returned Success and changed at least one leaf range (need {need_shrunk})"));
        rep.obligation("satisfying-assignments-checked", sat_rows >= need_sat, &format!("{sat_rows} satisfying assignments were checked against propagation results (need {need_sat})"));
    }
    // ---- engine panics: reported apart from soundness violations --------------------------------
    let panics = cx.panics.lock().unwrap_or_else(|e| e.into_inner());
    rep.extra("engine_panics_total", json!(cx.panic_count.load(Ordering::Relaxed)));
    rep.extra("engine_panics", json!(panics.iter().map(|(k, (n, w))| json!({"where": k, "count": n, "sample": w})).collect::<Vec<_>>()));
    rep.extra("signed_zero_results_outside_under_totalOrder", json!(cx.zero_notes.load(Ordering::Relaxed)));
    rep.extra("selftest", json!(cx.selftest));
    drop(panics);
    rep.finish()
}
