//! C21 — spill files round-trip exactly and disk usage accounting stays exact.
//!
//! (a) round trip through `SpillManager::{spill_record_batch_and_finish, create_in_progress_file /
//!     append_batch / finish, read_spill_as_stream, read_spill_as_stream_unbuffered}` over the Arrow
//!     type set (views above the 10 KiB GC threshold, dictionaries, nested, unions, run-end encoded,
//!     sliced, zero-row, all-null) x {uncompressed, lz4_frame, zstd} x read buffer capacities;
//!     oracle = independent canonical row rendering (schema, values, validity, order).
//! (b) accounting histories on one DiskManager: create / append / finish / clone handle / drop /
//!     abandon / read / quota changes; `used_disk_space()` against `fs::metadata().len()` of live
//!     files at quiescent points, 0 after release, nothing admitted beyond the quota; plus a
//!     threaded variant.
//! (c) FAULT ENUMERATION: in a child process (re-exec of this binary) `RLIMIT_FSIZE = s` with
//!     SIGXFSZ ignored for every s on a 4-byte grid over the scenario's files (every IPC write
//!     boundary is 4-byte aligned) plus unaligned values, and in-process the quota set to the same
//!     grid; after the failure every handle is dropped: usage must be 0 and the spill dir empty.

mod acct;
mod fault;
mod types;

use arrow::array::{ArrayRef, RecordBatch, RecordBatchOptions};
use arrow::datatypes::{Field, Schema, SchemaRef};
use datafusion_common::config::SpillCompression;
use datafusion_execution::disk_manager::{DiskManager, DiskManagerMode};
use datafusion_execution::runtime_env::{RuntimeEnv, RuntimeEnvBuilder};
use datafusion_physical_plan::metrics::{ExecutionPlanMetricsSet, SpillMetrics};
use datafusion_physical_plan::SpillManager;
use futures::TryStreamExt;
use types::{Nulls, K};
use std::path::{Path, PathBuf};
use std::sync::atomic::{AtomicU64, Ordering};
use std::sync::Arc;
use vcommon::{fp_mix, json, Args, Json, Report, Rng};

fn main() {
    let args = Args::parse();
    if let Some(kind) = args.opt_str("child") {
        std::process::exit(fault::child_main(kind, &args));
    }
    match args.opt_u64("repro", 0) {
        1 => std::process::exit(fault::repro(&args)),
        2 => std::process::exit(fault::repro_ree(&args)),
        _ => {}
    }
    if let Some(p) = &args.replay {
        std::process::exit(replay(p, &args));
    }
    vcommon::par::quiet_panics();
    std::process::exit(run(&args));
}

/// `--replay FILE`: re-execute a recorded witness against the current build
/// (exit 1 = the violation reproduces, 0 = it does not, 2 = not replayable).
fn replay(p: &Path, args: &Args) -> i32 {
    let Ok(text) = std::fs::read_to_string(p) else { return 2 };
    let Ok(v) = vcommon::serde_json_parse(&text) else { return 2 };
    println!("replay: recorded signature = {}", v.get("signature").and_then(|x| x.as_str()).unwrap_or("?"));
    let w = v.get("witness").cloned().unwrap_or(v.clone());
    let root = scratch_root("c21-replay", args.opt_str("tmp"));
    let verdict: Option<Option<(String, String)>> = if let Some(case) = w.get("case").and_then(RtCase::from_json) {
        println!("round trip case: {}", case.to_json());
        match run_roundtrip(&case, &root, 0) {
            RtOutcome::Violation(sig, w) => Some(Some((sig, w.get("what").and_then(|x| x.as_str()).unwrap_or("").to_string()))),
            RtOutcome::Ok { .. } => Some(None),
            RtOutcome::Skip(why) => {
                println!("skipped: {why}");
                None
            }
        }
    } else if let Some(r) = w.get("replay") {
        match r.get("kind").and_then(|x| x.as_str()) {
            Some("accounting") => {
                let rep = Report::new("C21", "fault_enumeration", args);
                let (viol, trace) = acct::history(&rep, r.get("seed").and_then(|x| x.as_u64()).unwrap_or(0), r.get("index").and_then(|x| x.as_u64()).unwrap_or(0), &root, 0);
                for l in trace {
                    println!("  {l}");
                }
                Some(viol)
            }
            Some("fault") => fault::replay_point(r, &root),
            _ => None,
        }
    } else {
        None
    };
    let _ = std::fs::remove_dir_all(&root);
    match verdict {
        None => {
            println!("INCONCLUSIVE property=C21 reason=this witness (thread run or unknown layout) cannot be replayed deterministically");
            2
        }
        Some(Some((sig, what))) => {
            println!("REPRODUCED signature={sig}: {what}");
            1
        }
        Some(None) => {
            println!("NOT REPRODUCED on the current build");
            0
        }
    }
}

// ---------------------------------------------------------------------------------------
// Environment helpers (shared by the three stages)
// ---------------------------------------------------------------------------------------

pub fn scratch_root(tag: &str, opt: Option<&str>) -> PathBuf {
    let base = opt.map(PathBuf::from).unwrap_or_else(std::env::temp_dir);
    let p = base.join(format!("verif-{tag}-{}", std::process::id()));
    let _ = std::fs::create_dir_all(&p);
    p
}

/// per-thread sub-directory (directory mutations under one parent serialise in the kernel)
pub fn thread_dir(root: &Path) -> PathBuf {
    static NEXT: AtomicU64 = AtomicU64::new(0);
    thread_local! { static ID: u64 = NEXT.fetch_add(1, Ordering::Relaxed); }
    let p = root.join(format!("t{}", ID.with(|i| *i)));
    if !p.exists() {
        let _ = std::fs::create_dir_all(&p);
    }
    p
}

pub fn make_env(dir: &Path) -> Arc<RuntimeEnv> {
    RuntimeEnvBuilder::new()
        .with_disk_manager_builder(DiskManager::builder().with_mode(DiskManagerMode::Directories(vec![dir.to_path_buf()])))
        .build_arc()
        .expect("runtime env")
}

pub fn make_sm(env: &Arc<RuntimeEnv>, schema: SchemaRef, codec: SpillCompression, cap: Option<usize>) -> Arc<SpillManager> {
    let mut sm = SpillManager::new(env.clone(), SpillMetrics::new(&ExecutionPlanMetricsSet::new(), 0), schema).with_compression_type(codec);
    if let Some(c) = cap {
        sm = sm.with_batch_read_buffer_capacity(c);
    }
    Arc::new(sm)
}

/// regular files below the disk manager's temp directories
pub fn files_in_spill_dirs(dm: &DiskManager) -> Vec<PathBuf> {
    let mut out = vec![];
    for d in dm.temp_dir_paths() {
        if let Ok(rd) = std::fs::read_dir(&d) {
            for e in rd.flatten() {
                out.push(e.path());
            }
        }
    }
    out
}


/// At most 5 witnesses per signature are handed to the report (it keeps no more anyway); every
/// occurrence is counted, so the evidence shows the true number.
pub fn report_violation(rep: &vcommon::Report, sig: &str, detail: vcommon::Json) {
    static SEEN: std::sync::Mutex<std::collections::BTreeMap<String, u32>> = std::sync::Mutex::new(std::collections::BTreeMap::new());
    rep.count(&format!("violation_occurrences/{sig}"), 1);
    let mut g = SEEN.lock().unwrap_or_else(|e| e.into_inner());
    let n = g.entry(sig.to_string()).or_insert(0);
    *n += 1;
    if *n <= 5 {
        rep.violation(sig, detail);
    }
}

pub const CODECS: [SpillCompression; 3] = [SpillCompression::Uncompressed, SpillCompression::Lz4Frame, SpillCompression::Zstd];

thread_local! {
    static RT: tokio::runtime::Runtime = tokio::runtime::Builder::new_current_thread().enable_all().build().expect("runtime");
}
pub fn with_rt<R>(f: impl FnOnce(&tokio::runtime::Runtime) -> R) -> R {
    RT.with(|rt| f(rt))
}
/// `spawn_buffered` only buffers inside a multi-thread runtime
fn mt_runtime() -> &'static tokio::runtime::Runtime {
    static MT: std::sync::OnceLock<tokio::runtime::Runtime> = std::sync::OnceLock::new();
    MT.get_or_init(|| tokio::runtime::Builder::new_multi_thread().worker_threads(2).enable_all().build().expect("mt runtime"))
}

// ---------------------------------------------------------------------------------------
// (a) round trip
// ---------------------------------------------------------------------------------------

#[derive(Clone, Debug)]
struct RtCase {
    kinds: Vec<K>,
    nulls: Vec<Nulls>,
    /// rows of each batch (0 = zero-row batch)
    rows: Vec<usize>,
    /// Some((offset, tail)): arrays are generated longer and sliced
    slice: Option<(usize, usize)>,
    codec: SpillCompression,
    incremental: bool,
    /// None = unbuffered read; Some(c) = buffered read with capacity c on a multi-thread runtime
    read_cap: Option<usize>,
    /// fields declared non-nullable in the *batch* schema while the manager schema is nullable
    batch_schema_non_nullable: bool,
    data_seed: u64,
}

impl RtCase {
    fn to_json(&self) -> Json {
        json!({
            "columns": self.kinds.iter().map(|k| k.name()).collect::<Vec<_>>(),
            "nulls": self.nulls.iter().map(|n| format!("{n:?}")).collect::<Vec<_>>(),
            "rows_per_batch": self.rows, "slice(offset,tail)": self.slice.map(|(a, b)| vec![a, b]),
            "codec": self.codec.to_string(), "write": if self.incremental { "create_in_progress_file+append_batch+finish" } else { "spill_record_batch_and_finish" },
            "read": match self.read_cap { None => "read_spill_as_stream_unbuffered".to_string(), Some(c) => format!("read_spill_as_stream(batch_read_buffer_capacity={c})") },
            "batch_schema_non_nullable": self.batch_schema_non_nullable, "data_seed": self.data_seed,
            "incremental": self.incremental, "read_cap": self.read_cap,
        })
    }
    fn fp(&self) -> u64 {
        vcommon::fp_str(&self.to_json().to_string())
    }
    /// inverse of `to_json` (for `--replay`)
    fn from_json(v: &Json) -> Option<RtCase> {
        let all = types::all_kinds();
        let kinds: Vec<K> = v.get("columns")?.as_array()?.iter().filter_map(|n| all.iter().find(|k| Some(k.name().as_str()) == n.as_str()).cloned()).collect();
        let nulls: Vec<Nulls> = v.get("nulls")?.as_array()?.iter().map(|n| match n.as_str() { Some("None") => Nulls::None, Some("All") => Nulls::All, _ => Nulls::Some }).collect();
        let rows: Vec<usize> = v.get("rows_per_batch")?.as_array()?.iter().filter_map(|x| x.as_u64()).map(|x| x as usize).collect();
        let slice = v.get("slice(offset,tail)").and_then(|x| x.as_array()).map(|a| (a[0].as_u64().unwrap_or(0) as usize, a[1].as_u64().unwrap_or(0) as usize));
        let codec = *CODECS.iter().find(|c| Some(c.to_string().as_str()) == v.get("codec").and_then(|x| x.as_str()))?;
        if kinds.len() != nulls.len() || kinds.is_empty() {
            return None;
        }
        Some(RtCase {
            kinds, nulls, rows, slice, codec,
            incremental: v.get("incremental")?.as_bool()?,
            read_cap: v.get("read_cap").and_then(|x| x.as_u64()).map(|x| x as usize),
            batch_schema_non_nullable: v.get("batch_schema_non_nullable")?.as_bool()?,
            data_seed: v.get("data_seed")?.as_u64()?,
        })
    }
    fn build(&self) -> (SchemaRef, Vec<RecordBatch>) {
        let fields: Vec<Field> = self.kinds.iter().enumerate().map(|(i, k)| Field::new(format!("c{i}"), k.data_type(), true)).collect();
        let schema = Arc::new(Schema::new(fields.clone()));
        let bschema = if self.batch_schema_non_nullable {
            Arc::new(Schema::new(fields.iter().zip(&self.nulls).map(|(f, n)| if *n == Nulls::None && !matches!(f.data_type(), arrow::datatypes::DataType::Null) { f.clone().with_nullable(false) } else { f.clone() }).collect::<Vec<_>>()))
        } else {
            schema.clone()
        };
        let mut rng = Rng::new(self.data_seed);
        let mut batches = vec![];
        for r in &self.rows {
            let (off, tail) = self.slice.unwrap_or((0, 0));
            let cols: Vec<ArrayRef> = self.kinds.iter().zip(&self.nulls).map(|(k, n)| types::gen_array(k, off + r + tail, &mut rng, *n).slice(off, *r)).collect();
            batches.push(RecordBatch::try_new_with_options(bschema.clone(), cols, &RecordBatchOptions::new().with_row_count(Some(*r))).expect("batch"));
        }
        (schema, batches)
    }
}

enum RtOutcome {
    Ok { bytes: u64 },
    Skip(String),
    Violation(String, Json),
}

fn run_roundtrip(case: &RtCase, root: &Path, selftest: u64) -> RtOutcome {
    let (schema, batches) = case.build();
    let env = make_env(&thread_dir(root));
    let sm = make_sm(&env, schema.clone(), case.codec, case.read_cap);
    let short = |e: &dyn std::fmt::Display| e.to_string().chars().take(200).collect::<String>();
    // ---- write
    let file = if case.incremental {
        let mut ipf = match sm.create_in_progress_file("c21") {
            Ok(f) => f,
            Err(e) => return RtOutcome::Skip(format!("create failed: {}", short(&e))),
        };
        for b in &batches {
            if let Err(e) = ipf.append_batch(b) {
                return RtOutcome::Skip(format!("write rejected [{}]: {}", case.kinds.iter().map(|k| k.name()).collect::<Vec<_>>().join(","), short(&e).split(':').next().unwrap_or("")));
            }
        }
        ipf.finish()
    } else {
        sm.spill_record_batch_and_finish(&batches, "c21")
    };
    let file = match file {
        Ok(Some(f)) => f,
        Ok(None) => {
            return if batches.is_empty() { RtOutcome::Ok { bytes: 0 } } else { RtOutcome::Violation("roundtrip-no-file".into(), json!({"case": case.to_json(), "what": "finish returned None although batches were appended"})) };
        }
        Err(e) => return RtOutcome::Skip(format!("write rejected [{}]: {}", case.kinds.iter().map(|k| k.name()).collect::<Vec<_>>().join(","), short(&e).split(':').next().unwrap_or(""))),
    };
    let bytes = file.size().unwrap_or(0);
    // ---- read
    let read: datafusion_common::Result<Vec<RecordBatch>> = match case.read_cap {
        None => with_rt(|rt| rt.block_on(async { sm.read_spill_as_stream_unbuffered(file.clone(), None)?.try_collect().await })),
        Some(_) => mt_runtime().block_on(async { sm.read_spill_as_stream(file.clone(), None)?.try_collect().await }),
    };
    let mut got = match read {
        Ok(g) => g,
        Err(e) => {
            // one precise pattern gets its own signature: a zero-row *slice* of a non-empty run-end encoded
            // array is written by arrow-ipc with run_ends = [0], which the reader then rejects
            let ree_empty = e.to_string().contains("run_ends array should be strictly positive") && case.rows.contains(&0) && case.slice.is_some();
            let sig = if ree_empty { "zero-row-sliced-run-array-unreadable" } else { "roundtrip-read-error" };
            return RtOutcome::Violation(sig.into(), json!({"case": case.to_json(), "what": format!("file was written successfully ({bytes} bytes) but reading it back failed: {}", short(&e))}));
        }
    };
    if selftest == 1 && !got.is_empty() && got[0].num_rows() > 1 {
        // self-test: corrupt the observation (rows of the first batch reversed)
        let b = &got[0];
        let idx = arrow::array::UInt32Array::from((0..b.num_rows() as u32).rev().collect::<Vec<_>>());
        if let Ok(cols) = b.columns().iter().map(|c| arrow::compute::take(c.as_ref(), &idx, None)).collect::<Result<Vec<_>, _>>() {
            got[0] = RecordBatch::try_new(b.schema(), cols).unwrap_or(b.clone());
        }
    }
    // ---- compare: schema, batch sequence, values, validity
    let fail = |what: String| RtOutcome::Violation("roundtrip-mismatch".into(), json!({"case": case.to_json(), "what": what, "file_bytes": bytes}));
    if got.len() != batches.len() {
        return fail(format!("{} batches written ({:?} rows), {} read back ({:?} rows)", batches.len(), case.rows, got.len(), got.iter().map(|b| b.num_rows()).collect::<Vec<_>>()));
    }
    for (i, (w, g)) in batches.iter().zip(&got).enumerate() {
        if g.schema() != schema {
            return fail(format!("batch {i}: schema read back differs from the SpillManager schema: {:?} vs {:?}", g.schema(), schema));
        }
        let caught = vcommon::par::guard(|| types::diff_batches(w, g));
        match caught {
            Ok(None) => {}
            Ok(Some(d)) => return fail(format!("batch {i}: {d}")),
            Err(p) => return RtOutcome::Skip(format!("oracle cannot render [{}]: {p}", case.kinds.iter().map(|k| k.name()).collect::<Vec<_>>().join(","))),
        }
    }
    drop(got);
    drop(file);
    if env.disk_manager.used_disk_space() != 0 {
        return RtOutcome::Violation("usage-nonzero-after-release".into(), json!({"case": case.to_json(), "what": format!("used_disk_space() = {} after the only spill file was dropped", env.disk_manager.used_disk_space())}));
    }
    RtOutcome::Ok { bytes }
}

fn systematic_cases(reduced: bool) -> Vec<RtCase> {
    let kinds = types::all_kinds();
    let mut out = vec![];
    let mut i = 0u64;
    for (ki, k) in kinds.iter().enumerate() {
        let big = matches!(k.name().as_str(), n if n.contains(">10KiB"));
        let rows_big = if big { 150 } else { 17 };
        for (ci, codec) in CODECS.iter().enumerate() {
            for (ni, nulls) in [Nulls::Some, Nulls::None, Nulls::All].iter().enumerate() {
                for sliced in [false, true] {
                    i += 1;
                    if reduced && (ci != ki % 3 || ni != (ki / 3) % 3 || sliced != (ki % 2 == 0)) {
                        continue;
                    }
                    out.push(RtCase {
                        kinds: vec![k.clone()],
                        nulls: vec![*nulls],
                        rows: vec![rows_big, 0, 5],
                        // sliced views: a small window of a large array, so GC has something to compact
                        slice: if sliced { Some((if big { 300 } else { 3 }, 2)) } else { None },
                        codec: *codec,
                        incremental: i % 2 == 0,
                        read_cap: match i % 4 { 0 => None, 1 => Some(1), 2 => Some(2), _ => Some(8) },
                        batch_schema_non_nullable: *nulls == Nulls::None && i % 3 == 0,
                        data_seed: 1000 + i,
                    });
                }
            }
        }
    }
    out
}

fn random_case(rng: &mut Rng, kinds: &[K]) -> RtCase {
    let nc = 1 + rng.usize(4);
    let ks: Vec<K> = (0..nc).map(|_| rng.pick_cloned(kinds)).collect();
    let nulls: Vec<Nulls> = (0..nc).map(|_| *rng.pick(&[Nulls::Some, Nulls::Some, Nulls::None, Nulls::All])).collect();
    let nb = 1 + rng.usize(4);
    let rows: Vec<usize> = (0..nb).map(|_| if rng.chance(1, 8) { 0 } else { *rng.pick(&[1usize, 2, 7, 33, 130, 300]) }).collect();
    RtCase {
        kinds: ks,
        nulls,
        rows,
        slice: if rng.bool() { Some((rng.usize(400), rng.usize(5))) } else { None },
        codec: *rng.pick(&CODECS),
        incremental: rng.bool(),
        read_cap: *rng.pick(&[None, Some(1), Some(2), Some(3), Some(16)]),
        batch_schema_non_nullable: rng.chance(1, 4),
        data_seed: rng.next_u64(),
    }
}

fn roundtrip_stage(rep: &Report, args: &Args, root: &Path, seed: u64, selftest: u64, reduced: bool) {
    let mut cases = systematic_cases(reduced);
    let n_rand = if reduced { args.opt_u64("rt_random", 20) } else { args.bound("rt_random", 12_000, 400_000) };
    let kinds = types::all_kinds();
    let mut rng = Rng::derive(seed, &[21, 1]);
    for _ in 0..n_rand {
        cases.push(random_case(&mut rng, &kinds));
    }
    let first_sample = std::sync::atomic::AtomicBool::new(true);
    vcommon::par::run(args.workers, cases.into_iter(), |case| {
        let r = vcommon::par::guard(|| run_roundtrip(&case, root, selftest));
        let nontrivial = case.rows.iter().any(|r| *r > 0);
        rep.case(fp_mix(21, case.fp()), nontrivial);
        rep.count("a_roundtrips", 1);
        match r {
            Ok(RtOutcome::Ok { bytes }) => {
                rep.count("a_roundtrips_equal", 1);
                rep.count("a_batches_compared", case.rows.len() as u64);
                rep.count("a_file_bytes", bytes);
                for k in &case.kinds {
                    rep.seen("a_types_x_codec", &format!("{} / {}", k.name(), case.codec));
                    rep.seen("a_types", &k.name());
                }
                rep.seen("a_read_paths", &match case.read_cap { None => "unbuffered".to_string(), Some(c) => format!("buffered(cap={c})") });
                if case.slice.is_some() { rep.count("a_sliced_cases", 1) }
                if case.slice.is_some() && case.kinds.iter().any(|k| k.name().contains(">10KiB")) {
                    // a small window of a large view array: the file is much smaller than the buffers the slice references
                    let (_, bs) = case.build();
                    let mem: usize = bs.iter().map(|b| b.get_array_memory_size()).sum();
                    if mem as u64 > 10 * 1024 && bytes * 3 < mem as u64 { rep.count("a_view_gc_effect_observed", 1) }
                }
                if case.rows.contains(&0) { rep.count("a_cases_with_zero_row_batch", 1) }
                if case.nulls.contains(&Nulls::All) { rep.count("a_cases_with_all_null_column", 1) }
                if first_sample.swap(false, Ordering::SeqCst) {
                    rep.sample(json!({"stage": "round-trip", "case": case.to_json(), "file_bytes": bytes, "result": "equal"}));
                }
            }
            Ok(RtOutcome::Skip(why)) => rep.skip(&why),
            Ok(RtOutcome::Violation(sig, w)) => {
                rep.count(&format!("a_violations/{sig}"), 1);
                report_violation(rep, &sig, w)
            }
            Err(p) => report_violation(rep, "panic", json!({"stage": "round-trip", "case": case.to_json(), "panic": p})),
        }
    });
}

// ---------------------------------------------------------------------------------------

fn run(args: &Args) -> i32 {
    let rep = Report::new("C21", "fault_enumeration", args);
    rep.set_rule(
        "(a) case = (column types, null pattern, rows per batch incl. zero-row, slicing, codec, write path, read path/buffer capacity, data seed): every type x codec x \
         null pattern x sliced/unsliced once, random multi-column cases beyond; (b) case = one random accounting history (operation sequence) on one DiskManager; \
         (c) case = (scenario, fault kind, s) with s enumerated over the 4-byte grid of the scenario's file sizes (RLIMIT_FSIZE in a child process; quota in-process). \
         distinct = fingerprint of the case description / operation sequence / (scenario, kind, s); non-trivial = at least one non-empty batch (a), at least one \
         successful append (b), the fault made a write fail (c)",
    );
    rep.assume("logical equality is decided by the harness' own canonical row rendering (value + validity, recursive), not by arrow's equality kernels");
    rep.assume("'bytes held by live spill files' is fs::metadata().len() of the files whose handles the harness still holds; compared only at points where no file is open for writing");
    rep.assume("RLIMIT_FSIZE with SIGXFSZ ignored makes write(2) fail with EFBIG (after a partial write when the limit falls inside the buffer) — a faithful stand-in for ENOSPC");
    let selftest = args.opt_u64("selftest", 0);
    let root = scratch_root("c21", args.opt_str("tmp"));
    let reduced = !args.stage.is_empty();
    let mut rng = Rng::derive(args.seed, &[21]);

    // (a)
    if selftest != 2 {
        roundtrip_stage(&rep, args, &root, rng.next_u64(), selftest, reduced);
        if !reduced {
            let want = types::all_kinds().len() * 3;
            let have = rep.seen_count("a_types_x_codec");
            rep.extra("a_types_x_codec_expected", json!(want));
            rep.obligation("view-gc-observed", rep.get_count("a_view_gc_effect_observed") > 0, "sliced view arrays above the 10 KiB GC threshold must have been compacted (file much smaller than referenced buffers)");
            rep.obligation("types-x-codecs", have >= want * 9 / 10, &format!("{have}/{want} type x codec combinations round-tripped"));
        }
    }
    // (b)
    if !reduced && selftest != 1 {
        let s = rng.next_u64();
        let n = args.bound("b_histories", 20_000, 600_000);
        vcommon::par::run(args.workers, 0..n, |i| {
            if let Err(p) = vcommon::par::guard(|| acct::history(&rep, s, i, &root, selftest)) {
                report_violation(&rep, "panic", json!({"stage": "accounting", "seed": s, "index": i, "panic": p}));
            }
        });
        let nt = args.bound("b_thread_runs", 300, 10_000);
        for i in 0..nt {
            if let Err(p) = vcommon::par::guard(|| acct::threaded(&rep, s, i, &root)) {
                report_violation(&rep, "panic", json!({"stage": "accounting-threads", "seed": s, "index": i, "panic": p}));
            }
        }
        rep.obligation("quota-rejections-observed", rep.get_count("b_appends_rejected_by_quota") > 0, "accounting histories must hit the quota");
        rep.obligation("quiescent-points-checked", rep.get_count("b_quiescent_points_checked") > 0, "usage must have been compared with file sizes");
    }
    // (c)
    if !reduced && selftest == 0 {
        fault::fault_stage(&rep, args, &root);
    }
    let _ = std::fs::remove_dir_all(&root);
    rep.finish()
}
