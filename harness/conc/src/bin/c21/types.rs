//! Batch generators over the supported Arrow type set and an independent canonical row
//! rendering used as the logical-equality oracle.

use arrow::array::*;
use arrow::buffer::{NullBuffer, OffsetBuffer, ScalarBuffer};
use arrow::datatypes::*;
use std::sync::Arc;
use vcommon::Rng;

// ---------------------------------------------------------------------------------------
// Type kinds
// ---------------------------------------------------------------------------------------

#[derive(Clone, Debug)]
pub enum K {
    Null,
    Bool,
    /// any primitive type (ints, floats, decimals, temporal, intervals)
    Prim(DataType),
    Bin,
    LBin,
    Fsb(i32),
    Utf8,
    LUtf8,
    /// `long`: mostly non-inlined values, > 10 KiB of data buffers for >= 64 rows (GC threshold)
    Utf8View { long: bool },
    BinView { long: bool },
    List(Box<K>),
    LList(Box<K>),
    Fsl(Box<K>, i32),
    ListView(Box<K>),
    Struct(Vec<K>),
    Map(Box<K>, Box<K>),
    Dict(DataType, Box<K>),
    Union { dense: bool, kids: Vec<K> },
    Ree(Box<K>),
}

impl K {
    pub fn name(&self) -> String {
        match self {
            K::Null => "Null".into(),
            K::Bool => "Boolean".into(),
            K::Prim(dt) => format!("{dt}"),
            K::Bin => "Binary".into(),
            K::LBin => "LargeBinary".into(),
            K::Fsb(n) => format!("FixedSizeBinary({n})"),
            K::Utf8 => "Utf8".into(),
            K::LUtf8 => "LargeUtf8".into(),
            K::Utf8View { long } => format!("Utf8View{}", if *long { "(>10KiB)" } else { "" }),
            K::BinView { long } => format!("BinaryView{}", if *long { "(>10KiB)" } else { "" }),
            K::List(k) => format!("List<{}>", k.name()),
            K::LList(k) => format!("LargeList<{}>", k.name()),
            K::Fsl(k, n) => format!("FixedSizeList<{},{n}>", k.name()),
            K::ListView(k) => format!("ListView<{}>", k.name()),
            K::Struct(ks) => format!("Struct<{}>", ks.iter().map(|k| k.name()).collect::<Vec<_>>().join(",")),
            K::Map(a, b) => format!("Map<{},{}>", a.name(), b.name()),
            K::Dict(kt, v) => format!("Dictionary<{kt},{}>", v.name()),
            K::Union { dense, kids } => format!("{}Union<{}>", if *dense { "Dense" } else { "Sparse" }, kids.iter().map(|k| k.name()).collect::<Vec<_>>().join(",")),
            K::Ree(v) => format!("RunEndEncoded<Int32,{}>", v.name()),
        }
    }

    pub fn data_type(&self) -> DataType {
        match self {
            K::Null => DataType::Null,
            K::Bool => DataType::Boolean,
            K::Prim(dt) => dt.clone(),
            K::Bin => DataType::Binary,
            K::LBin => DataType::LargeBinary,
            K::Fsb(n) => DataType::FixedSizeBinary(*n),
            K::Utf8 => DataType::Utf8,
            K::LUtf8 => DataType::LargeUtf8,
            K::Utf8View { .. } => DataType::Utf8View,
            K::BinView { .. } => DataType::BinaryView,
            K::List(k) => DataType::List(item_field(k)),
            K::LList(k) => DataType::LargeList(item_field(k)),
            K::Fsl(k, n) => DataType::FixedSizeList(item_field(k), *n),
            K::ListView(k) => DataType::ListView(item_field(k)),
            K::Struct(ks) => DataType::Struct(struct_fields(ks)),
            K::Map(a, b) => DataType::Map(map_entries_field(a, b), false),
            K::Dict(kt, v) => DataType::Dictionary(Box::new(kt.clone()), Box::new(v.data_type())),
            K::Union { dense, kids } => DataType::Union(union_fields(kids), if *dense { UnionMode::Dense } else { UnionMode::Sparse }),
            K::Ree(v) => DataType::RunEndEncoded(Arc::new(Field::new("run_ends", DataType::Int32, false)), Arc::new(Field::new("values", v.data_type(), true))),
        }
    }
}

fn item_field(k: &K) -> FieldRef {
    Arc::new(Field::new("item", k.data_type(), true))
}
fn struct_fields(ks: &[K]) -> Fields {
    ks.iter().enumerate().map(|(i, k)| Field::new(format!("f{i}"), k.data_type(), true)).collect::<Vec<_>>().into()
}
fn map_entries_field(a: &K, b: &K) -> FieldRef {
    Arc::new(Field::new(
        "entries",
        DataType::Struct(vec![Field::new("key", a.data_type(), false), Field::new("value", b.data_type(), true)].into()),
        false,
    ))
}
fn union_fields(kids: &[K]) -> UnionFields {
    let ids: Vec<i8> = (0..kids.len()).map(|i| (i as i8) * 2 + 1).collect(); // non-contiguous type ids
    UnionFields::try_new(ids, kids.iter().enumerate().map(|(i, k)| Field::new(format!("u{i}"), k.data_type(), true))).expect("union fields")
}

/// all leaf and nested kinds exercised by the round-trip stage
pub fn all_kinds() -> Vec<K> {
    use DataType as D;
    let mut v = vec![K::Null, K::Bool];
    for dt in [
        D::Int8, D::Int16, D::Int32, D::Int64, D::UInt8, D::UInt16, D::UInt32, D::UInt64, D::Float16, D::Float32, D::Float64,
        D::Decimal32(9, 2), D::Decimal64(18, 4), D::Decimal128(38, 10), D::Decimal256(76, 20),
        D::Date32, D::Date64, D::Time32(TimeUnit::Second), D::Time32(TimeUnit::Millisecond), D::Time64(TimeUnit::Microsecond), D::Time64(TimeUnit::Nanosecond),
        D::Timestamp(TimeUnit::Second, None), D::Timestamp(TimeUnit::Millisecond, Some("UTC".into())), D::Timestamp(TimeUnit::Microsecond, Some("+01:00".into())),
        D::Timestamp(TimeUnit::Nanosecond, Some("Europe/Berlin".into())),
        D::Duration(TimeUnit::Second), D::Duration(TimeUnit::Millisecond), D::Duration(TimeUnit::Microsecond), D::Duration(TimeUnit::Nanosecond),
        D::Interval(IntervalUnit::YearMonth), D::Interval(IntervalUnit::DayTime), D::Interval(IntervalUnit::MonthDayNano),
    ] {
        v.push(K::Prim(dt));
    }
    v.extend([K::Bin, K::LBin, K::Fsb(5), K::Fsb(0), K::Utf8, K::LUtf8]);
    v.extend([K::Utf8View { long: false }, K::Utf8View { long: true }, K::BinView { long: false }, K::BinView { long: true }]);
    let b = |k: K| Box::new(k);
    v.extend([
        K::List(b(K::Prim(D::Int32))),
        K::List(b(K::Utf8)),
        K::LList(b(K::Prim(D::Int64))),
        K::Fsl(b(K::Prim(D::Int16)), 3),
        K::ListView(b(K::Prim(D::Int32))),
        K::List(b(K::Utf8View { long: true })),
        K::List(b(K::List(b(K::Bool)))),
        K::Struct(vec![K::Prim(D::Int32), K::Utf8]),
        K::Struct(vec![K::List(b(K::Prim(D::Float64))), K::Utf8View { long: true }, K::Struct(vec![K::Bool])]),
        K::List(b(K::Struct(vec![K::Prim(D::Int8), K::Bin]))),
        K::Map(b(K::Utf8), b(K::Prim(D::Int32))),
        K::Map(b(K::Prim(D::Int64)), b(K::List(b(K::Utf8)))),
        K::Dict(D::Int8, b(K::Utf8)),
        K::Dict(D::Int32, b(K::Utf8)),
        K::Dict(D::UInt16, b(K::Prim(D::Int64))),
        K::Dict(D::Int16, b(K::Utf8View { long: false })),
        K::List(b(K::Dict(D::Int32, b(K::Utf8)))),
        K::Struct(vec![K::Dict(D::Int8, b(K::Utf8)), K::Prim(D::Int32)]),
        K::Union { dense: false, kids: vec![K::Prim(D::Int32), K::Utf8] },
        K::Union { dense: true, kids: vec![K::Prim(D::Float64), K::Utf8, K::Bool] },
        K::Ree(b(K::Utf8)),
        K::Ree(b(K::Prim(D::Int64))),
    ]);
    v
}

// ---------------------------------------------------------------------------------------
// Generation
// ---------------------------------------------------------------------------------------

#[derive(Clone, Copy, Debug, PartialEq)]
pub enum Nulls {
    None,
    Some,
    All,
}

fn null_buffer(n: usize, rng: &mut Rng, nulls: Nulls) -> Option<NullBuffer> {
    match nulls {
        Nulls::None => None,
        Nulls::Some => Some(NullBuffer::from((0..n).map(|_| !rng.chance(1, 4)).collect::<Vec<bool>>())),
        Nulls::All => Some(NullBuffer::from(vec![false; n])),
    }
}

fn rand_string(rng: &mut Rng, long: bool) -> String {
    let len = if long { 13 + rng.usize(200) } else { rng.usize(14) };
    let alphabet: &[&str] = &["a", "b", "Z", "0", " ", "é", "ß", "日", "🦀", "\"", "\\", ",", "\n", "x", "y"];
    let mut s = String::new();
    while s.len() < len {
        s.push_str(rng.pick(alphabet));
    }
    s
}

fn rand_bytes(rng: &mut Rng, len: usize) -> Vec<u8> {
    (0..len).map(|_| rng.next_u32() as u8).collect()
}

fn interesting_i64(rng: &mut Rng) -> i64 {
    match rng.below(8) {
        0 => 0,
        1 => -1,
        2 => i64::MAX,
        3 => i64::MIN,
        4 => rng.range(-100, 100),
        _ => rng.next_u64() as i64,
    }
}

fn interesting_f64(rng: &mut Rng) -> f64 {
    match rng.below(10) {
        0 => 0.0,
        1 => -0.0,
        2 => f64::NAN,
        3 => f64::INFINITY,
        4 => f64::NEG_INFINITY,
        5 => f64::MIN_POSITIVE,
        6 => f64::from_bits(0x7ff8_0000_0000_1234), // NaN with a payload
        _ => (rng.f64() - 0.5) * 1e6,
    }
}

macro_rules! prim {
    ($t:ty, $n:expr, $rng:expr, $nulls:expr, $dt:expr, $f:expr) => {{
        let nb = null_buffer($n, $rng, $nulls);
        let vals: Vec<<$t as ArrowPrimitiveType>::Native> = (0..$n).map(|_| $f($rng)).collect();
        Arc::new(PrimitiveArray::<$t>::new(ScalarBuffer::from(vals), nb).with_data_type($dt.clone())) as ArrayRef
    }};
}

fn gen_prim(dt: &DataType, n: usize, rng: &mut Rng, nulls: Nulls) -> ArrayRef {
    use DataType as D;
    let i = |r: &mut Rng| interesting_i64(r);
    match dt {
        D::Int8 => prim!(Int8Type, n, rng, nulls, dt, |r: &mut Rng| i(r) as i8),
        D::Int16 => prim!(Int16Type, n, rng, nulls, dt, |r: &mut Rng| i(r) as i16),
        D::Int32 => prim!(Int32Type, n, rng, nulls, dt, |r: &mut Rng| i(r) as i32),
        D::Int64 => prim!(Int64Type, n, rng, nulls, dt, |r: &mut Rng| i(r)),
        D::UInt8 => prim!(UInt8Type, n, rng, nulls, dt, |r: &mut Rng| i(r) as u8),
        D::UInt16 => prim!(UInt16Type, n, rng, nulls, dt, |r: &mut Rng| i(r) as u16),
        D::UInt32 => prim!(UInt32Type, n, rng, nulls, dt, |r: &mut Rng| i(r) as u32),
        D::UInt64 => prim!(UInt64Type, n, rng, nulls, dt, |r: &mut Rng| i(r) as u64),
        D::Float16 => prim!(Float16Type, n, rng, nulls, dt, |r: &mut Rng| half::f16::from_f64(interesting_f64(r))),
        D::Float32 => prim!(Float32Type, n, rng, nulls, dt, |r: &mut Rng| interesting_f64(r) as f32),
        D::Float64 => prim!(Float64Type, n, rng, nulls, dt, |r: &mut Rng| interesting_f64(r)),
        D::Decimal32(..) => prim!(Decimal32Type, n, rng, nulls, dt, |r: &mut Rng| r.range(-999_999_999, 999_999_999) as i32),
        D::Decimal64(..) => prim!(Decimal64Type, n, rng, nulls, dt, |r: &mut Rng| r.range(-999_999_999_999_999_999, 999_999_999_999_999_999)),
        D::Decimal128(..) => prim!(Decimal128Type, n, rng, nulls, dt, |r: &mut Rng| (i(r) as i128) * 1_000_000_007),
        D::Decimal256(..) => prim!(Decimal256Type, n, rng, nulls, dt, |r: &mut Rng| i256::from_parts(r.next_u64() as u128 | ((r.next_u64() as u128) << 64), (i(r) >> 40) as i128)),
        D::Date32 => prim!(Date32Type, n, rng, nulls, dt, |r: &mut Rng| r.range(-100_000, 100_000) as i32),
        D::Date64 => prim!(Date64Type, n, rng, nulls, dt, |r: &mut Rng| r.range(-100_000, 100_000) * 86_400_000),
        D::Time32(TimeUnit::Second) => prim!(Time32SecondType, n, rng, nulls, dt, |r: &mut Rng| r.range(0, 86_399) as i32),
        D::Time32(_) => prim!(Time32MillisecondType, n, rng, nulls, dt, |r: &mut Rng| r.range(0, 86_399_999) as i32),
        D::Time64(TimeUnit::Microsecond) => prim!(Time64MicrosecondType, n, rng, nulls, dt, |r: &mut Rng| r.range(0, 86_399_999_999)),
        D::Time64(_) => prim!(Time64NanosecondType, n, rng, nulls, dt, |r: &mut Rng| r.range(0, 86_399_999_999_999)),
        D::Timestamp(TimeUnit::Second, _) => prim!(TimestampSecondType, n, rng, nulls, dt, |r: &mut Rng| r.range(-4_000_000_000, 4_000_000_000)),
        D::Timestamp(TimeUnit::Millisecond, _) => prim!(TimestampMillisecondType, n, rng, nulls, dt, |r: &mut Rng| r.range(-4_000_000_000_000, 4_000_000_000_000)),
        D::Timestamp(TimeUnit::Microsecond, _) => prim!(TimestampMicrosecondType, n, rng, nulls, dt, |r: &mut Rng| r.range(-4_000_000_000_000_000, 4_000_000_000_000_000)),
        D::Timestamp(TimeUnit::Nanosecond, _) => prim!(TimestampNanosecondType, n, rng, nulls, dt, |r: &mut Rng| i(r)),
        D::Duration(TimeUnit::Second) => prim!(DurationSecondType, n, rng, nulls, dt, |r: &mut Rng| i(r)),
        D::Duration(TimeUnit::Millisecond) => prim!(DurationMillisecondType, n, rng, nulls, dt, |r: &mut Rng| i(r)),
        D::Duration(TimeUnit::Microsecond) => prim!(DurationMicrosecondType, n, rng, nulls, dt, |r: &mut Rng| i(r)),
        D::Duration(TimeUnit::Nanosecond) => prim!(DurationNanosecondType, n, rng, nulls, dt, |r: &mut Rng| i(r)),
        D::Interval(IntervalUnit::YearMonth) => prim!(IntervalYearMonthType, n, rng, nulls, dt, |r: &mut Rng| i(r) as i32),
        D::Interval(IntervalUnit::DayTime) => prim!(IntervalDayTimeType, n, rng, nulls, dt, |r: &mut Rng| IntervalDayTime::new(i(r) as i32, i(r) as i32)),
        D::Interval(IntervalUnit::MonthDayNano) => prim!(IntervalMonthDayNanoType, n, rng, nulls, dt, |r: &mut Rng| IntervalMonthDayNano::new(i(r) as i32, i(r) as i32, i(r))),
        other => panic!("gen_prim: unsupported {other}"),
    }
}

fn rand_offsets(n: usize, rng: &mut Rng) -> Vec<i32> {
    let mut o = vec![0i32];
    for _ in 0..n {
        let l = if rng.chance(1, 5) { 0 } else { rng.usize(4) as i32 };
        o.push(o.last().unwrap() + l);
    }
    o
}

fn dict<KT: ArrowDictionaryKeyType>(n: usize, rng: &mut Rng, nulls: Nulls, values: ArrayRef, conv: impl Fn(usize) -> KT::Native) -> ArrayRef {
    let nb = null_buffer(n, rng, nulls);
    let m = values.len().max(1);
    let keys: Vec<KT::Native> = (0..n).map(|_| conv(rng.usize(m))).collect();
    Arc::new(DictionaryArray::<KT>::try_new(PrimitiveArray::<KT>::new(ScalarBuffer::from(keys), nb), values).expect("dictionary"))
}

/// An array of kind `k` with exactly `n` rows.
pub fn gen_array(k: &K, n: usize, rng: &mut Rng, nulls: Nulls) -> ArrayRef {
    match k {
        K::Null => Arc::new(NullArray::new(n)),
        K::Bool => {
            let nb = null_buffer(n, rng, nulls);
            Arc::new(BooleanArray::new((0..n).map(|_| rng.bool()).collect::<Vec<bool>>().into(), nb))
        }
        K::Prim(dt) => gen_prim(dt, n, rng, nulls),
        K::Bin | K::LBin | K::Fsb(_) | K::BinView { .. } => {
            let nb = null_buffer(n, rng, nulls);
            let long = matches!(k, K::BinView { long: true });
            let vals: Vec<Option<Vec<u8>>> = (0..n)
                .map(|i| {
                    if nb.as_ref().is_some_and(|b| b.is_null(i)) {
                        None
                    } else {
                        let len = match k {
                            K::Fsb(w) => *w as usize,
                            _ if long => 13 + rng.usize(200),
                            _ => rng.usize(14),
                        };
                        Some(rand_bytes(rng, len))
                    }
                })
                .collect();
            match k {
                K::Bin => Arc::new(BinaryArray::from_iter(vals.iter().map(|v| v.as_deref()))),
                K::LBin => Arc::new(LargeBinaryArray::from_iter(vals.iter().map(|v| v.as_deref()))),
                K::BinView { .. } => Arc::new(BinaryViewArray::from_iter(vals.iter().map(|v| v.as_deref()))),
                K::Fsb(w) => Arc::new(FixedSizeBinaryArray::try_from_sparse_iter_with_size(vals.into_iter(), *w).expect("fsb")),
                _ => unreachable!(),
            }
        }
        K::Utf8 | K::LUtf8 | K::Utf8View { .. } => {
            let nb = null_buffer(n, rng, nulls);
            let long = matches!(k, K::Utf8View { long: true });
            let vals: Vec<Option<String>> = (0..n)
                .map(|i| if nb.as_ref().is_some_and(|b| b.is_null(i)) { None } else { { let l = long || rng.chance(1, 6); Some(rand_string(rng, l)) } })
                .collect();
            match k {
                K::Utf8 => Arc::new(StringArray::from_iter(vals.iter().map(|v| v.as_deref()))),
                K::LUtf8 => Arc::new(LargeStringArray::from_iter(vals.iter().map(|v| v.as_deref()))),
                _ => Arc::new(StringViewArray::from_iter(vals.iter().map(|v| v.as_deref()))),
            }
        }
        K::List(inner) => {
            let off = rand_offsets(n, rng);
            let child = gen_array(inner, *off.last().unwrap() as usize, rng, if nulls == Nulls::All { Nulls::Some } else { nulls });
            Arc::new(ListArray::try_new(item_field(inner), OffsetBuffer::new(off.into()), child, null_buffer(n, rng, nulls)).expect("list"))
        }
        K::LList(inner) => {
            let off: Vec<i64> = rand_offsets(n, rng).into_iter().map(|x| x as i64).collect();
            let child = gen_array(inner, *off.last().unwrap() as usize, rng, if nulls == Nulls::All { Nulls::Some } else { nulls });
            Arc::new(LargeListArray::try_new(item_field(inner), OffsetBuffer::new(off.into()), child, null_buffer(n, rng, nulls)).expect("large list"))
        }
        K::Fsl(inner, w) => {
            let child = gen_array(inner, n * *w as usize, rng, if nulls == Nulls::All { Nulls::Some } else { nulls });
            Arc::new(FixedSizeListArray::try_new(item_field(inner), *w, child, null_buffer(n, rng, nulls)).expect("fsl"))
        }
        K::ListView(inner) => {
            // overlapping / out-of-order views into a shared child
            let m = 2 * n + 3;
            let child = gen_array(inner, m, rng, if nulls == Nulls::All { Nulls::Some } else { nulls });
            let sizes: Vec<i32> = (0..n).map(|_| rng.usize(4) as i32).collect();
            let offsets: Vec<i32> = sizes.iter().map(|s| rng.usize(m - *s as usize + 1) as i32).collect();
            Arc::new(ListViewArray::try_new(item_field(inner), offsets.into(), sizes.into(), child, null_buffer(n, rng, nulls)).expect("list view"))
        }
        K::Struct(ks) => {
            let kids: Vec<ArrayRef> = ks.iter().map(|k| gen_array(k, n, rng, if nulls == Nulls::All { Nulls::Some } else { nulls })).collect();
            Arc::new(StructArray::try_new_with_length(struct_fields(ks), kids, null_buffer(n, rng, nulls), n).expect("struct"))
        }
        K::Map(a, b) => {
            let off = rand_offsets(n, rng);
            let total = *off.last().unwrap() as usize;
            let keys = gen_array(a, total, rng, Nulls::None);
            let vals = gen_array(b, total, rng, if nulls == Nulls::All { Nulls::Some } else { nulls });
            let DataType::Struct(fields) = map_entries_field(a, b).data_type().clone() else { unreachable!() };
            let entries = StructArray::try_new_with_length(fields, vec![keys, vals], None, total).expect("entries");
            Arc::new(MapArray::try_new(map_entries_field(a, b), OffsetBuffer::new(off.into()), entries, null_buffer(n, rng, nulls), false).expect("map"))
        }
        K::Dict(kt, inner) => {
            let m = 1 + rng.usize(6);
            let vn = if rng.chance(1, 3) { Nulls::Some } else { Nulls::None };
            let values = gen_array(inner, m, rng, vn);
            match kt {
                DataType::Int8 => dict::<Int8Type>(n, rng, nulls, values, |x| x as i8),
                DataType::Int16 => dict::<Int16Type>(n, rng, nulls, values, |x| x as i16),
                DataType::Int32 => dict::<Int32Type>(n, rng, nulls, values, |x| x as i32),
                DataType::UInt16 => dict::<UInt16Type>(n, rng, nulls, values, |x| x as u16),
                other => panic!("dict key {other}"),
            }
        }
        K::Union { dense, kids } => {
            let fields = union_fields(kids);
            let ids: Vec<i8> = fields.iter().map(|(id, _)| id).collect();
            let which: Vec<usize> = (0..n).map(|_| rng.usize(kids.len())).collect();
            let type_ids: Vec<i8> = which.iter().map(|w| ids[*w]).collect();
            if *dense {
                let mut counts = vec![0i32; kids.len()];
                let mut offsets = vec![];
                for w in &which {
                    offsets.push(counts[*w]);
                    counts[*w] += 1;
                }
                let children: Vec<ArrayRef> = kids.iter().enumerate().map(|(i, k)| gen_array(k, counts[i] as usize, rng, if nulls == Nulls::None { Nulls::None } else { Nulls::Some })).collect();
                Arc::new(UnionArray::try_new(fields, type_ids.into(), Some(offsets.into()), children).expect("dense union"))
            } else {
                let children: Vec<ArrayRef> = kids.iter().map(|k| gen_array(k, n, rng, if nulls == Nulls::None { Nulls::None } else { Nulls::Some })).collect();
                Arc::new(UnionArray::try_new(fields, type_ids.into(), None, children).expect("sparse union"))
            }
        }
        K::Ree(inner) => {
            let mut ends: Vec<i32> = vec![];
            let mut at = 0usize;
            while at < n {
                at = (at + 1 + rng.usize(4)).min(n);
                ends.push(at as i32);
            }
            let values = gen_array(inner, ends.len(), rng, if nulls == Nulls::None { Nulls::None } else { Nulls::Some });
            Arc::new(RunArray::<Int32Type>::try_new(&Int32Array::from(ends), values.as_ref()).expect("ree"))
        }
    }
}

// ---------------------------------------------------------------------------------------
// Canonical rendering (independent of arrow's own equality)
// ---------------------------------------------------------------------------------------

const NULL: &str = "\u{2205}";

fn hex(b: &[u8]) -> String {
    let mut s = String::with_capacity(b.len() * 2 + 2);
    s.push_str("x'");
    for x in b {
        s.push_str(&format!("{x:02x}"));
    }
    s.push('\'');
    s
}

fn list_rows<O: OffsetSizeTrait>(a: &GenericListArray<O>) -> Vec<String> {
    let child = canon(a.values().as_ref());
    let off = a.value_offsets();
    (0..a.len())
        .map(|i| if a.is_null(i) { NULL.to_string() } else { format!("[{}]", child[off[i].as_usize()..off[i + 1].as_usize()].join("|")) })
        .collect()
}

/// One canonical string per logical row: value and validity, recursively; independent of offsets,
/// buffer layout, dictionary encoding order and run boundaries.
pub fn canon(a: &dyn Array) -> Vec<String> {
    use DataType as D;
    let n = a.len();
    let leaf = |f: &dyn Fn(usize) -> String| -> Vec<String> { (0..n).map(|i| if a.is_null(i) { NULL.to_string() } else { f(i) }).collect() };
    downcast_primitive_array!(
        a => { (0..n).map(|i| if a.is_null(i) { NULL.to_string() } else { format!("{:?}", a.value(i)) }).collect() }
        D::Null => vec![NULL.to_string(); n],
        D::Boolean => { let x = a.as_boolean(); leaf(&|i| format!("{}", x.value(i))) }
        D::Utf8 => { let x = a.as_string::<i32>(); leaf(&|i| format!("{:?}", x.value(i))) }
        D::LargeUtf8 => { let x = a.as_string::<i64>(); leaf(&|i| format!("{:?}", x.value(i))) }
        D::Utf8View => { let x = a.as_string_view(); leaf(&|i| format!("{:?}", x.value(i))) }
        D::Binary => { let x = a.as_binary::<i32>(); leaf(&|i| hex(x.value(i))) }
        D::LargeBinary => { let x = a.as_binary::<i64>(); leaf(&|i| hex(x.value(i))) }
        D::BinaryView => { let x = a.as_binary_view(); leaf(&|i| hex(x.value(i))) }
        D::FixedSizeBinary(_) => { let x = a.as_fixed_size_binary(); leaf(&|i| hex(x.value(i))) }
        D::List(_) => list_rows(a.as_list::<i32>()),
        D::LargeList(_) => list_rows(a.as_list::<i64>()),
        D::FixedSizeList(_, w) => {
            let x = a.as_fixed_size_list();
            let child = canon(x.values().as_ref());
            let w = *w as usize;
            let base = x.value_offset(0) as usize;
            (0..n).map(|i| if x.is_null(i) { NULL.to_string() } else { format!("[{}]", child[base + i * w..base + (i + 1) * w].join("|")) }).collect()
        }
        D::ListView(_) => {
            let x = a.as_list_view::<i32>();
            let child = canon(x.values().as_ref());
            (0..n)
                .map(|i| {
                    if x.is_null(i) {
                        NULL.to_string()
                    } else {
                        let (o, s) = (x.value_offsets()[i] as usize, x.value_sizes()[i] as usize);
                        format!("[{}]", child[o..o + s].join("|"))
                    }
                })
                .collect()
        }
        D::Struct(_) => {
            let x = a.as_struct();
            let kids: Vec<Vec<String>> = x.columns().iter().map(|c| canon(c.as_ref())).collect();
            (0..n).map(|i| if x.is_null(i) { NULL.to_string() } else { format!("{{{}}}", kids.iter().map(|k| k[i].as_str()).collect::<Vec<_>>().join(";")) }).collect()
        }
        D::Map(_, _) => {
            let x = a.as_map();
            let keys = canon(x.keys().as_ref());
            let vals = canon(x.values().as_ref());
            let off = x.value_offsets();
            (0..n)
                .map(|i| {
                    if x.is_null(i) {
                        NULL.to_string()
                    } else {
                        let (s, e) = (off[i] as usize, off[i + 1] as usize);
                        format!("<{}>", (s..e).map(|j| format!("{}=>{}", keys[j], vals[j])).collect::<Vec<_>>().join("|"))
                    }
                })
                .collect()
        }
        D::Dictionary(_, _) => {
            let x = a.as_any_dictionary();
            let vals = canon(x.values().as_ref());
            let keys = x.normalized_keys();
            let kn = x.keys();
            (0..n).map(|i| if kn.is_null(i) { NULL.to_string() } else { vals[keys[i]].clone() }).collect()
        }
        D::Union(_, _) => {
            let x = a.as_union();
            let mut kids: std::collections::BTreeMap<i8, Vec<String>> = Default::default();
            (0..n)
                .map(|i| {
                    let t = x.type_id(i);
                    let rows = kids.entry(t).or_insert_with(|| canon(x.child(t).as_ref()));
                    format!("u{t}:{}", rows[x.value_offset(i)])
                })
                .collect()
        }
        D::RunEndEncoded(_, _) => {
            let x = a.as_any().downcast_ref::<RunArray<Int32Type>>().expect("run array with Int32 run ends");
            let vals = canon(x.values().as_ref());
            (0..n).map(|i| vals[x.get_physical_index(i)].clone()).collect()
        }
        other => panic!("canon: unsupported type {other}"),
    )
}

/// first difference between two batches (canonical rows per column), None when logically equal
pub fn diff_batches(exp: &RecordBatch, got: &RecordBatch) -> Option<String> {
    if exp.num_columns() != got.num_columns() {
        return Some(format!("column count {} vs {}", exp.num_columns(), got.num_columns()));
    }
    if exp.num_rows() != got.num_rows() {
        return Some(format!("row count {} vs {}", exp.num_rows(), got.num_rows()));
    }
    for c in 0..exp.num_columns() {
        if exp.column(c).data_type() != got.column(c).data_type() {
            return Some(format!("column {c}: data type {} vs {}", exp.column(c).data_type(), got.column(c).data_type()));
        }
        let (a, b) = (canon(exp.column(c).as_ref()), canon(got.column(c).as_ref()));
        if let Some(i) = (0..a.len()).find(|i| a[*i] != b[*i]) {
            let cut = |s: &String| s.chars().take(120).collect::<String>();
            return Some(format!("column {c} ({}) row {i}: written {} read back {}", exp.column(c).data_type(), cut(&a[i]), cut(&b[i])));
        }
    }
    None
}
