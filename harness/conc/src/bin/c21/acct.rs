//! (b) accounting histories: random operation sequences on one `DiskManager`, usage compared with
//! the real file sizes.

use crate::{files_in_spill_dirs, make_env, make_sm, report_violation, thread_dir, with_rt, CODECS};
use arrow::array::{ArrayRef, Int32Array, RecordBatch, StringArray};
use arrow::datatypes::{DataType, Field, Schema, SchemaRef};
use datafusion_common::Result;
use datafusion_execution::disk_manager::DEFAULT_MAX_TEMP_DIRECTORY_SIZE;
use datafusion_execution::SpillFile;
use datafusion_physical_plan::SpillManager;
use futures::TryStreamExt;
use std::io::Write;
use std::path::{Path, PathBuf};
use std::sync::Arc;
use vcommon::{fp_mix, json, Report, Rng};

pub fn schema() -> SchemaRef {
    Arc::new(Schema::new(vec![Field::new("a", DataType::Int32, true), Field::new("s", DataType::Utf8, true)]))
}

pub fn batch(rows: usize, salt: u64) -> RecordBatch {
    let a: ArrayRef = Arc::new(Int32Array::from_iter((0..rows).map(|i| if (i as u64 + salt) % 7 == 0 { None } else { Some((i as u64 * 31 + salt) as i32) })));
    let s: ArrayRef = Arc::new(StringArray::from_iter((0..rows).map(|i| if (i as u64 + salt) % 5 == 0 { None } else { Some(format!("v{}-{}", salt, i * i)) })));
    RecordBatch::try_new(schema(), vec![a, s]).expect("batch")
}

/// `InProgressSpillFile` lives in a crate-private module and cannot be named from outside; it is
/// driven through a closure that owns it.
pub enum Cmd<'a> {
    Append(&'a RecordBatch),
    Finish,
    Path,
}
pub enum Ret {
    Append(Result<usize>),
    Finish(Result<Option<Arc<dyn SpillFile>>>),
    Path(Option<PathBuf>),
}
pub type Ipf = Box<dyn FnMut(Cmd<'_>) -> Ret + Send>;

pub fn open_ipf(sm: &SpillManager) -> Result<Ipf> {
    let mut ipf = sm.create_in_progress_file("c21-accounting")?;
    Ok(Box::new(move |c| match c {
        Cmd::Append(b) => Ret::Append(ipf.append_batch(b)),
        Cmd::Finish => Ret::Finish(ipf.finish()),
        Cmd::Path => Ret::Path(ipf.file().and_then(|f| f.path().map(|p| p.to_path_buf()))),
    }))
}

struct Open {
    ipf: Ipf,
    path: PathBuf,
    ok_appends: usize,
    failed: bool,
}

struct Done {
    path: PathBuf,
    handles: Vec<Arc<dyn SpillFile>>,
    readable: bool,
}

/// raw file written through `SpillFile::open_writer` directly
struct Raw {
    path: PathBuf,
    file: Arc<dyn SpillFile>,
    writer: Box<dyn datafusion_execution::spill_file::SpillWriter>,
}

fn len_of(p: &Path) -> u64 {
    std::fs::metadata(p).map(|m| m.len()).unwrap_or(0)
}

/// Returns (violation, operation trace).
pub fn history(rep: &Report, seed: u64, idx: u64, root: &Path, selftest: u64) -> (Option<(String, String)>, Vec<String>) {
    let mut rng = Rng::derive(seed, &[21, 2, idx]);
    let env = make_env(&thread_dir(root));
    let dm = env.disk_manager.clone();
    let codec = *rng.pick(&CODECS);
    let sm = make_sm(&env, schema(), codec, None);
    let mut open: Vec<Open> = vec![];
    let mut done: Vec<Done> = vec![];
    let mut raws: Vec<Raw> = vec![];
    let mut trace: Vec<String> = vec![];
    let mut limit = DEFAULT_MAX_TEMP_DIRECTORY_SIZE;
    let mut fp = 0u64;
    let mut ok_appends = 0u64;
    let n_ops = 8 + rng.usize(40);
    let used = |dm: &datafusion_execution::disk_manager::DiskManager| dm.used_disk_space() + if selftest == 2 { 1 } else { 0 };
    let mut violation: Option<(String, String)> = None;

    for step in 0..=n_ops {
        let last = step == n_ops;
        let used0 = used(&dm);
        let mut admitted_check: Option<&'static str> = None;
        let op = if last { 99 } else { rng.weighted(&[3, 7, 3, 2, 3, 1, 2, 1, 1, 1, 1]) };
        fp = fp_mix(fp, op as u64);
        match op {
            0 => match open_ipf(&sm) {
                Ok(mut ipf) => {
                    let Ret::Path(Some(path)) = ipf(Cmd::Path) else { continue };
                    trace.push(format!("create_in_progress_file -> {}", path.file_name().unwrap().to_string_lossy()));
                    open.push(Open { ipf, path, ok_appends: 0, failed: false });
                }
                Err(e) => trace.push(format!("create_in_progress_file -> Err({e})")),
            },
            1 if !open.is_empty() => {
                let i = rng.usize(open.len());
                let b = batch(*rng.pick(&[0usize, 1, 5, 40, 200]), rng.below(1000));
                let Ret::Append(r) = (open[i].ipf)(Cmd::Append(&b)) else { unreachable!() };
                trace.push(format!("append_batch(file {}, {} rows) -> {}", i, b.num_rows(), if r.is_ok() { "Ok".into() } else { format!("Err({})", r.as_ref().err().unwrap().to_string().chars().take(60).collect::<String>()) }));
                match r {
                    Ok(_) => {
                        open[i].ok_appends += 1;
                        ok_appends += 1;
                        rep.count("b_appends_ok", 1);
                        admitted_check = Some("append_batch");
                    }
                    Err(e) => {
                        open[i].failed = true;
                        if e.to_string().contains("exceeded the allowable limit") { rep.count("b_appends_rejected_by_quota", 1) } else { rep.count("b_appends_failed_other", 1) }
                    }
                }
            }
            2 if !open.is_empty() => {
                let i = rng.usize(open.len());
                let mut o = open.remove(i);
                let Ret::Finish(r) = (o.ipf)(Cmd::Finish) else { unreachable!() };
                match r {
                    Ok(Some(f)) => {
                        trace.push(format!("finish(file {i}) -> Some"));
                        admitted_check = Some("finish");
                        done.push(Done { path: o.path.clone(), handles: vec![f], readable: !o.failed });
                    }
                    Ok(None) => trace.push(format!("finish(file {i}) -> None (nothing appended)")),
                    Err(e) => trace.push(format!("finish(file {i}) -> Err({})", e.to_string().chars().take(60).collect::<String>())),
                }
                drop(o);
            }
            3 if !done.is_empty() => {
                let i = rng.usize(done.len());
                let h = done[i].handles[0].clone();
                done[i].handles.push(h);
                trace.push(format!("clone handle of finished file {i} ({} handles)", done[i].handles.len()));
            }
            4 if !done.is_empty() => {
                let i = rng.usize(done.len());
                done[i].handles.pop();
                trace.push(format!("drop one handle of finished file {i} ({} left)", done[i].handles.len()));
                if done[i].handles.is_empty() {
                    let d = done.remove(i);
                    if d.path.exists() {
                        violation = Some(("spill-file-not-removed".into(), format!("{} still exists after its last handle was dropped", d.path.display())));
                    }
                }
            }
            5 if !open.is_empty() => {
                let i = rng.usize(open.len());
                let o = open.remove(i);
                trace.push(format!("drop in-progress file {i} without finish ({} appends)", o.ok_appends));
                let p = o.path.clone();
                drop(o);
                if p.exists() {
                    violation = Some(("spill-file-not-removed".into(), format!("{} still exists after the in-progress file was dropped", p.display())));
                }
            }
            6 => {
                let u = dm.used_disk_space();
                limit = match rng.below(6) {
                    0 => DEFAULT_MAX_TEMP_DIRECTORY_SIZE,
                    1 => u,
                    2 => u + rng.below(700),
                    3 => u / 2,
                    4 => 0,
                    _ => u + 2_000 + rng.below(20_000),
                };
                let _ = dm.set_max_temp_directory_size(limit);
                trace.push(format!("set_max_temp_directory_size({limit})  [used={u}]"));
            }
            7 if done.iter().any(|d| d.readable) => {
                let cands: Vec<usize> = (0..done.len()).filter(|i| done[*i].readable).collect();
                let i = *rng.pick(&cands);
                let f = done[i].handles[0].clone();
                let r: Result<Vec<RecordBatch>> = with_rt(|rt| rt.block_on(async { sm.read_spill_as_stream_unbuffered(f, None)?.try_collect().await }));
                trace.push(format!("read finished file {i} -> {}", r.as_ref().map(|b| format!("{} batches", b.len())).unwrap_or_else(|e| format!("Err({e})"))));
                if let Err(e) = r {
                    violation = Some(("roundtrip-read-error".into(), format!("reading a successfully finished file failed: {e}")));
                }
                rep.count("b_reads", 1);
            }
            8 => {
                // raw writer path: SpillFile::open_writer + io::Write
                if raws.len() < 2 && rng.bool() {
                    if let Ok(file) = dm.create_tmp_file("c21-raw") {
                        if let (Some(p), Ok(w)) = (file.path().map(|p| p.to_path_buf()), file.open_writer()) {
                            trace.push(format!("create_tmp_file + open_writer -> {}", p.file_name().unwrap().to_string_lossy()));
                            raws.push(Raw { path: p, file, writer: w });
                        }
                    }
                } else if !raws.is_empty() {
                    let i = rng.usize(raws.len());
                    let n = *rng.pick(&[0usize, 1, 13, 512, 4096]);
                    let r = raws[i].writer.write(&vec![0xabu8; n]);
                    trace.push(format!("raw write({n} bytes) -> {}", r.as_ref().map(|x| x.to_string()).unwrap_or_else(|e| format!("Err({})", e.to_string().chars().take(40).collect::<String>()))));
                    if r.is_ok() {
                        admitted_check = Some("SpillWriter::write");
                    }
                }
            }
            10 => {
                // temp-file creation failure: the spill directory is moved away during the call
                if let Some(p) = dm.temp_dir_paths().first().cloned() {
                    let away = p.with_extension("away");
                    if std::fs::rename(&p, &away).is_ok() {
                        let r = open_ipf(&sm);
                        let _ = std::fs::rename(&away, &p);
                        trace.push(format!("create_in_progress_file while the spill dir is missing -> {}", if r.is_ok() { "Ok" } else { "Err" }));
                        match r {
                            Err(_) => rep.count("b_tempfile_creation_failures_injected", 1),
                            Ok(mut ipf) => {
                                if let Ret::Path(Some(path)) = ipf(Cmd::Path) {
                                    open.push(Open { ipf, path, ok_appends: 0, failed: false });
                                }
                            }
                        }
                    }
                }
            }
            9 | 99 => {
                // settle: finish every open file, close raw writers -> quiescent point
                for mut o in open.drain(..) {
                    if let Ret::Finish(Ok(Some(f))) = (o.ipf)(Cmd::Finish) {
                        done.push(Done { path: o.path.clone(), handles: vec![f], readable: !o.failed });
                    }
                }
                for mut r in raws.drain(..) {
                    let _ = r.writer.finish();
                    done.push(Done { path: r.path, handles: vec![r.file], readable: false });
                }
                trace.push("settle: finish all open files".into());
            }
            _ => continue,
        }
        let u = used(&dm);
        // admission: a write that was admitted must leave the usage within the quota in effect
        if let (None, Some(what)) = (&violation, admitted_check) {
            if u > used0 && u > limit {
                violation = Some(("admitted-beyond-limit".into(), format!("{what} succeeded and raised used_disk_space() from {used0} to {u} although max_temp_directory_size is {limit}")));
            }
        }
        // quiescent point: nothing is open for writing
        let live: u64 = done.iter().map(|d| len_of(&d.path)).sum::<u64>() + open.iter().map(|o| len_of(&o.path)).sum::<u64>() + raws.iter().map(|r| len_of(&r.path)).sum::<u64>();
        if open.is_empty() && raws.is_empty() {
            rep.count("b_quiescent_points_checked", 1);
            if violation.is_none() && u != live {
                violation = Some(("usage-differs-from-live-file-bytes".into(), format!("used_disk_space() = {u} but the {} live spill file(s) hold {live} bytes", done.len())));
            }
            for d in &done {
                if violation.is_none() && d.handles[0].size() != Some(len_of(&d.path)) {
                    violation = Some(("file-size-differs".into(), format!("SpillFile::size() = {:?} but the file holds {} bytes", d.handles[0].size(), len_of(&d.path))));
                }
            }
        } else if u == live {
            rep.count("b_nonquiescent_points_usage_equal", 1);
        } else {
            rep.count("b_nonquiescent_points_usage_differs", 1);
        }
        rep.max("b_max_live_bytes", live);
        if dm.spilling_progress().active_files_count != done.len() + open.len() + raws.len() {
            rep.count("b_active_files_count_differs_from_live_files(observation)", 1);
        }
        if violation.is_some() {
            break;
        }
    }
    // release everything
    if violation.is_none() {
        open.clear();
        raws.clear();
        done.clear();
        let u = used(&dm);
        let left = files_in_spill_dirs(&dm);
        if u != 0 {
            violation = Some(("usage-nonzero-after-release".into(), format!("used_disk_space() = {u} after every handle was dropped")));
        } else if !left.is_empty() {
            violation = Some(("spill-file-not-removed".into(), format!("{} file(s) left in the spill directory after every handle was dropped", left.len())));
        }
        trace.push("drop everything".into());
    }
    rep.case(fp_mix(fp_mix(212, idx), fp), ok_appends > 0);
    rep.count("b_histories", 1);
    rep.count("b_operations", trace.len() as u64);
    if let Some((sig, what)) = &violation {
        report_violation(rep, sig, json!({"stage": "accounting-history", "codec": codec.to_string(), "operations": trace, "what": what, "replay": {"kind": "accounting", "seed": seed, "index": idx}}));
    } else if idx == 0 {
        rep.sample(json!({"stage": "accounting-history", "codec": codec.to_string(), "operations": trace}));
    }
    (violation, trace)
}

/// Threads share one DiskManager with a fixed, tight quota; checked when all threads are joined.
pub fn threaded(rep: &Report, seed: u64, idx: u64, root: &Path) {
    let mut rng = Rng::derive(seed, &[21, 22, idx]);
    let env = make_env(&thread_dir(root));
    let dm = env.disk_manager.clone();
    let limit = 6_000 + rng.below(60_000);
    let _ = dm.set_max_temp_directory_size(limit);
    let n_threads = 2 + rng.usize(5);
    let mut joins = vec![];
    for t in 0..n_threads {
        let sm = make_sm(&env, schema(), CODECS[t % 3], None);
        let mut r = Rng::derive(seed, &[21, 23, idx, t as u64]);
        joins.push(std::thread::spawn(move || {
            let mut kept: Vec<(PathBuf, Arc<dyn SpillFile>)> = vec![];
            let (mut ok, mut rejected) = (0u64, 0u64);
            for _ in 0..(3 + r.usize(8)) {
                let Ok(mut ipf) = open_ipf(&sm) else { continue };
                let Ret::Path(Some(p)) = ipf(Cmd::Path) else { continue };
                for _ in 0..(1 + r.usize(4)) {
                    let b = batch(*r.pick(&[5usize, 40, 200]), r.below(1000));
                    match ipf(Cmd::Append(&b)) {
                        Ret::Append(Ok(_)) => ok += 1,
                        Ret::Append(Err(_)) => rejected += 1,
                        _ => {}
                    }
                    if r.chance(1, 3) {
                        std::thread::yield_now();
                    }
                }
                match r.below(3) {
                    0 => drop(ipf), // abandon
                    _ => {
                        if let Ret::Finish(Ok(Some(f))) = ipf(Cmd::Finish) {
                            if r.bool() {
                                kept.push((p, f));
                            } else {
                                let c = f.clone();
                                drop(f);
                                drop(c);
                            }
                        }
                    }
                }
                if kept.len() > 2 {
                    kept.remove(0);
                }
            }
            (kept, ok, rejected)
        }));
    }
    let mut kept = vec![];
    let (mut ok, mut rej) = (0, 0);
    for j in joins {
        if let Ok((k, o, r)) = j.join() {
            kept.extend(k);
            ok += o;
            rej += r;
        }
    }
    rep.case(fp_mix(fp_mix(213, idx), ok * 1000 + rej), ok > 0);
    rep.count("b_thread_runs", 1);
    rep.count("b_thread_appends_ok", ok);
    rep.count("b_thread_appends_rejected", rej);
    let u = dm.used_disk_space();
    let live: u64 = kept.iter().map(|(p, _)| len_of(p)).sum();
    let w = |what: String| json!({"stage": "accounting-threads", "threads": n_threads, "quota": limit, "what": what});
    if u != live {
        report_violation(rep, "usage-differs-from-live-file-bytes", w(format!("after joining all writer threads used_disk_space() = {u} but the {} live file(s) hold {live} bytes", kept.len())));
    } else if live > limit {
        report_violation(rep, "admitted-beyond-limit", w(format!("live files hold {live} bytes although the quota was {limit} all the time")));
    }
    drop(kept);
    if dm.used_disk_space() != 0 {
        report_violation(rep, "usage-nonzero-after-release", w(format!("used_disk_space() = {} after every handle was dropped", dm.used_disk_space())));
    } else if !files_in_spill_dirs(&dm).is_empty() {
        report_violation(rep, "spill-file-not-removed", w("files left in the spill directory after every handle was dropped".into()));
    }
}
