//! (c) fault enumeration: OS-level write failures (RLIMIT_FSIZE in a child process) and quota
//! rejections (in-process) at every point of a spill scenario; after the failure every handle is
//! dropped and the disk manager must report zero usage and an empty spill directory.

use crate::acct::{batch, open_ipf, schema, Cmd, Ipf, Ret};
use crate::{files_in_spill_dirs, make_env, make_sm, report_violation, with_rt, CODECS};
use arrow::array::RecordBatch;
use datafusion_execution::disk_manager::DiskManager;
use datafusion_execution::SpillFile;
use futures::TryStreamExt;
use std::io::Write;
use std::path::Path;
use std::sync::Arc;
use vcommon::{fp_mix, json, Args, Json, Report};

// ---------------------------------------------------------------------------------------
// Scenarios: deterministic step lists
// ---------------------------------------------------------------------------------------

#[derive(Clone, Debug)]
pub enum Step {
    /// create_in_progress_file
    Create,
    /// append_batch(rows) to the most recent in-progress file
    Append(usize),
    /// finish the most recent in-progress file
    Finish,
    /// spill_record_batch_and_finish(rows...)
    SpillAll(Vec<usize>),
    /// DiskManager::create_tmp_file + SpillFile::open_writer
    RawOpen,
    /// io::Write::write of n bytes on the raw writer
    RawWrite(usize),
}

#[derive(Clone, Debug)]
pub struct Scn {
    pub name: &'static str,
    pub codec: usize,
    pub steps: Vec<Step>,
}

pub fn scenarios() -> Vec<Scn> {
    use Step::*;
    vec![
        Scn { name: "one-file/3-appends/uncompressed", codec: 0, steps: vec![Create, Append(20), Append(20), Append(5), Finish] },
        Scn { name: "one-file/2-appends/zstd", codec: 2, steps: vec![Create, Append(200), Append(150), Finish] },
        Scn { name: "two-files/lz4", codec: 1, steps: vec![Create, Append(5), Finish, Create, Append(60), Append(60), Append(60), Finish] },
        Scn { name: "spill_record_batch_and_finish/uncompressed", codec: 0, steps: vec![SpillAll(vec![30, 0, 30])] },
        Scn { name: "raw-writer", codec: 0, steps: vec![RawOpen, RawWrite(100), RawWrite(1000), RawWrite(3000)] },
        Scn { name: "interleaved-two-open-files/uncompressed", codec: 0, steps: vec![Create, Append(10), Create, Append(40), Finish, Append(40)] },
    ]
}

#[derive(Debug, Default)]
pub struct ScnOut {
    /// index of the step that returned an error (None: the scenario completed)
    pub failed_step: Option<usize>,
    pub error: String,
    /// used_disk_space() after every completed step
    pub used_after_step: Vec<u64>,
    pub max_used: u64,
    pub used_after_failure: u64,
    pub live_bytes_after_failure: u64,
    pub used_after_drop: u64,
    pub files_after_drop: usize,
    pub largest_file: u64,
}

impl ScnOut {
    fn to_json(&self) -> Json {
        json!({"failed_step": self.failed_step, "error": self.error, "used_after_step": self.used_after_step, "max_used": self.max_used,
               "used_after_failure": self.used_after_failure, "live_bytes_after_failure": self.live_bytes_after_failure,
               "used_after_drop": self.used_after_drop, "files_after_drop": self.files_after_drop, "largest_file": self.largest_file})
    }
    fn from_json(v: &Json) -> ScnOut {
        let u = |k: &str| v.get(k).and_then(|x| x.as_u64()).unwrap_or(0);
        ScnOut {
            failed_step: v.get("failed_step").and_then(|x| x.as_u64()).map(|x| x as usize),
            error: v.get("error").and_then(|x| x.as_str()).unwrap_or("").to_string(),
            used_after_step: v.get("used_after_step").and_then(|x| x.as_array()).map(|a| a.iter().filter_map(|x| x.as_u64()).collect()).unwrap_or_default(),
            max_used: u("max_used"),
            used_after_failure: u("used_after_failure"),
            live_bytes_after_failure: u("live_bytes_after_failure"),
            used_after_drop: u("used_after_drop"),
            files_after_drop: u("files_after_drop") as usize,
            largest_file: u("largest_file"),
        }
    }
}

/// Run the scenario on a fresh DiskManager below `dir`; `before`/`after` bracket the fallible part
/// (they install / lift the fault).
pub fn run_scenario(sc: &Scn, dir: &Path, quota: Option<u64>, before: &dyn Fn(), after: &dyn Fn()) -> ScnOut {
    let env = make_env(dir);
    let dm: Arc<DiskManager> = env.disk_manager.clone();
    let sm = make_sm(&env, schema(), CODECS[sc.codec], None);
    if let Some(q) = quota {
        let _ = dm.set_max_temp_directory_size(q);
    }
    let mut out = ScnOut::default();
    let mut open: Vec<Ipf> = vec![];
    let mut files: Vec<Arc<dyn SpillFile>> = vec![];
    let mut raw: Option<(Arc<dyn SpillFile>, Box<dyn datafusion_execution::spill_file::SpillWriter>)> = None;
    let mut paths: Vec<std::path::PathBuf> = vec![];
    before();
    for (i, st) in sc.steps.iter().enumerate() {
        let r: Result<(), String> = match st {
            Step::Create => open_ipf(&sm).map(|mut f| {
                if let Ret::Path(Some(p)) = f(Cmd::Path) {
                    paths.push(p);
                }
                open.push(f)
            }).map_err(|e| e.to_string()),
            Step::Append(rows) => {
                let b: RecordBatch = batch(*rows, i as u64);
                match open.last_mut().map(|f| f(Cmd::Append(&b))) {
                    Some(Ret::Append(r)) => r.map(|_| ()).map_err(|e| e.to_string()),
                    _ => Err("no open file".into()),
                }
            }
            Step::Finish => match open.pop().map(|mut f| f(Cmd::Finish)) {
                Some(Ret::Finish(r)) => r.map(|f| files.extend(f)).map_err(|e| e.to_string()),
                _ => Err("no open file".into()),
            },
            Step::SpillAll(rows) => {
                let bs: Vec<RecordBatch> = rows.iter().enumerate().map(|(j, r)| batch(*r, j as u64)).collect();
                sm.spill_record_batch_and_finish(&bs, "c21-fault").map(|f| {
                    if let Some(f) = f {
                        if let Some(p) = f.path() {
                            paths.push(p.to_path_buf());
                        }
                        files.push(f);
                    }
                }).map_err(|e| e.to_string())
            }
            Step::RawOpen => dm.create_tmp_file("c21-raw").and_then(|f| {
                if let Some(p) = f.path() {
                    paths.push(p.to_path_buf());
                }
                let w = f.open_writer()?;
                raw = Some((f, w));
                Ok(())
            }).map_err(|e| e.to_string()),
            Step::RawWrite(n) => match raw.as_mut() {
                Some((_, w)) => w.write(&vec![0x5au8; *n]).map(|_| ()).map_err(|e| e.to_string()),
                None => Err("no raw writer".into()),
            },
        };
        let u = dm.used_disk_space();
        out.max_used = out.max_used.max(u);
        match r {
            Ok(()) => out.used_after_step.push(u),
            Err(e) => {
                out.failed_step = Some(i);
                out.error = e.chars().take(160).collect();
                break;
            }
        }
    }
    after();
    out.used_after_failure = dm.used_disk_space();
    let lens: Vec<u64> = paths.iter().map(|p| std::fs::metadata(p).map(|m| m.len()).unwrap_or(0)).collect();
    out.live_bytes_after_failure = lens.iter().sum();
    out.largest_file = lens.iter().copied().max().unwrap_or(0);
    // release every handle
    open.clear();
    files.clear();
    drop(raw);
    out.used_after_drop = dm.used_disk_space();
    out.files_after_drop = files_in_spill_dirs(&dm).len();
    out
}

/// after a fault: the same DiskManager semantics must still work for a fresh file (round trip)
fn recovery_roundtrip(dir: &Path) -> Result<(), String> {
    let env = make_env(dir);
    let sm = make_sm(&env, schema(), CODECS[0], None);
    let b = batch(25, 7);
    let f = sm.spill_record_batch_and_finish(std::slice::from_ref(&b), "c21-recovery").map_err(|e| e.to_string())?.ok_or("no file")?;
    let got: Vec<RecordBatch> = with_rt(|rt| rt.block_on(async { sm.read_spill_as_stream_unbuffered(f, None)?.try_collect().await })).map_err(|e: datafusion_common::DataFusionError| e.to_string())?;
    if got.len() != 1 || crate::types::diff_batches(&b, &got[0]).is_some() {
        return Err("round trip after the fault differs".into());
    }
    Ok(())
}

// ---------------------------------------------------------------------------------------
// Child process: RLIMIT_FSIZE enumeration
// ---------------------------------------------------------------------------------------

fn set_fsize(cur: u64) {
    unsafe {
        let mut rl = libc::rlimit { rlim_cur: 0, rlim_max: 0 };
        libc::getrlimit(libc::RLIMIT_FSIZE, &mut rl);
        rl.rlim_cur = if cur == u64::MAX { rl.rlim_max } else { (cur as libc::rlim_t).min(rl.rlim_max) };
        libc::setrlimit(libc::RLIMIT_FSIZE, &rl);
    }
}

/// the grid of limits for a scenario whose largest file has `max_len` bytes
pub fn grid(max_len: u64, step: u64) -> Vec<u64> {
    let mut v: Vec<u64> = (0..=(max_len + 8) / step).map(|i| i * step).collect();
    // unaligned limits: the failing write(2) is preceded by a partial write
    v.extend([1, 3, 7, 13, max_len / 2 + 1, max_len.saturating_sub(3), max_len.saturating_sub(1)]);
    v.sort();
    v.dedup();
    v
}

pub fn child_main(kind: &str, args: &Args) -> i32 {
    if kind != "fsize" {
        eprintln!("unknown child kind {kind}");
        return 2;
    }
    unsafe {
        libc::signal(libc::SIGXFSZ, libc::SIG_IGN);
    }
    let scs = scenarios();
    let Some(sc) = scs.get(args.opt_u64("scenario", 0) as usize) else { return 2 };
    let dir = std::path::PathBuf::from(args.opt_str("dir").unwrap_or("/tmp"));
    let step = args.opt_u64("step", 4).max(1);
    let noop = || {};
    // fault-free run: the file sizes
    let base = run_scenario(sc, &dir, None, &noop, &noop);
    println!("BASE {}", base.to_json());
    let only = args.opt_str("only").and_then(|x| x.parse::<u64>().ok());
    for s in grid(base.largest_file, step) {
        if only.is_some_and(|o| o != s) {
            continue;
        }
        let out = run_scenario(sc, &dir, None, &|| set_fsize(s), &|| set_fsize(u64::MAX));
        let rec = if out.failed_step.is_some() { recovery_roundtrip(&dir).err() } else { None };
        println!("POINT {}", json!({"s": s, "out": out.to_json(), "recovery_error": rec}));
    }
    0
}

// ---------------------------------------------------------------------------------------
// Parent
// ---------------------------------------------------------------------------------------

fn judge(rep: &Report, sc: &Scn, kind: &str, s: u64, base: &ScnOut, out: &ScnOut, recovery_error: Option<String>) -> Option<(String, String)> {
    let sc_index = scenarios().iter().position(|x| x.name == sc.name).unwrap_or(0);
    let fpv = fp_mix(fp_mix(vcommon::fp_str(sc.name), vcommon::fp_str(kind)), s);
    let failed = out.failed_step.is_some();
    rep.case(fpv, failed);
    rep.count(&format!("c_points/{kind}"), 1);
    if !failed {
        rep.count(&format!("c_points_without_failure/{kind}"), 1);
    } else {
        rep.count(&format!("c_write_failures_injected/{kind}"), 1);
        rep.seen(&format!("c_failed_step/{kind}"), &format!("{} step {:02} {:?}", sc.name, out.failed_step.unwrap(), sc.steps[out.failed_step.unwrap()]));
    }
    let w = |what: String| {
        json!({"stage": "fault-enumeration", "fault": kind, "limit_bytes": s, "scenario": sc.name, "codec": CODECS[sc.codec].to_string(),
            "steps": sc.steps.iter().map(|x| format!("{x:?}")).collect::<Vec<_>>(), "fault_free_used_after_step": base.used_after_step,
            "failed_step": out.failed_step, "error": out.error, "used_disk_space_after_failure": out.used_after_failure,
            "live_file_bytes_after_failure": out.live_bytes_after_failure, "used_disk_space_after_dropping_every_handle": out.used_after_drop,
            "files_left_in_spill_dir": out.files_after_drop, "what": what, "expected": "used_disk_space() == 0 and an empty spill directory once every handle is dropped",
            "replay": {"kind": "fault", "scenario_index": sc_index, "fault": kind, "limit": s}})
    };
    let verdict: Option<(String, String)> = if out.used_after_drop != 0 {
        let sig = if kind == "rlimit_fsize" { "usage-leak-after-write-error" } else { "usage-leak-after-quota-rejection" };
        Some((sig.into(), format!("used_disk_space() = {} after every handle was dropped (the failing step was {:?})", out.used_after_drop, out.failed_step.map(|i| &sc.steps[i]))))
    } else if out.files_after_drop != 0 {
        Some(("spill-file-not-removed".into(), format!("{} file(s) left in the spill directory", out.files_after_drop)))
    } else if kind == "quota" && out.max_used > s {
        Some(("admitted-beyond-limit".into(), format!("used_disk_space() reached {} under a quota of {s}", out.max_used)))
    } else {
        recovery_error.map(|e| ("spill-unusable-after-write-error".to_string(), format!("a fresh spill after the fault failed: {e}")))
    };
    if let Some((sig, what)) = &verdict {
        rep.count(&format!("c_violations/{sig}"), 1);
        report_violation(rep, sig, w(what.clone()));
    }
    rep.max(&format!("c_max_used_vs_limit/{kind}"), out.max_used);
    verdict
}

pub fn fault_stage(rep: &Report, args: &Args, root: &Path) {
    let scs = scenarios();
    let step = args.bound("c_step", 4, 1);
    let exe = std::env::current_exe().expect("current exe");
    // --- RLIMIT_FSIZE: one child process per scenario
    vcommon::par::run(args.workers, scs.iter().enumerate(), |(i, sc)| {
        let dir = root.join(format!("child{i}"));
        let _ = std::fs::create_dir_all(&dir);
        let o = std::process::Command::new(&exe)
            .args(["C21", "--opt", "child=fsize", "--opt", &format!("scenario={i}"), "--opt", &format!("step={step}"), "--opt", &format!("dir={}", dir.display())])
            .output();
        let Ok(o) = o else {
            rep.inconclusive("could not spawn the RLIMIT_FSIZE child process");
            return;
        };
        let text = String::from_utf8_lossy(&o.stdout);
        let mut base: Option<ScnOut> = None;
        let mut points = 0;
        for line in text.lines() {
            if let Some(j) = line.strip_prefix("BASE ") {
                base = vcommon::serde_json_parse(j).ok().map(|v| ScnOut::from_json(&v));
            } else if let Some(j) = line.strip_prefix("POINT ") {
                let (Some(b), Ok(v)) = (&base, vcommon::serde_json_parse(j)) else { continue };
                let s = v.get("s").and_then(|x| x.as_u64()).unwrap_or(0);
                let out = ScnOut::from_json(v.get("out").unwrap_or(&Json::Null));
                let rec = v.get("recovery_error").and_then(|x| x.as_str()).map(|x| x.to_string());
                let _ = judge(rep, sc, "rlimit_fsize", s, b, &out, rec);
                points += 1;
            }
        }
        if !o.status.success() || points == 0 {
            rep.inconclusive(&format!("RLIMIT_FSIZE child for scenario {} exited with {:?} after {points} points: {}", sc.name, o.status.code(), String::from_utf8_lossy(&o.stderr).chars().take(300).collect::<String>()));
        }
        if let Some(b) = &base {
            if b.failed_step.is_some() || b.used_after_drop != 0 {
                report_violation(rep, "fault-free-scenario-failed", json!({"scenario": sc.name, "out": b.to_json()}));
            }
            if i == 0 {
                rep.sample(json!({"stage": "fault-enumeration", "scenario": sc.name, "steps": sc.steps.iter().map(|x| format!("{x:?}")).collect::<Vec<_>>(), "fault_free_used_after_step": b.used_after_step, "largest_file_bytes": b.largest_file, "limits_enumerated": points}));
            }
        }
    });
    // --- quota: in-process, same grid over the total usage
    vcommon::par::run(args.workers, scs.iter().enumerate(), |(i, sc)| {
        let dir = root.join(format!("quota{i}"));
        let _ = std::fs::create_dir_all(&dir);
        let noop = || {};
        let base = run_scenario(sc, &dir, None, &noop, &noop);
        for q in grid(base.max_used, step) {
            let out = run_scenario(sc, &dir, Some(q), &noop, &noop);
            let rec = if out.failed_step.is_some() { recovery_roundtrip(&dir).err() } else { None };
            let _ = judge(rep, sc, "quota", q, &base, &out, rec);
        }
    });
    for kind in ["rlimit_fsize", "quota"] {
        rep.obligation(&format!("write-failures-injected/{kind}"), rep.get_count(&format!("c_write_failures_injected/{kind}")) > 0, "the fault must have made writes fail");
    }
}

/// `--opt repro=1`: minimal standalone reproduction of the usage leak (run it in a throw-away process)
pub fn repro(args: &Args) -> i32 {
    unsafe {
        libc::signal(libc::SIGXFSZ, libc::SIG_IGN);
    }
    let root = crate::scratch_root("c21-repro", args.opt_str("tmp"));
    let env = make_env(&root);
    let sm = make_sm(&env, schema(), CODECS[0], None);
    let dm = env.disk_manager.clone();
    let mut f = sm.create_in_progress_file("repro").unwrap();
    f.append_batch(&batch(20, 1)).unwrap();
    println!("append #1 -> Ok     used_disk_space={} file_len={}", dm.used_disk_space(), std::fs::metadata(f.file().unwrap().path().unwrap()).unwrap().len());
    // nothing is printed while the limit is in force: stdout may be a regular file
    set_fsize(2000);
    let mut k = 1;
    let mut lines = vec![];
    let err = loop {
        k += 1;
        match f.append_batch(&batch(20, k)) {
            Ok(_) => lines.push(format!("append #{k} -> Ok     used_disk_space={}", dm.used_disk_space())),
            Err(e) => break e,
        }
    };
    set_fsize(u64::MAX);
    for l in lines {
        println!("{l}");
    }
    println!("append #{k} (RLIMIT_FSIZE=2000, SIGXFSZ ignored) -> Err({})", err.to_string().chars().take(80).collect::<String>());
    println!("after the failure: used_disk_space={} file_len={}", dm.used_disk_space(), std::fs::metadata(f.file().unwrap().path().unwrap()).unwrap().len());
    drop(f);
    let left = dm.used_disk_space();
    println!("after dropping every handle: used_disk_space={left} files_in_spill_dir={}", files_in_spill_dirs(&dm).len());
    let _ = std::fs::remove_dir_all(&root);
    if left != 0 {
        println!("LEAK: {left} bytes stay charged forever (usage-leak-after-write-error)");
        1
    } else {
        println!("OK: usage returned to 0");
        0
    }
}

/// `--opt repro=2`: a zero-row slice of a run-end encoded array is written but cannot be read back
pub fn repro_ree(args: &Args) -> i32 {
    use arrow::array::{Array, Int32Array, RunArray, StringArray};
    use arrow::datatypes::{Field, Int32Type, Schema};
    let root = crate::scratch_root("c21-repro", args.opt_str("tmp"));
    let env = make_env(&root);
    let ree = RunArray::<Int32Type>::try_new(&Int32Array::from(vec![2, 5]), &StringArray::from(vec!["a", "b"])).unwrap();
    let schema = Arc::new(Schema::new(vec![Field::new("c", ree.data_type().clone(), true)]));
    let sm = make_sm(&env, schema.clone(), CODECS[0], None);
    let mut code = 0;
    for (what, arr) in [("unsliced 5 rows", ree.slice(0, 5)), ("slice(1, 3)", ree.slice(1, 3)), ("slice(1, 0)  [zero rows]", ree.slice(1, 0))] {
        let b = RecordBatch::try_new(schema.clone(), vec![Arc::new(arr)]).unwrap();
        let f = sm.spill_record_batch_and_finish(std::slice::from_ref(&b), "ree").unwrap().unwrap();
        let r: datafusion_common::Result<Vec<RecordBatch>> = with_rt(|rt| rt.block_on(async { sm.read_spill_as_stream(f, None)?.try_collect().await }));
        match r {
            Ok(g) => println!("{what}: written, read back {} batch(es), equal={}", g.len(), g.len() == 1 && crate::types::diff_batches(&b, &g[0]).is_none()),
            Err(e) => {
                println!("{what}: written OK, read back FAILS: {e}");
                code = 1;
            }
        }
    }
    let _ = std::fs::remove_dir_all(&root);
    code
}

/// `--replay` of one fault point. Some(verdict) when it could be re-executed.
pub fn replay_point(r: &Json, root: &Path) -> Option<Option<(String, String)>> {
    let scs = scenarios();
    let i = r.get("scenario_index")?.as_u64()? as usize;
    let sc = scs.get(i)?;
    let kind = r.get("fault")?.as_str()?;
    let limit = r.get("limit")?.as_u64()?;
    let rep = Report::new("C21", "fault_enumeration", &Args::parse_from(&["C21".to_string(), "--evidence".to_string(), "-".to_string()]));
    println!("scenario {} steps {:?}; fault {kind} limit {limit}", sc.name, sc.steps);
    let noop = || {};
    if kind == "quota" {
        let base = run_scenario(sc, root, None, &noop, &noop);
        let out = run_scenario(sc, root, Some(limit), &noop, &noop);
        println!("{}", out.to_json());
        return Some(judge(&rep, sc, kind, limit, &base, &out, None));
    }
    let exe = std::env::current_exe().ok()?;
    let o = std::process::Command::new(exe)
        .args(["C21", "--opt", "child=fsize", "--opt", &format!("scenario={i}"), "--opt", "step=1", "--opt", &format!("only={limit}"), "--opt", &format!("dir={}", root.display())])
        .output()
        .ok()?;
    let text = String::from_utf8_lossy(&o.stdout).to_string();
    let mut base = None;
    for line in text.lines() {
        if let Some(j) = line.strip_prefix("BASE ") {
            base = vcommon::serde_json_parse(j).ok().map(|v| ScnOut::from_json(&v));
        } else if let Some(j) = line.strip_prefix("POINT ") {
            let v = vcommon::serde_json_parse(j).ok()?;
            let out = ScnOut::from_json(v.get("out")?);
            println!("{}", out.to_json());
            return Some(judge(&rep, sc, kind, limit, base.as_ref()?, &out, v.get("recovery_error").and_then(|x| x.as_str()).map(|x| x.to_string())));
        }
    }
    None
}
