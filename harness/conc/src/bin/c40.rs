//! C40 (component part) — file caches honour their validity rules and stay within budget.
//!
//! Stage A: `DefaultCache<K, V>` with harness key/value types of chosen sizes and a mock
//!          `TimeProvider`, random histories checked after every operation against a sequential
//!          LRU + TTL + byte-budget model.
//! Stage B: the three concrete caches (file statistics, list-files, file metadata) obtained from
//!          `CacheManager`, driven with the documented get → `is_valid_for` → put protocol over a
//!          small simulated file world whose sizes / mtimes / e_tags change; same model, plus the
//!          validity oracles (no stale entry after a size or mtime change, no listing served after
//!          its TTL or after `drop_table_entries`).
//!
//! `object_store` / `chrono` are not dependencies of this crate: `ObjectMeta` and `Path` are reached
//! through type projections of public DataFusion types.

use datafusion_common::stats::Precision;
use datafusion_common::{Statistics, TableReference};
use datafusion_execution::cache::cache_manager::{
    CacheManager, CacheManagerConfig, CachedFileList, CachedFileMetadata, CachedFileMetadataEntry, FileMetadata, FileMetadataCache,
};
use datafusion_execution::cache::default_cache::{DefaultCache, TimeProvider};
use datafusion_execution::cache::{Cache, CacheKey, CacheValue, SchemaFingerprint, TableScopedPath};
use std::collections::BTreeMap;
use std::fmt::Debug;
use std::ops::Deref;
use std::sync::Arc;
use std::sync::atomic::{AtomicU64, Ordering};
use std::time::{Duration, Instant, UNIX_EPOCH};
use vcommon::par::guard;
use vcommon::{Args, Json, Report, Rng, fp_mix, fp_str, json};

trait KeyOf {
    type K;
}
impl<K: CacheKey, V: CacheValue> KeyOf for dyn Cache<K, V> {
    type K = K;
}
/// `object_store::path::Path`
type OPath = <FileMetadataCache as KeyOf>::K;
type MetaVec = <<CachedFileList as Deref>::Target as Deref>::Target;
/// `object_store::ObjectMeta`
type ObjectMeta = <MetaVec as IntoIterator>::Item;

/// `mtime_ticks` are 1/16 s ticks (plus a few nanoseconds): successive rewrites of a file usually
/// fall into the SAME wall-clock second and differ only in the sub-second part, which is what local
/// file systems and in-memory stores produce — validity must not be decided at coarser granularity.
fn mk_meta(path: &str, size: u64, mtime_ticks: u64, e_tag: Option<String>, version: Option<String>) -> ObjectMeta {
    let t = UNIX_EPOCH + Duration::from_secs(1_700_000_000 + mtime_ticks / 16) + Duration::from_nanos((mtime_ticks % 16) * 62_500_000 + mtime_ticks % 7);
    ObjectMeta { location: path.into(), last_modified: t.into(), size, e_tag, version }
}

// ---------------------------------------------------------------------------------------
// mock time
// ---------------------------------------------------------------------------------------

struct MockTime {
    base: Instant,
    off_ms: AtomicU64,
}
impl MockTime {
    fn new() -> Arc<MockTime> {
        Arc::new(MockTime { base: Instant::now(), off_ms: AtomicU64::new(0) })
    }
    fn at(&self, ms: u64) -> Instant {
        self.base + Duration::from_millis(ms)
    }
}
impl TimeProvider for MockTime {
    fn now(&self) -> Instant {
        self.at(self.off_ms.load(Ordering::SeqCst))
    }
}

// ---------------------------------------------------------------------------------------
// sequential LRU + TTL + byte budget model (documented behaviour of DefaultCache)
// ---------------------------------------------------------------------------------------

trait HVal: CacheValue + Debug {
    fn same(&self, other: &Self) -> bool;
}

struct MEntry<K, V> {
    k: K,
    v: V,
    /// expiry stamped at insertion (ms of mock time), None = never
    expires: Option<u64>,
}

/// what a returned `Option<V>` must be
enum Ret<V> {
    Exactly(Option<V>),
    /// the documentation leaves it open (entry already expired but not yet purged; zero-size put)
    Unchecked,
}

struct Model<K, V> {
    /// index 0 = least recently used
    lru: Vec<MEntry<K, V>>,
    limit: usize,
    ttl: Option<u64>,
    now: u64,
    evictions: u64,
    expirations: u64,
    rejected_zero: u64,
    rejected_large: u64,
    /// selftest 5 only: a deliberately wrong model in which contains_key refreshes recency
    touch_on_contains: bool,
}

impl<K: CacheKey, V: HVal> Model<K, V> {
    fn new(limit: usize, ttl: Option<u64>) -> Self {
        Model { lru: vec![], limit, ttl, now: 0, evictions: 0, expirations: 0, rejected_zero: 0, rejected_large: 0, touch_on_contains: false }
    }
    fn used(&self) -> usize {
        self.lru.iter().map(|e| e.k.size() + e.v.size()).sum()
    }
    fn pos(&self, k: &K) -> Option<usize> {
        self.lru.iter().position(|e| &e.k == k)
    }
    fn is_expired(&self, i: usize) -> bool {
        // "stamped onto each entry at insertion time and checked lazily on access"; the generator keeps
        // `now` and the stamps on different parities so the boundary instant never occurs
        self.lru[i].expires.is_some_and(|x| self.now > x)
    }
    /// `get`: expired entries are dropped; a hit becomes the most recently used
    fn get(&mut self, k: &K) -> Option<V> {
        let i = self.pos(k)?;
        if self.is_expired(i) {
            self.lru.remove(i);
            self.expirations += 1;
            return None;
        }
        let e = self.lru.remove(i);
        let v = e.v.clone();
        self.lru.push(e);
        Some(v)
    }
    /// `contains_key`: expired entries are dropped; does not affect the queue order
    fn contains(&mut self, k: &K) -> bool {
        match self.pos(k) {
            None => false,
            Some(i) if self.is_expired(i) => {
                self.lru.remove(i);
                self.expirations += 1;
                false
            }
            Some(i) => {
                if self.touch_on_contains {
                    let e = self.lru.remove(i);
                    self.lru.push(e);
                }
                true
            }
        }
    }
    fn take_old(&mut self, k: &K) -> Ret<V> {
        match self.pos(k) {
            None => Ret::Exactly(None),
            Some(i) => {
                let expired = self.is_expired(i);
                let e = self.lru.remove(i);
                if expired { Ret::Unchecked } else { Ret::Exactly(Some(e.v)) }
            }
        }
    }
    fn put(&mut self, k: &K, v: V) -> Ret<V> {
        let vs = v.size();
        if vs == 0 {
            // "Entries with size 0 are rejected"
            self.rejected_zero += 1;
            return Ret::Unchecked;
        }
        if k.size() + vs > self.limit {
            // "Inserts whose own size exceeds the limit are rejected (and any prior entry under the same key is removed)"
            self.rejected_large += 1;
            return self.take_old(k);
        }
        let old = self.take_old(k);
        let expires = self.ttl.map(|t| self.now + t);
        self.lru.push(MEntry { k: k.clone(), v, expires });
        self.evict();
        old
    }
    fn evict(&mut self) {
        // "Entries are evicted in least-recently-used order"
        while self.used() > self.limit && !self.lru.is_empty() {
            self.lru.remove(0);
            self.evictions += 1;
        }
    }
    fn remove(&mut self, k: &K) -> Ret<V> {
        self.take_old(k)
    }
    fn drop_table(&mut self, t: &TableReference) -> usize {
        let before = self.lru.len();
        self.lru.retain(|e| e.k.table_ref() != Some(t));
        before - self.lru.len()
    }
}

type Viol = (String, String);

#[derive(Default)]
struct Stats {
    ops: BTreeMap<&'static str, u64>,
    hits: u64,
    misses: u64,
    max_entry_hits: usize,
    max_len: usize,
    table_drops_removing: u64,
    stale_avoided: u64,
    valid_hits: u64,
    etag_only_hits: u64,
    list_ttl_misses: u64,
    prefix_checks: u64,
}

/// A real cache, its model and the per-operation oracle.
struct Rig<K: CacheKey, V: HVal> {
    cache: Arc<dyn Cache<K, V>>,
    /// `DefaultCache::memory_used` when we hold the concrete type
    mem_used: Option<Box<dyn Fn() -> usize>>,
    time: Option<Arc<MockTime>>,
    model: Model<K, V>,
    trace: Vec<String>,
    stats: Stats,
    fp: u64,
    /// selftest: corrupt the observed value at this step
    corrupt_at: Option<(usize, u64)>,
    steps: usize,
}

fn short(s: String) -> String {
    if s.len() > 160 { format!("{}…", s.chars().take(160).collect::<String>()) } else { s }
}

impl<K: CacheKey, V: HVal> Rig<K, V> {
    fn new(cache: Arc<dyn Cache<K, V>>, mem_used: Option<Box<dyn Fn() -> usize>>, time: Option<Arc<MockTime>>, limit: usize, ttl: Option<u64>) -> Self {
        Rig { cache, mem_used, time, model: Model::new(limit, ttl), trace: vec![], stats: Stats::default(), fp: 0, corrupt_at: None, steps: 0 }
    }
    fn note(&mut self, op: &'static str, line: String) {
        *self.stats.ops.entry(op).or_insert(0) += 1;
        self.fp = fp_mix(self.fp, fp_str(&line));
        self.trace.push(short(line));
        self.steps += 1;
    }
    fn call<R>(&mut self, what: &str, f: impl FnOnce(&dyn Cache<K, V>) -> R) -> Result<R, Viol> {
        let c = self.cache.clone();
        guard(move || f(&*c)).map_err(|m| ("panic".to_string(), format!("{what} panicked: {m}")))
    }
    fn cmp_ret(&self, what: &str, got: &Option<V>, want: &Ret<V>) -> Result<(), Viol> {
        let Ret::Exactly(w) = want else { return Ok(()) };
        let ok = match (got, w) {
            (None, None) => true,
            (Some(a), Some(b)) => a.same(b),
            _ => false,
        };
        if ok { Ok(()) } else { Err((format!("{what}-return-wrong"), format!("{what} returned {} but the previous live entry was {}", short(format!("{got:?}")), short(format!("{w:?}"))))) }
    }

    fn get(&mut self, k: &K) -> Result<Option<V>, Viol> {
        let was = self.model.pos(k).map(|i| self.model.is_expired(i));
        let want = self.model.get(k);
        let mut got = self.call("get", |c| c.get(k))?;
        if let Some((at, 2)) = self.corrupt_at {
            if self.steps >= at && got.is_some() {
                got = None;
                self.corrupt_at = None;
            }
        }
        self.note("get", format!("get({k:?}) -> {}", if got.is_some() { "Some" } else { "None" }));
        match (&got, &want) {
            (None, None) => self.stats.misses += 1,
            (Some(a), Some(b)) if a.same(b) => self.stats.hits += 1,
            (Some(a), None) => {
                let kind = match was {
                    Some(true) => "expired-entry-served",
                    Some(false) => "unreachable",
                    None => "evicted-or-removed-entry-served",
                };
                return Err((format!("get/{kind}"), format!("get({k:?}) returned {} but the model holds no live entry", short(format!("{a:?}")))));
            }
            (None, Some(b)) => return Err(("get/live-entry-missing".into(), format!("get({k:?}) returned None, the model expects {}", short(format!("{b:?}"))))),
            (Some(a), Some(b)) => return Err(("get/wrong-value".into(), format!("get({k:?}) returned {} expected {}", short(format!("{a:?}")), short(format!("{b:?}"))))),
        }
        self.check()?;
        Ok(got)
    }
    fn contains(&mut self, k: &K) -> Result<bool, Viol> {
        let want = self.model.contains(k);
        let got = self.call("contains_key", |c| c.contains_key(k))?;
        self.note("contains_key", format!("contains_key({k:?}) -> {got}"));
        if got != want {
            return Err(("contains-key-wrong".into(), format!("contains_key({k:?}) = {got}, model says {want}")));
        }
        self.check()?;
        Ok(got)
    }
    fn put(&mut self, k: &K, v: V) -> Result<(), Viol> {
        let line = format!("put({k:?}, {}) [key {}B value {}B]", short(format!("{v:?}")), k.size(), v.size());
        let want = self.model.put(k, v.clone());
        let got = self.call("put", |c| c.put(k, v))?;
        self.note("put", format!("{line} -> {}", if got.is_some() { "Some(old)" } else { "None" }));
        self.cmp_ret("put", &got, &want)?;
        self.check()
    }
    fn remove(&mut self, k: &K) -> Result<(), Viol> {
        let want = self.model.remove(k);
        let got = self.call("remove", |c| c.remove(k))?;
        self.note("remove", format!("remove({k:?}) -> {}", if got.is_some() { "Some" } else { "None" }));
        self.cmp_ret("remove", &got, &want)?;
        self.check()
    }
    fn clear(&mut self) -> Result<(), Viol> {
        self.model.lru.clear();
        self.call("clear", |c| c.clear())?;
        self.note("clear", "clear()".into());
        self.check()
    }
    fn set_limit(&mut self, n: usize) -> Result<(), Viol> {
        self.model.limit = n;
        self.model.evict();
        self.call("update_cache_limit", |c| c.update_cache_limit(n))?;
        self.note("update_cache_limit", format!("update_cache_limit({n})"));
        self.check()
    }
    fn set_ttl(&mut self, ttl: Option<u64>) -> Result<(), Viol> {
        // "Change the TTL applied to subsequent inserts"
        self.model.ttl = ttl;
        self.call("update_cache_ttl", |c| c.update_cache_ttl(ttl.map(Duration::from_millis)))?;
        self.note("update_cache_ttl", format!("update_cache_ttl({ttl:?} ms)"));
        self.check()
    }
    fn advance(&mut self, ms: u64) -> Result<(), Viol> {
        self.model.now += ms;
        if let Some(t) = &self.time {
            t.off_ms.store(self.model.now, Ordering::SeqCst);
        }
        self.note("advance_time", format!("advance({ms} ms) now={}", self.model.now));
        self.check()
    }
    fn drop_table(&mut self, t: &TableReference) -> Result<(), Viol> {
        let n = self.model.drop_table(t);
        if n > 0 {
            self.stats.table_drops_removing += 1;
        }
        let r = self.call("drop_table_entries", |c| c.drop_table_entries(t))?;
        self.note("drop_table_entries", format!("drop_table_entries({t}) -> {}", if r.is_ok() { "Ok" } else { "Err" }));
        if let Err(e) = r {
            return Err(("drop-table-entries-failed".into(), format!("drop_table_entries({t}) returned {e}")));
        }
        self.check()
    }

    /// after every operation: accounting, budget, length, contents, configuration read-back
    fn check(&mut self) -> Result<(), Viol> {
        let (entries, len, empty, limit, ttl) = self.call("list_entries/len", |c| (c.list_entries(), c.len(), c.is_empty(), c.cache_limit(), c.cache_ttl()))?;
        let mut mem = self.mem_used.as_ref().map(|f| f());
        if let (Some((at, 1)), Some(m)) = (self.corrupt_at, mem.as_mut()) {
            if self.steps >= at {
                *m += 1;
                self.corrupt_at = None;
            }
        }
        let mut len = len;
        if let Some((at, 3)) = self.corrupt_at {
            if self.steps >= at {
                len += 1;
                self.corrupt_at = None;
            }
        }
        let sum: usize = entries.iter().map(|(k, i)| k.size() + i.size_bytes).sum();
        self.stats.max_len = self.stats.max_len.max(len);
        self.stats.max_entry_hits = self.stats.max_entry_hits.max(entries.values().map(|i| i.hits).max().unwrap_or(0));
        if let Some(m) = mem {
            if m != sum {
                return Err(("memory-used-not-sum-of-entries".into(), format!("memory_used()={m} but list_entries() sizes (key+value) sum to {sum}")));
            }
            if m > limit {
                return Err(("memory-used-above-limit".into(), format!("memory_used()={m} > cache_limit()={limit}")));
            }
        }
        if sum > limit {
            return Err(("memory-used-above-limit".into(), format!("entries sum to {sum} bytes > cache_limit()={limit}")));
        }
        if limit != self.model.limit {
            return Err(("cache-limit-readback".into(), format!("cache_limit()={limit}, last configured {}", self.model.limit)));
        }
        if ttl != self.model.ttl.map(Duration::from_millis) {
            return Err(("cache-ttl-readback".into(), format!("cache_ttl()={ttl:?}, last configured {:?} ms", self.model.ttl)));
        }
        if len != self.model.lru.len() || entries.len() != len || empty != (len == 0) {
            return Err(("len-disagrees".into(), format!("len()={len} is_empty()={empty} list_entries().len()={} model holds {} entries", entries.len(), self.model.lru.len())));
        }
        for e in &self.model.lru {
            let Some(info) = entries.get(&e.k) else {
                return Err(("entries-disagree".into(), format!("list_entries() lacks {:?} which the model holds", e.k)));
            };
            if !info.value.same(&e.v) {
                return Err(("entries-disagree".into(), format!("list_entries()[{:?}] = {} model {}", e.k, short(format!("{:?}", info.value)), short(format!("{:?}", e.v)))));
            }
            if info.size_bytes != e.v.size() {
                return Err(("entries-disagree".into(), format!("list_entries()[{:?}].size_bytes={} value.size()={}", e.k, info.size_bytes, e.v.size())));
            }
            match (&self.time, e.expires, info.expires) {
                (_, None, None) => {}
                (Some(t), Some(x), Some(got)) if t.at(x) == got => {}
                (None, Some(_), Some(_)) => {}
                (_, want, got) => {
                    return Err(("expiry-stamp-wrong".into(), format!("entry {:?}: expires={got:?}, expected insertion time + ttl = {want:?} ms of mock time", e.k)));
                }
            }
        }
        Ok(())
    }
}

// ---------------------------------------------------------------------------------------
// Stage A: DefaultCache with harness key / value types
// ---------------------------------------------------------------------------------------

#[derive(Clone, Debug, PartialEq, Eq, Hash)]
struct HKey {
    id: u8,
    size: usize,
    table: Option<TableReference>,
}
impl CacheKey for HKey {
    fn size(&self) -> usize {
        self.size
    }
    fn table_ref(&self) -> Option<&TableReference> {
        self.table.as_ref()
    }
}
#[derive(Clone, Debug, PartialEq)]
struct HV {
    tag: u32,
    size: usize,
}
impl CacheValue for HV {
    fn size(&self) -> usize {
        self.size
    }
}
impl HVal for HV {
    fn same(&self, o: &Self) -> bool {
        self == o
    }
}

const TTLS: [u64; 5] = [1, 5, 11, 51, 101]; // odd
const STEPS_MS: [u64; 7] = [0, 2, 4, 10, 50, 100, 200]; // even

struct CaseOut {
    kind: &'static str,
    fp: u64,
    nontrivial: bool,
    stats: Stats,
    model_counts: (u64, u64, u64, u64),
    trace: Vec<String>,
    setup: Json,
    violation: Option<Viol>,
}

fn finish_case<K: CacheKey, V: HVal>(kind: &'static str, rig: Rig<K, V>, setup: Json, violation: Option<Viol>) -> CaseOut {
    let m = &rig.model;
    CaseOut {
        kind,
        fp: fp_mix(fp_str(&setup.to_string()), rig.fp),
        nontrivial: rig.steps >= 5 && (rig.stats.hits > 0 || m.evictions + m.expirations > 0),
        model_counts: (m.evictions, m.expirations, m.rejected_zero, m.rejected_large),
        stats: rig.stats,
        trace: rig.trace,
        setup,
        violation,
    }
}

fn run_generic(rng: &mut Rng, max_ops: usize, selftest: u64) -> CaseOut {
    let limit = *rng.pick(&[0usize, 1, 10, 25, 50, 50, 100, 100, 100, 1000]);
    let ttl = if rng.chance(2, 5) { Some(*rng.pick(&TTLS)) } else { None };
    let tables = [TableReference::bare("t0"), TableReference::bare("t1")];
    let n_keys = 2 + rng.usize(5);
    let keys: Vec<HKey> = (0..n_keys)
        .map(|i| HKey { id: i as u8, size: *rng.pick(&[0usize, 1, 3, 8, 20]), table: match rng.below(3) { 0 => None, x => Some(tables[x as usize - 1].clone()) } })
        .collect();
    let time = MockTime::new();
    let dc = Arc::new(DefaultCache::<HKey, HV>::new_with_ttl(limit, ttl.map(Duration::from_millis)).with_time_provider(time.clone()).with_name("harness"));
    let dc2 = dc.clone();
    let setup = json!({"cache": "DefaultCache<HKey,HV>", "limit": limit, "ttl_ms": ttl, "keys": keys.iter().map(|k| format!("{k:?}")).collect::<Vec<_>>()});
    let mut rig = Rig::new(dc.clone() as Arc<dyn Cache<HKey, HV>>, Some(Box::new(move || dc2.memory_used())), Some(time), limit, ttl);
    let n_ops = 1 + rng.usize(max_ops);
    if selftest != 0 {
        rig.corrupt_at = Some((n_ops / 2, selftest));
        rig.model.touch_on_contains = selftest == 5;
    }
    let mut tag = 0u32;
    let res = (|| -> Result<(), Viol> {
        if dc.name() != "harness" {
            return Err(("name-readback".into(), format!("name()={} after with_name(\"harness\")", dc.name())));
        }
        rig.check()?;
        for _ in 0..n_ops {
            let k = rng.pick(&keys).clone();
            match rng.weighted(&[30, 30, 8, 6, 1, 4, 4, 10, 5]) {
                0 => {
                    let lim = rig.model.limit;
                    let size = match rng.below(12) {
                        0 => 0,
                        1 => lim.saturating_sub(k.size),
                        2 => lim.saturating_sub(k.size) + 1,
                        3 => lim + 1,
                        4 => lim / 2,
                        5 => lim / 3 + 1,
                        _ => *rng.pick(&[1usize, 2, 5, 10, 17, 40]),
                    };
                    tag += 1;
                    rig.put(&k, HV { tag, size })?;
                }
                1 => {
                    rig.get(&k)?;
                }
                2 => {
                    rig.contains(&k)?;
                }
                3 => rig.remove(&k)?,
                4 => rig.clear()?,
                5 => {
                    let used = rig.model.used();
                    let n = match rng.below(6) {
                        0 => 0,
                        1 => used.saturating_sub(1),
                        2 => used,
                        3 => used / 2,
                        _ => *rng.pick(&[10usize, 25, 50, 100, 100, 1000]),
                    };
                    rig.set_limit(n)?
                }
                6 => rig.set_ttl(if rng.chance(1, 3) { None } else { Some(*rng.pick(&TTLS)) })?,
                7 => rig.advance(*rng.pick(&STEPS_MS))?,
                _ => rig.drop_table(rng.pick(&tables))?,
            }
        }
        Ok(())
    })();
    finish_case("DefaultCache<harness>", rig, setup, res.err())
}

// ---------------------------------------------------------------------------------------
// Stage B: the three concrete caches through CacheManager, over a simulated file world
// ---------------------------------------------------------------------------------------

impl HVal for CachedFileMetadata {
    fn same(&self, o: &Self) -> bool {
        self == o
    }
}
impl HVal for CachedFileList {
    fn same(&self, o: &Self) -> bool {
        self == o
    }
}
impl HVal for CachedFileMetadataEntry {
    fn same(&self, o: &Self) -> bool {
        self.meta == o.meta && Arc::ptr_eq(&self.file_metadata, &o.file_metadata)
    }
}

struct FakeFileMeta {
    tag: u64,
    size: usize,
}
impl FileMetadata for FakeFileMeta {
    fn as_any(&self) -> &dyn std::any::Any {
        self
    }
    fn memory_size(&self) -> usize {
        self.size
    }
    fn extra_info(&self) -> datafusion_common::HashMap<String, String> {
        Default::default()
    }
}

const PATHS: [(&str, usize); 5] = [("t0/a.parquet", 0), ("t0/p=1/b.parquet", 0), ("t0/p=10/c.parquet", 0), ("t1/a.parquet", 1), ("t1/x/d.parquet", 1)];

struct FileW {
    path: &'static str,
    table: usize,
    exists: bool,
    size: u64,
    mtime: u64,
    e_tag: Option<String>,
    version: Option<String>,
    /// bumped whenever the content (and therefore size or mtime) changes
    generation: u64,
}

struct World {
    files: Vec<FileW>,
    fresh: u64,
    schema: [usize; 2],
    tables: [TableReference; 2],
}

impl World {
    fn new(rng: &mut Rng) -> World {
        let mut w = World { files: vec![], fresh: 1000, schema: [0, 0], tables: [TableReference::bare("t0"), TableReference::partial("s", "t1")] };
        for (path, table) in PATHS {
            let (size, mtime) = (w.next(), w.next());
            w.files.push(FileW { path, table, exists: rng.chance(4, 5), size, mtime, e_tag: if rng.bool() { Some(format!("etag{}", rng.below(100))) } else { None }, version: if rng.chance(1, 4) { Some("v1".into()) } else { None }, generation: 0 });
        }
        w
    }
    /// a value never used before (sizes and mtimes never return to an earlier value: a rewrite that
    /// keeps both size and mtime is outside the guarantee and never generated)
    fn next(&mut self) -> u64 {
        self.fresh += 1 + self.fresh % 3;
        self.fresh
    }
    fn meta(&self, i: usize) -> ObjectMeta {
        let f = &self.files[i];
        mk_meta(f.path, f.size, f.mtime, f.e_tag.clone(), f.version.clone())
    }
    fn mutate(&mut self, i: usize, how: u64) -> &'static str {
        let (a, b) = (self.next(), self.next());
        let f = &mut self.files[i];
        match how {
            0 => {
                f.size = a;
                f.generation += 1;
                "size"
            }
            1 => {
                f.mtime = b;
                f.generation += 1;
                "mtime"
            }
            2 => {
                f.size = a;
                f.mtime = b;
                f.generation += 1;
                "size+mtime"
            }
            _ => {
                f.e_tag = Some(format!("etag{a}"));
                "e_tag-only"
            }
        }
    }
    fn listing(&self, table: usize, rng: &mut Rng) -> Vec<ObjectMeta> {
        let idx: Vec<usize> = (0..self.files.len()).filter(|i| self.files[*i].table == table && self.files[*i].exists).collect();
        let mut v = Vec::with_capacity(idx.len() + rng.usize(3));
        for i in idx {
            v.push(self.meta(i));
        }
        v
    }
}

fn schemas() -> [Arc<SchemaFingerprint>; 2] {
    use arrow::datatypes::{DataType, Field, Schema};
    let a = Schema::new(vec![Field::new("a", DataType::Int32, true), Field::new("b", DataType::Utf8, true)]);
    let b = Schema::new(vec![Field::new("a", DataType::Int32, true), Field::new("b", DataType::Utf8, true), Field::new("c", DataType::Float64, false)]);
    [Arc::new(SchemaFingerprint::from_schema(&a)), Arc::new(SchemaFingerprint::from_schema(&b))]
}

fn stats_for(schema_idx: usize, tag: usize) -> Arc<Statistics> {
    use arrow::datatypes::{DataType, Field, Schema};
    let fields: Vec<Field> = (0..2 + schema_idx).map(|i| Field::new(format!("c{i}"), DataType::Int32, true)).collect();
    let mut s = Statistics::new_unknown(&Schema::new(fields));
    s.num_rows = Precision::Exact(tag);
    Arc::new(s)
}

/// common direct cache operations of the concrete-cache histories
fn direct_op<K: CacheKey, V: HVal>(rig: &mut Rig<K, V>, rng: &mut Rng, keys: &[K], tables: &[TableReference; 2], unit: usize) -> Result<(), Viol> {
    let has_clock = rig.time.is_some();
    match rng.weighted(&[4, 4, 1, 5, 6, if has_clock { 4 } else { 0 }, if has_clock { 10 } else { 0 }]) {
        0 => rig.remove(rng.pick(keys)),
        1 => rig.contains(rng.pick(keys)).map(|_| ()),
        2 => rig.clear(),
        3 => {
            let used = rig.model.used();
            let n = match rng.below(6) {
                0 => used.saturating_sub(1),
                1 => used / 2,
                2 => unit.saturating_sub(1),
                3 => unit * 2 + unit / 2,
                4 => unit * 4,
                _ => unit * 50,
            };
            rig.set_limit(n)
        }
        4 => rig.drop_table(rng.pick(tables)),
        5 => rig.set_ttl(if rng.chance(1, 3) { None } else { Some(*rng.pick(&TTLS)) }),
        _ => rig.advance(*rng.pick(&STEPS_MS)),
    }
}

fn pick_limit(rng: &mut Rng, unit: usize) -> usize {
    match rng.below(6) {
        0 => unit.saturating_sub(1).max(1),
        1 => unit + unit / 4,
        2 | 3 => unit * 2 + unit / 2,
        4 => unit * 4,
        _ => unit * 100,
    }
}

fn manager_err(e: impl std::fmt::Display) -> Viol {
    ("cache-manager-construction".into(), format!("CacheManager::try_new failed: {e}"))
}

fn run_stats(rng: &mut Rng, max_ops: usize, selftest: u64) -> CaseOut {
    let mut world = World::new(rng);
    let fps = schemas();
    let key_of = |w: &World, i: usize, scoped: bool| TableScopedPath { table: if scoped { Some(w.tables[w.files[i].table].clone()) } else { None }, path: w.files[i].path.into() };
    let sample_key = key_of(&world, 1, true);
    let sample_val = CachedFileMetadata::new(world.meta(1), fps[0].clone(), stats_for(0, 0), None);
    let unit = CacheKey::size(&sample_key) + CacheValue::size(&sample_val);
    let limit = pick_limit(rng, unit);
    let injected = rng.chance(2, 3);
    let time = MockTime::new();
    let mut config = CacheManagerConfig::default().with_file_statistics_cache_limit(limit);
    let mut mem: Option<Box<dyn Fn() -> usize>> = None;
    if injected {
        let dc = Arc::new(DefaultCache::<TableScopedPath, CachedFileMetadata>::new(1).with_time_provider(time.clone()));
        let dc2 = dc.clone();
        mem = Some(Box::new(move || dc2.memory_used()));
        config = config.with_file_statistics_cache(Some(dc));
    }
    let setup = json!({"cache": "file statistics cache via CacheManager", "injected_default_cache_with_mock_time": injected, "limit": limit, "entry_unit_bytes": unit});
    let mgr = match CacheManager::try_new(&config) {
        Ok(m) => m,
        Err(e) => return CaseOut { kind: "FileStatisticsCache", fp: 0, nontrivial: false, stats: Stats::default(), model_counts: (0, 0, 0, 0), trace: vec![], setup, violation: Some(manager_err(e)) },
    };
    let Some(cache) = mgr.get_file_statistic_cache() else {
        return CaseOut { kind: "FileStatisticsCache", fp: 0, nontrivial: false, stats: Stats::default(), model_counts: (0, 0, 0, 0), trace: vec![], setup, violation: Some(("cache-manager-construction".into(), "no statistics cache although its limit is > 0".into())) };
    };
    let mut rig = Rig::new(cache, mem, injected.then(|| time.clone()), limit, None);
    let n_ops = 1 + rng.usize(max_ops);
    if selftest != 0 {
        rig.corrupt_at = Some((n_ops / 2, selftest));
    }
    let mut flip_valid = selftest == 4;
    let all_keys: Vec<TableScopedPath> = (0..PATHS.len()).flat_map(|i| [key_of(&world, i, true), key_of(&world, i, false)]).collect();
    // tag -> (file, generation, schema idx) of what was put
    let mut made: Vec<(usize, u64, usize)> = vec![];
    let tables = world.tables.clone();
    let res = (|| -> Result<(), Viol> {
        if mgr.get_file_statistic_cache_limit() != limit {
            return Err(("cache-limit-readback".into(), format!("get_file_statistic_cache_limit()={} configured {limit}", mgr.get_file_statistic_cache_limit())));
        }
        rig.check()?;
        for _ in 0..n_ops {
            match rng.weighted(&[45, 22, 4, 25]) {
                0 => {
                    let i = rng.usize(PATHS.len());
                    let key = key_of(&world, i, rng.chance(3, 4));
                    let cur = world.meta(i);
                    let sidx = world.schema[world.files[i].table];
                    let got = rig.get(&key)?;
                    let mut hit = false;
                    if let Some(c) = got {
                        let Precision::Exact(tag) = c.statistics.num_rows else { return Err(("get/wrong-value".into(), "cached statistics lost their tag".into())) };
                        let (file, generation, made_schema) = made[tag];
                        let mut valid = c.is_valid_for(&cur, &fps[sidx]);
                        if flip_valid {
                            valid = !valid;
                            flip_valid = false;
                        }
                        // "Returns true if the file size, last modified time, and schema match"
                        let want = c.meta.size == cur.size && c.meta.last_modified == cur.last_modified && made_schema == sidx;
                        if valid != want {
                            return Err(("is-valid-for-wrong".into(), format!("CachedFileMetadata::is_valid_for = {valid}: cached {:?} schema#{made_schema}, current {cur:?} schema#{sidx}", c.meta)));
                        }
                        if valid {
                            if file != i || generation != world.files[i].generation {
                                return Err(("stale-entry-served".into(), format!("lookup of {} (generation {}) accepted statistics computed for file #{file} generation {generation}", PATHS[i].0, world.files[i].generation)));
                            }
                            hit = true;
                            rig.stats.valid_hits += 1;
                            if c.meta.e_tag != cur.e_tag {
                                rig.stats.etag_only_hits += 1;
                            }
                        } else {
                            rig.stats.stale_avoided += 1;
                        }
                    }
                    if !hit {
                        made.push((i, world.files[i].generation, sidx));
                        rig.put(&key, CachedFileMetadata::new(cur, fps[sidx].clone(), stats_for(sidx, made.len() - 1), None))?;
                    }
                }
                1 => {
                    let i = rng.usize(PATHS.len());
                    let how = world.mutate(i, rng.below(4));
                    rig.note("world", format!("rewrite {} changing {how}", PATHS[i].0));
                }
                2 => {
                    let t = rng.usize(2);
                    world.schema[t] ^= 1;
                    rig.note("world", format!("table {t} now read with schema#{}", world.schema[t]));
                }
                _ => {
                    direct_op(&mut rig, rng, &all_keys, &tables, unit)?;
                    if mgr.get_file_statistic_cache_limit() != rig.model.limit {
                        return Err(("cache-limit-readback".into(), "get_file_statistic_cache_limit() differs from the configured limit".into()));
                    }
                }
            }
        }
        Ok(())
    })();
    finish_case("FileStatisticsCache", rig, setup, res.err())
}

fn run_meta(rng: &mut Rng, max_ops: usize, selftest: u64) -> CaseOut {
    let mut world = World::new(rng);
    let key_of = |i: usize| -> OPath { PATHS[i].0.into() };
    let unit = CacheKey::size(&key_of(1)) + 40;
    let limit = pick_limit(rng, unit);
    let injected = rng.chance(2, 3);
    let time = MockTime::new();
    let mut config = CacheManagerConfig::default().with_metadata_cache_limit(limit);
    let mut mem: Option<Box<dyn Fn() -> usize>> = None;
    if injected {
        let dc = Arc::new(DefaultCache::<OPath, CachedFileMetadataEntry>::new(1).with_time_provider(time.clone()));
        let dc2 = dc.clone();
        mem = Some(Box::new(move || dc2.memory_used()));
        config = config.with_file_metadata_cache(Some(dc));
    }
    let setup = json!({"cache": "file metadata cache via CacheManager", "injected_default_cache_with_mock_time": injected, "limit": limit, "entry_unit_bytes": unit});
    let mgr = match CacheManager::try_new(&config) {
        Ok(m) => m,
        Err(e) => return CaseOut { kind: "FileMetadataCache", fp: 0, nontrivial: false, stats: Stats::default(), model_counts: (0, 0, 0, 0), trace: vec![], setup, violation: Some(manager_err(e)) },
    };
    let mut rig = Rig::new(mgr.get_file_metadata_cache(), mem, injected.then(|| time.clone()), limit, None);
    let n_ops = 1 + rng.usize(max_ops);
    if selftest != 0 {
        rig.corrupt_at = Some((n_ops / 2, selftest));
    }
    let mut flip_valid = selftest == 4;
    let all_keys: Vec<OPath> = (0..PATHS.len()).map(key_of).collect();
    let mut made: Vec<(usize, u64)> = vec![];
    let tables = world.tables.clone();
    let res = (|| -> Result<(), Viol> {
        if mgr.get_metadata_cache_limit() != limit {
            return Err(("cache-limit-readback".into(), format!("get_metadata_cache_limit()={} configured {limit}", mgr.get_metadata_cache_limit())));
        }
        rig.check()?;
        for _ in 0..n_ops {
            match rng.weighted(&[45, 22, 25]) {
                0 => {
                    let i = rng.usize(PATHS.len());
                    let key = key_of(i);
                    let cur = world.meta(i);
                    let got = rig.get(&key)?;
                    let mut hit = false;
                    if let Some(c) = got {
                        let Some(fm) = c.file_metadata.as_any().downcast_ref::<FakeFileMeta>() else { return Err(("get/wrong-value".into(), "cached metadata is not the harness type".into())) };
                        let (file, generation) = made[fm.tag as usize];
                        let mut valid = c.is_valid_for(&cur);
                        if flip_valid {
                            valid = !valid;
                            flip_valid = false;
                        }
                        // "File metadata used for cache validation (size, last_modified)"
                        let want = c.meta.size == cur.size && c.meta.last_modified == cur.last_modified;
                        if valid != want {
                            return Err(("is-valid-for-wrong".into(), format!("CachedFileMetadataEntry::is_valid_for = {valid}: cached {:?}, current {cur:?}", c.meta)));
                        }
                        if valid {
                            if file != i || generation != world.files[i].generation {
                                return Err(("stale-entry-served".into(), format!("lookup of {} (generation {}) accepted metadata cached for file #{file} generation {generation}", PATHS[i].0, world.files[i].generation)));
                            }
                            hit = true;
                            rig.stats.valid_hits += 1;
                            if c.meta.e_tag != cur.e_tag {
                                rig.stats.etag_only_hits += 1;
                            }
                        } else {
                            rig.stats.stale_avoided += 1;
                        }
                    }
                    if !hit {
                        made.push((i, world.files[i].generation));
                        let lim = rig.model.limit;
                        let size = match rng.below(10) {
                            0 => 0,
                            1 => lim + 1,
                            2 => lim.saturating_sub(CacheKey::size(&key)),
                            _ => *rng.pick(&[10usize, 40, 40, 100]),
                        };
                        rig.put(&key, CachedFileMetadataEntry::new(cur, Arc::new(FakeFileMeta { tag: made.len() as u64 - 1, size })))?;
                    }
                }
                1 => {
                    let i = rng.usize(PATHS.len());
                    let how = world.mutate(i, rng.below(4));
                    rig.note("world", format!("rewrite {} changing {how}", PATHS[i].0));
                }
                _ => {
                    direct_op(&mut rig, rng, &all_keys, &tables, unit)?;
                    if mgr.get_metadata_cache_limit() != rig.model.limit {
                        return Err(("cache-limit-readback".into(), "get_metadata_cache_limit() differs from the configured limit".into()));
                    }
                }
            }
        }
        Ok(())
    })();
    finish_case("FileMetadataCache", rig, setup, res.err())
}

fn run_list(rng: &mut Rng, max_ops: usize, selftest: u64) -> CaseOut {
    let mut world = World::new(rng);
    let key_of = |w: &World, t: usize| TableScopedPath { table: Some(w.tables[t].clone()), path: ["t0", "t1"][t].into() };
    let sample = CachedFileList::new(vec![world.meta(0), world.meta(1), world.meta(2)]);
    let unit = CacheKey::size(&key_of(&world, 0)) + CacheValue::size(&sample);
    let limit = match rng.below(4) {
        0 => unit + unit / 2,
        1 => unit.saturating_sub(1).max(1),
        _ => unit * 10,
    };
    let injected = rng.chance(3, 4);
    let ttl = if injected && rng.chance(2, 3) { Some(*rng.pick(&TTLS)) } else { None };
    let own_ttl = if injected && rng.bool() { Some(*rng.pick(&TTLS)) } else { None };
    let time = MockTime::new();
    let mut config = CacheManagerConfig::default().with_list_files_cache_limit(limit).with_list_files_cache_ttl(ttl.map(Duration::from_millis));
    let mut mem: Option<Box<dyn Fn() -> usize>> = None;
    if injected {
        let dc = Arc::new(DefaultCache::<TableScopedPath, CachedFileList>::new_with_ttl(1, own_ttl.map(Duration::from_millis)).with_time_provider(time.clone()));
        let dc2 = dc.clone();
        mem = Some(Box::new(move || dc2.memory_used()));
        config = config.with_list_files_cache(Some(dc));
    }
    // "Only update TTL if explicitly set in config, otherwise preserve the cache's existing TTL"
    let eff_ttl = ttl.or(own_ttl);
    let setup = json!({"cache": "list files cache via CacheManager", "injected_default_cache_with_mock_time": injected, "limit": limit, "config_ttl_ms": ttl, "cache_own_ttl_ms": own_ttl, "entry_unit_bytes": unit});
    let mgr = match CacheManager::try_new(&config) {
        Ok(m) => m,
        Err(e) => return CaseOut { kind: "ListFilesCache", fp: 0, nontrivial: false, stats: Stats::default(), model_counts: (0, 0, 0, 0), trace: vec![], setup, violation: Some(manager_err(e)) },
    };
    let Some(cache) = mgr.get_list_files_cache() else {
        return CaseOut { kind: "ListFilesCache", fp: 0, nontrivial: false, stats: Stats::default(), model_counts: (0, 0, 0, 0), trace: vec![], setup, violation: Some(("cache-manager-construction".into(), "no list-files cache although its limit is > 0".into())) };
    };
    let mut rig = Rig::new(cache, mem, injected.then(|| time.clone()), limit, eff_ttl);
    let n_ops = 1 + rng.usize(max_ops);
    if selftest != 0 {
        rig.corrupt_at = Some((n_ops / 2, selftest));
    }
    let all_keys = [key_of(&world, 0), key_of(&world, 1)];
    let tables = world.tables.clone();
    let prefixes = ["t0", "t0/p=1", "t0/p=10", "t1/x", "t1", "nothing"];
    let res = (|| -> Result<(), Viol> {
        if mgr.get_list_files_cache_limit() != limit || mgr.get_list_files_cache_ttl() != eff_ttl.map(Duration::from_millis) {
            return Err(("cache-limit-readback".into(), format!("list cache limit/ttl getters = {}/{:?}, configured {limit}/{eff_ttl:?} ms", mgr.get_list_files_cache_limit(), mgr.get_list_files_cache_ttl())));
        }
        rig.check()?;
        for _ in 0..n_ops {
            match rng.weighted(&[40, 18, 30]) {
                0 => {
                    let t = rng.usize(2);
                    let key = key_of(&world, t);
                    let expired_before = rig.model.pos(&key).is_some_and(|i| rig.model.is_expired(i));
                    match rig.get(&key)? {
                        Some(list) => {
                            rig.stats.valid_hits += 1;
                            // prefix filtering of a served listing
                            let pfx = *rng.pick(&prefixes);
                            let p: OPath = pfx.into();
                            let got = list.files_matching_prefix(&Some(p));
                            rig.stats.prefix_checks += 1;
                            for m in got.iter() {
                                if !list.files.contains(m) || !m.location.as_ref().starts_with(pfx) {
                                    return Err(("prefix-filter-wrong".into(), format!("files_matching_prefix({pfx}) returned {:?} from listing {:?}", m.location, list.files.iter().map(|x| x.location.to_string()).collect::<Vec<_>>())));
                                }
                            }
                            for m in list.files.iter() {
                                if m.location.as_ref().starts_with(&format!("{pfx}/")) && !got.contains(m) {
                                    return Err(("prefix-filter-wrong".into(), format!("files_matching_prefix({pfx}) dropped {:?}", m.location)));
                                }
                            }
                            if list.files_matching_prefix(&None).as_ref() != list.files.as_ref() {
                                return Err(("prefix-filter-wrong".into(), "files_matching_prefix(None) is not the whole listing".into()));
                            }
                        }
                        None => {
                            if expired_before {
                                rig.stats.list_ttl_misses += 1;
                            }
                            let files = world.listing(t, rng);
                            rig.put(&key, CachedFileList::new(files))?;
                        }
                    }
                }
                1 => {
                    let i = rng.usize(PATHS.len());
                    if rng.bool() {
                        world.files[i].exists = !world.files[i].exists;
                        rig.note("world", format!("{} {}", if world.files[i].exists { "create" } else { "delete" }, PATHS[i].0));
                    } else {
                        let how = world.mutate(i, rng.below(4));
                        rig.note("world", format!("rewrite {} changing {how}", PATHS[i].0));
                    }
                }
                _ => {
                    direct_op(&mut rig, rng, &all_keys, &tables, unit)?;
                    if mgr.get_list_files_cache_limit() != rig.model.limit || mgr.get_list_files_cache_ttl() != rig.model.ttl.map(Duration::from_millis) {
                        return Err(("cache-limit-readback".into(), "list cache limit/ttl getters differ from the configured values".into()));
                    }
                }
            }
        }
        Ok(())
    })();
    finish_case("ListFilesCache", rig, setup, res.err())
}

// ---------------------------------------------------------------------------------------

fn record(rep: &Report, o: CaseOut) {
    rep.case(o.fp, o.nontrivial);
    rep.count(&format!("histories/{}", o.kind), 1);
    for (k, n) in &o.stats.ops {
        rep.count(&format!("ops/{k}"), *n);
    }
    rep.count("get_hits", o.stats.hits);
    rep.count("get_misses", o.stats.misses);
    rep.count("evictions_observed", o.model_counts.0);
    rep.count("ttl_expirations_observed", o.model_counts.1);
    rep.count("zero_size_puts_rejected", o.model_counts.2);
    rep.count("oversized_puts_rejected", o.model_counts.3);
    rep.count("drop_table_entries_removing_something", o.stats.table_drops_removing);
    rep.count(&format!("validity/{}/valid_hits", o.kind), o.stats.valid_hits);
    rep.count(&format!("validity/{}/stale_entries_rejected_by_is_valid_for", o.kind), o.stats.stale_avoided);
    rep.count("validity/hits_with_changed_e_tag_only", o.stats.etag_only_hits);
    rep.count("list_lookups_missing_because_ttl_expired", o.stats.list_ttl_misses);
    rep.count("prefix_filter_checks", o.stats.prefix_checks);
    rep.max("max_len_observed", o.stats.max_len as u64);
    rep.max("max_hits_of_one_entry_in_list_entries", o.stats.max_entry_hits as u64);
    if let Some((sig, what)) = o.violation {
        rep.violation(&format!("{sig}/{}", o.kind), json!({"cache": o.kind, "setup": o.setup, "history": o.trace, "what": what}));
    } else if o.trace.len() > 10 && o.model_counts.0 > 0 && rep.get_count(&format!("samples/{}", o.kind)) == 0 {
        rep.count(&format!("samples/{}", o.kind), 1);
        rep.sample(json!({"cache": o.kind, "setup": o.setup, "history_head": o.trace.iter().take(12).collect::<Vec<_>>() }));
    }
}

fn run(args: &Args) -> i32 {
    let rep = Report::new("C40", "exploration", args);
    rep.set_rule("case = one history (<= 60 ops) on one real cache: stage A DefaultCache<K,V> with harness keys (<= 6, sizes 0..20, table scoped or not) and values \
        (size 0, around the limit, above the limit) under a mock TimeProvider; stage B the file-statistics / list-files / file-metadata caches obtained from CacheManager \
        (own DefaultCache injected with mock time, or manager-created) driven by the documented get -> is_valid_for -> put protocol over 5 simulated files whose size, \
        mtime, e_tag and existence change. every op is followed by the full accounting/content comparison with the sequential LRU+TTL+budget model. \
        distinct = fingerprint of setup + op/outcome sequence; non-trivial = >= 5 ops with a cache hit, an eviction or an expiry");
    rep.assume("recency is updated by get and put and not by contains_key (LruQueue::get / put / peek docs); expiry is checked lazily on get / contains_key only");
    rep.assume("the return value of put/remove is not asserted when the previous entry had already expired, nor for rejected zero-size puts (left open by the docs); the exact expiry instant now == stamp is never generated");
    rep.assume("component stage only: the callers of is_valid_for in the listing table / parquet reader are exercised by the separate system stage");
    let selftest = args.opt_u64("selftest", 0);
    let miri = cfg!(miri) || args.stage == "miri";
    let reduce = if args.stage == "memcheck" { 10 } else { 1 };
    let workers = if miri { 1 } else { args.workers };
    let max_ops = if miri { 16 } else { 60 };

    let n_a = if miri { args.opt_u64("histories", 70) } else { args.bound("histories", 600_000, 20_000_000) / reduce };
    vcommon::par::run(workers, 0..n_a, |i| {
        if rep.violation_count() > 8 {
            return;
        }
        // the first histories are seed independent
        let mut rng = if i < 200 { Rng::derive(0, &[40, 0, i]) } else { Rng::derive(args.seed, &[40, 1, i]) };
        record(&rep, run_generic(&mut rng, max_ops, if i < 20 || selftest == 5 { selftest } else { 0 }));
    });
    let n_b = if miri { args.opt_u64("concrete", 30) } else { args.bound("concrete", 120_000, 4_000_000) / reduce };
    vcommon::par::run(workers, 0..n_b, |i| {
        if rep.violation_count() > 8 {
            return;
        }
        let mut rng = if i < 90 { Rng::derive(0, &[40, 2, i]) } else { Rng::derive(args.seed, &[40, 3, i]) };
        let st = if i < 30 { selftest } else { 0 };
        let o = match i % 3 {
            0 => run_stats(&mut rng, max_ops, st),
            1 => run_meta(&mut rng, max_ops, st),
            _ => run_list(&mut rng, max_ops, st),
        };
        record(&rep, o);
    });
    if !miri {
        for (name, key) in [
            ("evictions", "evictions_observed"),
            ("ttl-expiry", "ttl_expirations_observed"),
            ("zero-size-rejected", "zero_size_puts_rejected"),
            ("oversized-rejected", "oversized_puts_rejected"),
            ("drop-table", "drop_table_entries_removing_something"),
            ("stats-stale-rejected", "validity/FileStatisticsCache/stale_entries_rejected_by_is_valid_for"),
            ("meta-stale-rejected", "validity/FileMetadataCache/stale_entries_rejected_by_is_valid_for"),
            ("stats-valid-hit", "validity/FileStatisticsCache/valid_hits"),
            ("list-ttl-miss", "list_lookups_missing_because_ttl_expired"),
        ] {
            rep.obligation(name, rep.get_count(key) > 0, "must have been observed at least once");
        }
    }
    rep.finish()
}

fn main() {
    let args = Args::parse();
    vcommon::par::quiet_panics();
    std::process::exit(run(&args));
}
