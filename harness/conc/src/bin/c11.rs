//! C11: the strength-reduced remainder used by hash repartitioning is exact:
//! `reduced(h, d) == h % d` for every 64-bit hash `h` and every divisor `d >= 1`.
//!
//! Code under test (real, through the `verif_hooks` feature of datafusion-physical-plan):
//!   * `verif_hooks::reduced_partition_of(d, hashes)`  -> `StrengthReducedU64::new(d).partition_indices`
//!     (the production routing loop; allocates `d` buckets, so only for d <= 2^20 / a few ~2^22)
//!   * `verif_hooks::reduced_remainder(v, d)`          -> `StrengthReducedU64::new(d)` + `quotient`
//!     (every divisor, including the 64-bit ones)
//!   * public API: `BatchPartitioner::new_hash_partitioner(..).partition_iter / partition`
//!     against `create_hashes(.., REPARTITION_RANDOM_STATE) % n`
//!
//! Oracle: native `%` on u64. A panic inside the hooks (overflow checks are on in the verif
//! profile, so `value - quotient * divisor` wrapping shows up as a panic; a partition index
//! >= d shows up as an index panic) is a violation, because the property says the result *is*
//! `h % d`.
//!
//! Workload = stratified divisors x stratified values (see `divisor_strata` / `gen_values`),
//! then a seeded semi-structured random tail.

use arrow::array::{ArrayRef, Int64Array, RecordBatch, StringArray, UInt32Array};
use arrow::datatypes::{DataType, Field, Schema};
use datafusion_common::hash_utils::create_hashes;
use datafusion_physical_expr::expressions::Column;
use datafusion_physical_expr::PhysicalExpr;
use datafusion_physical_plan::metrics::Time;
use datafusion_physical_plan::repartition::verif_hooks::{reduced_partition_of, reduced_remainder};
use datafusion_physical_plan::repartition::{BatchPartitioner, REPARTITION_RANDOM_STATE};
use std::collections::HashSet;
use std::sync::atomic::{AtomicBool, Ordering};
use std::sync::Arc;
use vcommon::par::guard;
use vcommon::{fp_mix, json, Args, Report, Rng};

// ---------------------------------------------------------------------------------------
// strata
// ---------------------------------------------------------------------------------------

const DS: [&str; 9] = [
    "d=all-1..2^16",
    "d=2^k",
    "d=2^k+-1",
    "d=2^k+-small",
    "d=prime-near-2^32/48/63/64",
    "d=u64max-0..64",
    "d=random-per-bitlen",
    "d=tail-random",
    "d=all-2^16..2^20",
];
const D_SMALL: usize = 0;
const D_POW2: usize = 1;
const D_POW2PM1: usize = 2;
const D_POW2SMALL: usize = 3;
const D_PRIME: usize = 4;
const D_MAXEDGE: usize = 5;
const D_RANDBITS: usize = 6;
const D_TAIL: usize = 7;
const D_MID: usize = 8;

const VS: [&str; 8] = [
    "v=0,1,d-1,d,d+1",
    "v=k*d",
    "v=k*d-1",
    "v=k*d+1",
    "v=u64max-0..8",
    "v=random-per-bitlen",
    "v=random-uniform",
    "v=k*d+r",
];
const V_BASIC: u8 = 0;
const V_KD: u8 = 1;
const V_KDM1: u8 = 2;
const V_KDP1: u8 = 3;
const V_MAXEDGE: u8 = 4;
const V_RANDBITS: u8 = 5;
const V_UNIFORM: u8 = 6;
const V_KDR: u8 = 7;

fn bits(x: u64) -> u32 {
    64 - x.leading_zeros()
}

/// random value with exactly `b` significant bits (b in 1..=64)
fn rand_bits(rng: &mut Rng, b: u32) -> u64 {
    let top = 1u64 << (b - 1);
    if b == 1 {
        1
    } else {
        top | (rng.next_u64() & (top - 1))
    }
}

fn mulmod(a: u64, b: u64, m: u64) -> u64 {
    ((a as u128 * b as u128) % m as u128) as u64
}

fn powmod(mut a: u64, mut e: u64, m: u64) -> u64 {
    let mut r = 1u64;
    a %= m;
    while e > 0 {
        if e & 1 == 1 {
            r = mulmod(r, a, m);
        }
        a = mulmod(a, a, m);
        e >>= 1;
    }
    r
}

/// deterministic Miller-Rabin for u64
fn is_prime(n: u64) -> bool {
    if n < 2 {
        return false;
    }
    for p in [2u64, 3, 5, 7, 11, 13, 17, 19, 23, 29, 31, 37] {
        if n % p == 0 {
            return n == p;
        }
    }
    let mut d = n - 1;
    let mut s = 0;
    while d % 2 == 0 {
        d /= 2;
        s += 1;
    }
    'w: for a in [2u64, 3, 5, 7, 11, 13, 17, 19, 23, 29, 31, 37] {
        let mut x = powmod(a, d, n);
        if x == 1 || x == n - 1 {
            continue;
        }
        for _ in 0..s - 1 {
            x = mulmod(x, x, n);
            if x == n - 1 {
                continue 'w;
            }
        }
        return false;
    }
    true
}

fn primes_near(anchor: u64, each_side: usize) -> Vec<u64> {
    let mut out = vec![];
    let mut x = anchor;
    let mut n = 0;
    while n < each_side && x > 2 {
        x -= 1;
        if is_prime(x) {
            out.push(x);
            n += 1;
        }
    }
    let mut x = anchor;
    let mut n = 0;
    while n < each_side && x < u64::MAX {
        x += 1;
        if is_prime(x) {
            out.push(x);
            n += 1;
        }
    }
    out
}

/// The structured divisor strata (everything except "all small" and the tail).
fn divisor_strata(seed: u64, per_bitlen: usize, reduced: bool) -> Vec<(u64, usize)> {
    let mut out: Vec<(u64, usize)> = vec![];
    let step = if reduced { 7 } else { 1 };
    for k in (0..64u32).step_by(step) {
        let p = 1u64 << k;
        out.push((p, D_POW2));
        out.push((p.wrapping_add(1), D_POW2PM1));
        if p > 1 {
            out.push((p - 1, D_POW2PM1));
        }
        for s in [2u64, 3, 5, 7, 11, 13, 100, 255] {
            if !reduced || s == 3 {
                if let Some(x) = p.checked_add(s) {
                    out.push((x, D_POW2SMALL));
                }
                if p > s {
                    out.push((p - s, D_POW2SMALL));
                }
            }
        }
    }
    let each = if reduced { 1 } else { 4 };
    for anchor in [1u64 << 32, 1u64 << 48, 1u64 << 63] {
        for p in primes_near(anchor, each) {
            out.push((p, D_PRIME));
        }
    }
    // largest 64-bit primes (below 2^64)
    let mut x = u64::MAX;
    let mut n = 0;
    while n < each {
        if is_prime(x) {
            out.push((x, D_PRIME));
            n += 1;
        }
        x -= 1;
    }
    for i in (0..=64u64).step_by(if reduced { 16 } else { 1 }) {
        out.push((u64::MAX - i, D_MAXEDGE));
    }
    for b in (1..=64u32).step_by(step) {
        for j in 0..per_bitlen {
            let mut rng = Rng::derive(seed, &[11, 1, b as u64, j as u64]);
            out.push((rand_bits(&mut rng, b), D_RANDBITS));
        }
    }
    out.retain(|(d, _)| *d >= 1);
    out
}

/// Values for one divisor. `k_variants`: how many multipliers per bit length of k.
fn gen_values(d: u64, rng: &mut Rng, k_variants: usize, n_random: usize, out: &mut Vec<(u64, u8)>) {
    out.clear();
    out.push((0, V_BASIC));
    out.push((1, V_BASIC));
    out.push((d - 1, V_BASIC));
    out.push((d, V_BASIC));
    if let Some(x) = d.checked_add(1) {
        out.push((x, V_BASIC));
    }
    let kmax = u64::MAX / d; // floor((2^64-1)/d): the largest k with k*d representable
    let push_k = |k: u64, out: &mut Vec<(u64, u8)>| {
        if k == 0 || k > kmax {
            return;
        }
        let kd = k * d;
        out.push((kd, V_KD));
        out.push((kd - 1, V_KDM1));
        if let Some(x) = kd.checked_add(1) {
            out.push((x, V_KDP1));
        }
    };
    for b in 1..=bits(kmax) {
        // smallest k of this bit length, largest, and random ones
        push_k(1u64 << (b - 1), out);
        if k_variants >= 2 {
            push_k(rand_bits(rng, b).min(kmax), out);
        }
        if k_variants >= 3 {
            let largest = if b == 64 { u64::MAX } else { (1u64 << b) - 1 };
            push_k(largest.min(kmax), out);
        }
        for _ in 3..k_variants {
            push_k(rand_bits(rng, b).min(kmax), out);
        }
    }
    push_k(kmax, out);
    for i in 0..=8u64 {
        out.push((u64::MAX - i, V_MAXEDGE));
    }
    for i in 0..n_random {
        if i % 2 == 0 {
            out.push((rng.next_u64(), V_UNIFORM));
        } else {
            let b = 1 + rng.below(64) as u32;
            out.push((rand_bits(rng, b), V_RANDBITS));
        }
    }
}

// ---------------------------------------------------------------------------------------
// per-work-item accumulator (flushed once; keeps the Report mutex out of the hot loop)
// ---------------------------------------------------------------------------------------

struct Local {
    pairs: [[u64; VS.len()]; DS.len()],
    pairs_via_partition_indices: u64,
    pairs_via_remainder: u64,
    pairs_pow2_path: u64,
    pairs_reciprocal_path: u64,
    carry: [u64; 2],
    dbits: u64,
    vbits: u64,
    qbits: u64,
    max_div_partition_indices: u64,
    nontrivial: HashSet<u64>,
}

impl Local {
    fn new() -> Local {
        Local {
            pairs: [[0; VS.len()]; DS.len()],
            pairs_via_partition_indices: 0,
            pairs_via_remainder: 0,
            pairs_pow2_path: 0,
            pairs_reciprocal_path: 0,
            carry: [0; 2],
            dbits: 0,
            vbits: 0,
            qbits: 0,
            max_div_partition_indices: 0,
            nontrivial: HashSet::new(),
        }
    }

    fn flush(self, rep: &Report) {
        let mut total = 0;
        for (i, row) in self.pairs.iter().enumerate() {
            for (j, n) in row.iter().enumerate() {
                if *n > 0 {
                    rep.count(&format!("pairs/{}/{}", DS[i], VS[j]), *n);
                    total += n;
                }
            }
        }
        rep.cases(total);
        rep.count("path/partition_indices(production loop)", self.pairs_via_partition_indices);
        rep.count("path/quotient-remainder", self.pairs_via_remainder);
        rep.count("path/power-of-two-mask", self.pairs_pow2_path);
        rep.count("path/reciprocal", self.pairs_reciprocal_path);
        rep.count("reciprocal/low-product-carry=0", self.carry[0]);
        rep.count("reciprocal/low-product-carry=1", self.carry[1]);
        rep.max("max_divisor_through_partition_indices", self.max_div_partition_indices);
        for b in 0..64u32 {
            if self.dbits >> b & 1 == 1 {
                rep.seen("divisor_bit_lengths", &format!("{:02}", b + 1));
            }
            if self.vbits >> b & 1 == 1 {
                rep.seen("value_bit_lengths", &format!("{:02}", b + 1));
            }
            if self.qbits >> b & 1 == 1 {
                rep.seen("quotient_bit_lengths", &format!("{:02}", b + 1));
            }
        }
        for fp in self.nontrivial {
            rep.nontrivial(fp);
        }
    }
}

struct Ctx<'a> {
    rep: &'a Report,
    /// selftest: corrupt one observed value (first non-power-of-two pair that gets there)
    corrupt: &'a AtomicBool,
}

/// Check every value against divisor `d`, through the quotient/remainder hook and (if
/// `batch`) through the production `partition_indices` loop.
fn check_divisor(cx: &Ctx, d: u64, ds: usize, vals: &[(u64, u8)], batch: bool, remainder: bool, loc: &mut Local) {
    let pow2 = d.is_power_of_two();
    // same constants as the code under test, only to *classify* the pair (carry stratum)
    let recip: u128 = if pow2 { 0 } else { u128::MAX / d as u128 + 1 };
    let rlo = recip as u64;
    let rhi = (recip >> 64) as u64;
    loc.dbits |= 1u64 << (bits(d) - 1);
    let mut any_ge = false;
    for (v, vs) in vals {
        loc.pairs[ds][*vs as usize] += 1;
        if *v > 0 {
            loc.vbits |= 1u64 << (bits(*v) - 1);
        }
        let q = *v / d;
        if q > 0 {
            loc.qbits |= 1u64 << (bits(q) - 1);
            any_ge = true;
        }
        if pow2 {
            loc.pairs_pow2_path += 1;
        } else {
            loc.pairs_reciprocal_path += 1;
            let lowp = *v as u128 * rlo as u128;
            let highp = *v as u128 * rhi as u128;
            let carry = ((highp & u64::MAX as u128) + (lowp >> 64)) >> 64;
            loc.carry[(carry != 0) as usize] += 1;
        }
    }
    if !pow2 && any_ge {
        // rule: a distinct non-power-of-two divisor exercised with at least one value >= divisor
        loc.nontrivial.insert(fp_mix(0xC11, d));
    }

    let mut corrupt_now = !pow2 && cx.corrupt.swap(false, Ordering::Relaxed);

    if remainder {
        loc.pairs_via_remainder += vals.len() as u64;
        let c = corrupt_now;
        corrupt_now = false;
        let r = guard(|| {
            let mut bad: Vec<(u64, u64)> = vec![];
            for (i, (v, _)) in vals.iter().enumerate() {
                let mut o = reduced_remainder(*v, d);
                if c && i == vals.len() / 2 {
                    o = (o + 1) % d;
                }
                if o != *v % d && bad.len() < 3 {
                    bad.push((*v, o));
                }
            }
            bad
        });
        match r {
            Ok(bad) => {
                for (v, o) in bad {
                    cx.rep.violation(
                        "remainder-mismatch",
                        json!({"divisor": d.to_string(), "value": v.to_string(), "observed": o.to_string(),
                               "expected": (v % d).to_string(), "path": "reduced_remainder", "divisor_stratum": DS[ds]}),
                    );
                }
            }
            Err(_) => locate_panic(cx, d, ds, vals),
        }
    }

    if batch {
        loc.pairs_via_partition_indices += vals.len() as u64;
        loc.max_div_partition_indices = loc.max_div_partition_indices.max(d);
        let hashes: Vec<u64> = vals.iter().map(|x| x.0).collect();
        // The partition of a row may depend only on its own hash: the same values are also routed in
        // other positions (reversed, rotated so that every value leads a batch sooner or later, and as
        // one-row batches for the boundary values), which exposes state carried from row to row.
        {
            let mut orders: Vec<Vec<u64>> = vec![hashes.iter().rev().copied().collect()];
            if !hashes.is_empty() {
                let r = (d as usize ^ hashes.len()) % hashes.len();
                let mut rot = hashes.clone();
                rot.rotate_left(r);
                orders.push(rot);
            }
            for v in hashes.iter().filter(|v| **v >= u64::MAX - 8 || **v <= 1 || **v == d || **v == d - 1).take(16) {
                orders.push(vec![*v]);
            }
            let mut reported = 0;
            for hs in orders {
                loc.pairs_via_partition_indices += hs.len() as u64;
                if let Ok(got) = guard(|| reduced_partition_of(d, &hs)) {
                    for (i, v) in hs.iter().enumerate() {
                        let obs = got.get(i).copied().unwrap_or(u32::MAX);
                        if obs as u64 != *v % d && reported < 3 {
                            reported += 1;
                            cx.rep.violation(
                                "partition-index-mismatch",
                                json!({"divisor": d.to_string(), "value": v.to_string(), "observed_partition": obs,
                                       "expected": (*v % d).to_string(), "path": "partition_indices (re-ordered batch)", "position_in_batch": i,
                                       "batch_head": hs.iter().take(4).map(|x| x.to_string()).collect::<Vec<_>>(), "divisor_stratum": DS[ds]}),
                            );
                        }
                    }
                }
            }
        }
        match guard(|| reduced_partition_of(d, &hashes)) {
            Ok(mut got) => {
                if corrupt_now && !got.is_empty() {
                    let i = got.len() / 2;
                    got[i] = ((got[i] as u64 + 1) % d) as u32;
                }
                let mut reported = 0;
                for (i, v) in hashes.iter().enumerate() {
                    let exp = *v % d;
                    let obs = got.get(i).copied().unwrap_or(u32::MAX);
                    if obs as u64 != exp && reported < 3 {
                        reported += 1;
                        cx.rep.violation(
                            "partition-index-mismatch",
                            json!({"divisor": d.to_string(), "value": v.to_string(), "observed_partition": obs,
                                   "expected": exp.to_string(), "path": "partition_indices", "divisor_stratum": DS[ds],
                                   "note": "observed 4294967295 = the row was put in no partition"}),
                        );
                    }
                }
            }
            Err(msg) => {
                // find the offending value through the per-value path
                let before = cx.rep.violation_count();
                locate_panic(cx, d, ds, vals);
                if cx.rep.violation_count() == before {
                    cx.rep.violation(
                        "partition-indices-panic",
                        json!({"divisor": d.to_string(), "values": hashes.iter().take(64).map(|v| v.to_string()).collect::<Vec<_>>(),
                               "panic": msg, "divisor_stratum": DS[ds]}),
                    );
                }
            }
        }
    }
}

/// A batch panicked: replay value by value to produce a minimal witness.
fn locate_panic(cx: &Ctx, d: u64, ds: usize, vals: &[(u64, u8)]) {
    let mut reported = 0;
    for (v, _) in vals {
        match guard(|| reduced_remainder(*v, d)) {
            Err(msg) if reported < 3 => {
                reported += 1;
                cx.rep.violation(
                    "remainder-panic",
                    json!({"divisor": d.to_string(), "value": v.to_string(), "expected": (*v % d).to_string(),
                           "panic": msg, "divisor_stratum": DS[ds]}),
                );
            }
            Ok(o) if o != *v % d && reported < 3 => {
                reported += 1;
                cx.rep.violation(
                    "remainder-mismatch",
                    json!({"divisor": d.to_string(), "value": v.to_string(), "observed": o.to_string(),
                           "expected": (*v % d).to_string(), "path": "reduced_remainder", "divisor_stratum": DS[ds]}),
                );
            }
            _ => {}
        }
    }
}

// ---------------------------------------------------------------------------------------
// public API cross-check
// ---------------------------------------------------------------------------------------

fn public_api(cx: &Ctx, seed: u64, n: usize, rows: usize) {
    let rep = cx.rep;
    let mut rng = Rng::derive(seed, &[11, 9, n as u64]);
    let a: Vec<i64> = (0..rows).map(|_| rng.next_u64() as i64).collect();
    let b: Vec<String> = (0..rows).map(|_| format!("k{}", rng.below(1 << 20))).collect();
    let ids: Vec<u32> = (0..rows as u32).collect();
    let schema = Arc::new(Schema::new(vec![
        Field::new("a", DataType::Int64, false),
        Field::new("b", DataType::Utf8, false),
        Field::new("id", DataType::UInt32, false),
    ]));
    let cols: Vec<ArrayRef> =
        vec![Arc::new(Int64Array::from(a)), Arc::new(StringArray::from(b)), Arc::new(UInt32Array::from(ids))];
    let batch = match RecordBatch::try_new(schema, cols.clone()) {
        Ok(b) => b,
        Err(e) => {
            rep.skip(&format!("public-api: harness batch construction failed: {e}"));
            return;
        }
    };
    let keys: Vec<ArrayRef> = cols[..2].to_vec();
    let mut hashes = vec![0u64; rows];
    if let Err(e) = create_hashes(&keys, REPARTITION_RANDOM_STATE.random_state(), &mut hashes) {
        rep.skip(&format!("public-api: create_hashes failed: {e}"));
        return;
    }
    let exprs: Vec<Arc<dyn PhysicalExpr>> = vec![Arc::new(Column::new("a", 0)), Arc::new(Column::new("b", 1))];
    let use_iter = n % 2 == 0;
    let out = guard(|| -> Result<Vec<(usize, Vec<u32>)>, String> {
        let mut p = BatchPartitioner::new_hash_partitioner(exprs, n, Time::new()).map_err(|e| e.to_string())?;
        let mut got: Vec<(usize, Vec<u32>)> = vec![];
        let mut take = |part: usize, b: RecordBatch| {
            let idc = b.column(2).as_any().downcast_ref::<UInt32Array>().map(|x| x.values().to_vec()).unwrap_or_default();
            got.push((part, idc));
        };
        if use_iter {
            for r in p.partition_iter(batch).map_err(|e| e.to_string())? {
                let (part, b) = r.map_err(|e| e.to_string())?;
                take(part, b);
            }
        } else {
            p.partition(batch, |part, b| {
                take(part, b);
                Ok(())
            })
            .map_err(|e| e.to_string())?;
        }
        Ok(got)
    });
    let got = match out {
        Ok(Ok(g)) => g,
        Ok(Err(e)) => {
            rep.skip(&format!("public-api: partitioner returned an error: {e}"));
            return;
        }
        Err(msg) => {
            rep.violation(
                "public-api-panic",
                json!({"partitions": n, "rows": rows, "panic": msg, "hashes": hashes.iter().take(64).map(|h| h.to_string()).collect::<Vec<_>>()}),
            );
            return;
        }
    };
    let mut delivered = 0u64;
    let mut reported = 0;
    for (part, idc) in &got {
        for id in idc {
            delivered += 1;
            let h = hashes[*id as usize];
            let mut obs = *part as u64;
            if cx.corrupt.swap(false, Ordering::Relaxed) && n > 1 {
                obs = (obs + 1) % n as u64;
            }
            if obs != h % n as u64 && reported < 3 {
                reported += 1;
                rep.violation(
                    "public-api-partition-mismatch",
                    json!({"partitions": n, "row": id, "hash": h.to_string(), "observed_partition": obs,
                           "expected": (h % n as u64).to_string(), "api": if use_iter {"partition_iter"} else {"partition"}}),
                );
            }
        }
    }
    rep.cases(delivered);
    rep.count("pairs/public-api BatchPartitioner/v=create_hashes(seed 0)", delivered);
    rep.count(if use_iter { "public-api/partition_iter calls" } else { "public-api/partition calls" }, 1);
    rep.count("public-api/rows sent", rows as u64);
    rep.count("public-api/rows delivered", delivered);
    if n > 1 && !n.is_power_of_two() {
        rep.nontrivial(fp_mix(0xC11, n as u64));
    }
}

// ---------------------------------------------------------------------------------------
// plan
// ---------------------------------------------------------------------------------------

enum Work {
    /// all divisors in lo..hi through partition_indices (+ remainder hook)
    Small { lo: u64, hi: u64, kv: usize, nrand: usize },
    /// all divisors in lo..hi through the remainder hook; every `batch_every`-th also batched
    Mid { lo: u64, hi: u64, nrand: usize, batch_every: u64 },
    Structured { divs: Vec<(u64, usize)>, kv: usize, nrand: usize, batch_max: u64 },
    Tail { chunk: u64, divisors: usize, values: usize },
    Public { lo: usize, hi: usize, rows: usize },
}

fn run(args: &Args) -> i32 {
    let rep = Report::new("C11", "exploration", args);
    rep.set_rule(
        "evaluations = (hash value, divisor) pairs compared against native u64 `%`. Pairs are generated per divisor: \
         divisor strata {all 1..2^16, 2^k, 2^k+-1, 2^k+-small, primes near 2^32/2^48/2^63/2^64, u64::MAX-0..64, random of every bit length, random tail} x \
         value strata {0,1,d-1,d,d+1; k*d-1,k*d,k*d+1 for k of every bit length up to floor((2^64-1)/d); u64::MAX-0..8; random per bit length; uniform}. \
         distinct_nontrivial = number of distinct NON-power-of-two divisors (reciprocal path) that were exercised with at least one value >= divisor (quotient >= 1); \
         power-of-two divisors and divisors only seen with values < d are counted in evaluations but are trivial.",
    );
    rep.assume("oracle: Rust's native u64 `%` is exact");
    rep.assume("verif_hooks::{reduced_partition_of, reduced_remainder} call the production StrengthReducedU64::new / partition_indices / quotient unchanged (read in repartition/mod.rs)");
    rep.assume("public-API cross-check trusts datafusion_common::hash_utils::create_hashes + REPARTITION_RANDOM_STATE to be the hash the partitioner uses (that is what partition_iter calls)");

    let miri = args.stage == "miri";
    let reduced = !args.stage.is_empty();
    let selftest = args.opt_u64("selftest", 0) == 1;
    let corrupt = AtomicBool::new(selftest);
    let cx = Ctx { rep: &rep, corrupt: &corrupt };
    let seed = args.seed;
    let thorough = args.tier == vcommon::Tier::Thorough;

    let mut plan: Vec<Work> = vec![];
    if miri {
        // ~1e4 pairs, single threaded
        plan.push(Work::Small { lo: 1, hi: 41, kv: 1, nrand: 4 });
        plan.push(Work::Structured { divs: divisor_strata(seed, 1, true), kv: 1, nrand: 4, batch_max: 64 });
        plan.push(Work::Tail { chunk: 0, divisors: 40, values: 20 });
        plan.push(Work::Public { lo: 1, hi: 8, rows: 8 });
    } else {
        let scale = if reduced { 10 } else { 1 };
        // (1) every divisor 1..2^16 through the production loop
        let small_hi: u64 = (1 << 16) / scale;
        let (kv, nrand) = if thorough { (6, 2000) } else { (2, 24) };
        let step = 512;
        let mut lo = 1;
        while lo < small_hi {
            plan.push(Work::Small { lo, hi: (lo + step).min(small_hi), kv, nrand });
            lo += step;
        }
        // (2) structured divisors
        let divs = divisor_strata(seed, if thorough { 64 } else { 8 }, reduced);
        let (kv, nrand) = if thorough { (8, 20_000) } else { (3, 1000) };
        let batch_max: u64 = if thorough { (1 << 22) + 16 } else { (1 << 20) + 16 };
        for c in divs.chunks(16) {
            plan.push(Work::Structured { divs: c.to_vec(), kv, nrand, batch_max });
        }
        // (3) thorough: every divisor up to 2^20 through the remainder hook, 1/16 batched
        if thorough {
            let mut lo = 1u64 << 16;
            while lo < (1 << 20) {
                plan.push(Work::Mid { lo, hi: lo + 2048, nrand: 16, batch_every: if lo < (1 << 17) { 1 } else { 16 } });
                lo += 2048;
            }
        }
        // (4) public API, n = 1..=4096
        let pub_hi: usize = 4096 / scale as usize;
        let rows = args.bound("public_rows", 64, 1024) as usize;
        let mut lo = 1;
        while lo <= pub_hi {
            plan.push(Work::Public { lo, hi: (lo + 128).min(pub_hi + 1), rows });
            lo += 128;
        }
        // (5) seeded semi-structured random tail
        let tail_pairs = args.bound("tail_pairs", 4_000_000, 4_200_000_000) / scale as u64;
        let per_chunk = 500 * 500;
        for chunk in 0..tail_pairs.div_ceil(per_chunk) {
            plan.push(Work::Tail { chunk, divisors: 500, values: 500 });
        }
    }
    let n_work = plan.len();

    let workers = if miri { 1 } else { args.workers };
    vcommon::par::run(workers, plan.into_iter().enumerate(), |(wi, w)| {
        let mut loc = Local::new();
        let mut vals: Vec<(u64, u8)> = Vec::new();
        match w {
            Work::Small { lo, hi, kv, nrand } => {
                for d in lo..hi {
                    let mut rng = Rng::derive(seed, &[11, 2, d]);
                    gen_values(d, &mut rng, kv, nrand, &mut vals);
                    // production loop for all values; quotient/remainder hook for the same values
                    check_divisor(&cx, d, D_SMALL, &vals, true, d % 8 == 3 || miri, &mut loc);
                }
            }
            Work::Mid { lo, hi, nrand, batch_every } => {
                for d in lo..hi {
                    let mut rng = Rng::derive(seed, &[11, 3, d]);
                    gen_values(d, &mut rng, 1, nrand, &mut vals);
                    check_divisor(&cx, d, D_MID, &vals, d % batch_every == 0, true, &mut loc);
                }
            }
            Work::Structured { divs, kv, nrand, batch_max } => {
                for (d, ds) in divs {
                    let mut rng = Rng::derive(seed, &[11, 4, d]);
                    gen_values(d, &mut rng, kv, nrand, &mut vals);
                    check_divisor(&cx, d, ds, &vals, d <= batch_max, true, &mut loc);
                }
            }
            Work::Tail { chunk, divisors, values } => {
                let mut rng = Rng::derive(seed, &[11, 5, chunk]);
                for _ in 0..divisors {
                    let b = 1 + rng.below(64) as u32;
                    let d = rand_bits(&mut rng, b);
                    let kmax = u64::MAX / d;
                    vals.clear();
                    for i in 0..values {
                        match i % 4 {
                            0 => vals.push((rng.next_u64(), V_UNIFORM)),
                            1 => {
                                let vb = 1 + rng.below(64) as u32;
                                vals.push((rand_bits(&mut rng, vb), V_RANDBITS));
                            }
                            _ => {
                                // k*d + r with k of a random bit length, r in {0, 1, d-1, random}
                                let kb = 1 + rng.below(bits(kmax) as u64) as u32;
                                let k = rand_bits(&mut rng, kb).min(kmax);
                                let kd = k * d;
                                let (r, vs) = match rng.below(4) {
                                    0 => (0, V_KD),
                                    1 => (1 % d, V_KDP1),
                                    2 => (d - 1, V_KDR),
                                    _ => (rng.below(d), V_KDR),
                                };
                                match kd.checked_add(r) {
                                    Some(v) => vals.push((v, vs)),
                                    None => vals.push((kd, V_KD)),
                                }
                            }
                        }
                    }
                    check_divisor(&cx, d, D_TAIL, &vals, d <= 1 << 16, true, &mut loc);
                }
            }
            Work::Public { lo, hi, rows } => {
                for n in lo..hi {
                    public_api(&cx, seed, n, rows);
                }
            }
        }
        if wi == 0 && rep.want_sample() {
            rep.sample(json!({"work_items": n_work, "first_item_pairs": loc.pairs.iter().flatten().sum::<u64>(),
                              "example": {"divisor": 3, "value": u64::MAX.to_string(), "reduced_remainder": reduced_remainder(u64::MAX, 3).to_string(), "native": (u64::MAX % 3).to_string()}}));
        }
        loc.flush(&rep);
    });

    // a couple of written-out samples
    for (v, d) in [(u64::MAX, u64::MAX - 1), (0x8000_0000_0000_0000, 0xFFFF_FFFB), ((1u64 << 48) * 3 - 1, 1u64 << 48 | 21)] {
        if let Ok(o) = guard(|| reduced_remainder(v, d)) {
            rep.sample(json!({"divisor": d.to_string(), "value": v.to_string(), "reduced_remainder": o.to_string(), "native": (v % d).to_string()}));
        }
    }

    // coverage obligations (measured)
    let dn = rep.seen_count("divisor_bit_lengths");
    let want_bits = if reduced { 8 } else { 64 };
    rep.obligation("divisor bit lengths", dn >= want_bits, &format!("{dn} of 64 divisor bit lengths exercised (need >= {want_bits})"));
    let qn = rep.seen_count("quotient_bit_lengths");
    rep.obligation("quotient bit lengths", qn >= want_bits, &format!("{qn} of 64 quotient bit lengths exercised (need >= {want_bits})"));
    let c0 = rep.get_count("reciprocal/low-product-carry=0");
    let c1 = rep.get_count("reciprocal/low-product-carry=1");
    rep.obligation("both carry outcomes of the low product", c0 > 0 && c1 > 0, &format!("carry=0: {c0} pairs, carry=1: {c1} pairs"));
    let pi = rep.get_count("path/partition_indices(production loop)");
    rep.obligation("production partition_indices loop driven", pi > 0, &format!("{pi} pairs"));
    let sent = rep.get_count("public-api/rows sent");
    let delivered = rep.get_count("public-api/rows delivered");
    rep.obligation(
        "public API cross-check ran",
        delivered > 0 && sent == delivered,
        &format!("{delivered} of {sent} rows observed at BatchPartitioner output (a difference is C10's domain, but leaves this cross-check incomplete)"),
    );
    if selftest && corrupt.load(Ordering::Relaxed) {
        rep.inconclusive("selftest corruption point was never reached");
    }
    rep.extra("strata", json!({"divisor": DS, "value": VS}));
    rep.set_exhaustive(false);
    rep.finish()
}

fn main() {
    let args = Args::parse();
    vcommon::par::quiet_panics();
    std::process::exit(run(&args));
}
