//! C17 — memory pool accounting is exact and limits are enforced.
//!
//! Sequential stage: random histories over the real pools (and wrapper nestings), every
//! observable compared with a sequential model after every operation.
//! Concurrent stage: 2–3 threads sharing the pool and `Arc<MemoryReservation>`s, per-thread
//! credit, barriers = quiescent points where the conservation equalities are asserted; offline
//! limit check over the call/return log of every growth and release.

use datafusion_execution::memory_pool::{
    FairSpillPool, GreedyMemoryPool, MemoryConsumer, MemoryConsumerMetrics, MemoryLimit, MemoryPool,
    MemoryReservation, PeakRecordingPool, TrackConsumersPool, UnboundedMemoryPool, human_readable_size,
};
use std::collections::BTreeMap;
use std::num::NonZeroUsize;
use std::sync::atomic::{AtomicBool, Ordering};
use std::sync::{Arc, Barrier, Mutex};
use vcommon::hist::Clock;
use vcommon::par::guard;
use vcommon::{Args, Json, Report, Rng, fp_mix, fp_str, json};

// ---------------------------------------------------------------------------------------
// Pools under test
// ---------------------------------------------------------------------------------------

#[derive(Clone, Copy, Debug, PartialEq, Eq)]
enum Base {
    Unbounded,
    Greedy,
    Fair,
}
const BASES: [Base; 3] = [Base::Unbounded, Base::Greedy, Base::Fair];

/// B = base pool, T = TrackConsumersPool, P = PeakRecordingPool
const SHAPES: [&str; 8] = ["B", "T<B>", "P(B)", "P(T<B>)", "T<P(B)>", "T<T<B>>", "P(P(B))", "T<P(T<B>)>"];

#[derive(Clone, Debug)]
struct PoolSpec {
    base: Base,
    limit: usize,
    shape: usize,
    top: usize,
}

impl PoolSpec {
    fn name(&self) -> String {
        SHAPES[self.shape].replace('B', &format!("{:?}", self.base))
    }
    fn to_json(&self) -> Json {
        json!({"pool": self.name(), "limit": self.limit, "top": self.top})
    }
}

trait TrackView: Send + Sync {
    fn metrics(&self) -> Vec<MemoryConsumerMetrics>;
    fn report_top(&self, n: usize) -> String;
}
impl<I: MemoryPool> TrackView for Arc<TrackConsumersPool<I>> {
    fn metrics(&self) -> Vec<MemoryConsumerMetrics> {
        TrackConsumersPool::metrics(self)
    }
    fn report_top(&self, n: usize) -> String {
        TrackConsumersPool::report_top(self, n)
    }
}
struct InnerTrack<I: MemoryPool>(Arc<TrackConsumersPool<TrackConsumersPool<I>>>);
impl<I: MemoryPool> TrackView for InnerTrack<I> {
    fn metrics(&self) -> Vec<MemoryConsumerMetrics> {
        self.0.inner().metrics()
    }
    fn report_top(&self, n: usize) -> String {
        self.0.inner().report_top(n)
    }
}

trait PeakView: Send + Sync {
    fn peak(&self) -> usize;
    fn max(&self) -> usize;
    fn reset(&self);
}
impl PeakView for Arc<PeakRecordingPool> {
    fn peak(&self) -> usize {
        self.peak_reserved()
    }
    fn max(&self) -> usize {
        self.max_reserved()
    }
    fn reset(&self) {
        self.reset_peak()
    }
}
struct PeakInTrack(Arc<TrackConsumersPool<PeakRecordingPool>>);
impl PeakView for PeakInTrack {
    fn peak(&self) -> usize {
        self.0.inner().peak_reserved()
    }
    fn max(&self) -> usize {
        self.0.inner().max_reserved()
    }
    fn reset(&self) {
        self.0.inner().reset_peak()
    }
}

struct Built {
    pool: Arc<dyn MemoryPool>,
    trackers: Vec<Box<dyn TrackView>>,
    peaks: Vec<Box<dyn PeakView>>,
    /// the outermost layer is a PeakRecordingPool (`from_pool` must find it)
    outer_is_peak: bool,
}

fn build_shape<B: MemoryPool>(b: B, shape: usize, top: NonZeroUsize) -> Built {
    let mut trackers: Vec<Box<dyn TrackView>> = vec![];
    let mut peaks: Vec<Box<dyn PeakView>> = vec![];
    let pool: Arc<dyn MemoryPool> = match shape {
        0 => Arc::new(b),
        1 => {
            let t = Arc::new(TrackConsumersPool::new(b, top));
            trackers.push(Box::new(t.clone()));
            t
        }
        2 => {
            let p = Arc::new(PeakRecordingPool::new(Arc::new(b)));
            peaks.push(Box::new(p.clone()));
            p
        }
        3 => {
            let t = Arc::new(TrackConsumersPool::new(b, top));
            trackers.push(Box::new(t.clone()));
            let p = Arc::new(PeakRecordingPool::new(t));
            peaks.push(Box::new(p.clone()));
            p
        }
        4 => {
            let t = Arc::new(TrackConsumersPool::new(PeakRecordingPool::new(Arc::new(b)), top));
            trackers.push(Box::new(t.clone()));
            peaks.push(Box::new(PeakInTrack(t.clone())));
            t
        }
        5 => {
            let t = Arc::new(TrackConsumersPool::new(TrackConsumersPool::new(b, top), top));
            trackers.push(Box::new(t.clone()));
            trackers.push(Box::new(InnerTrack(t.clone())));
            t
        }
        6 => {
            let p1 = Arc::new(PeakRecordingPool::new(Arc::new(b)));
            peaks.push(Box::new(p1.clone()));
            let p2 = Arc::new(PeakRecordingPool::new(p1));
            peaks.push(Box::new(p2.clone()));
            p2
        }
        _ => {
            let t1 = Arc::new(TrackConsumersPool::new(b, top));
            trackers.push(Box::new(t1.clone()));
            let t2 = Arc::new(TrackConsumersPool::new(PeakRecordingPool::new(t1), top));
            trackers.push(Box::new(t2.clone()));
            peaks.push(Box::new(PeakInTrack(t2.clone())));
            t2
        }
    };
    Built { pool, trackers, peaks, outer_is_peak: matches!(shape, 2 | 3 | 6) }
}

fn build(spec: &PoolSpec) -> Built {
    let top = NonZeroUsize::new(spec.top.max(1)).unwrap();
    match spec.base {
        Base::Unbounded => build_shape(UnboundedMemoryPool::default(), spec.shape, top),
        Base::Greedy => build_shape(GreedyMemoryPool::new(spec.limit), spec.shape, top),
        Base::Fair => build_shape(FairSpillPool::new(spec.limit), spec.shape, top),
    }
}

/// documented: `memory_limit` is Infinite / Finite(pool_size) and wrappers delegate; `from_pool` finds the recorder
fn check_static(spec: &PoolSpec, b: &Built) -> Result<(), String> {
    let ok = match (spec.base, b.pool.memory_limit()) {
        (Base::Unbounded, MemoryLimit::Infinite) => true,
        (Base::Greedy | Base::Fair, MemoryLimit::Finite(l)) => l == spec.limit,
        _ => false,
    };
    if !ok {
        return Err(format!("memory_limit() of {} does not report the configured limit {}", spec.name(), spec.limit));
    }
    if PeakRecordingPool::from_pool(&*b.pool).is_some() != b.outer_is_peak {
        return Err(format!("PeakRecordingPool::from_pool on {} returned the wrong answer", spec.name()));
    }
    if b.pool.reserved() != 0 {
        return Err("fresh pool reports reserved() != 0".into());
    }
    Ok(())
}

fn gen_spec(rng: &mut Rng) -> PoolSpec {
    let base = *rng.pick(&BASES);
    let limit = *rng.pick(&[0usize, 1, 2, 7, 10, 10, 33, 64, 100, 100, 999, 1000]);
    PoolSpec { base, limit, shape: rng.usize(SHAPES.len()), top: 1 + rng.usize(4) }
}

// ---------------------------------------------------------------------------------------
// Sequential model
// ---------------------------------------------------------------------------------------

#[derive(Clone, Debug)]
struct MCons {
    name: String,
    spill: bool,
    nres: usize,
    reserved: usize,
    peak: usize,
}

#[derive(Clone, Debug)]
struct MRes {
    cons: usize,
    size: usize,
}

#[derive(Clone, Debug)]
struct Model {
    base: Base,
    limit: usize,
    cons: Vec<MCons>,
    res: Vec<Option<MRes>>,
    total: usize,
    unspillable: usize,
    num_spill: usize,
    /// (peak since reset, max since creation) per PeakRecordingPool layer
    peaks: Vec<(usize, usize)>,
}

#[derive(Clone, Debug, PartialEq)]
enum Outcome {
    Ok(Option<usize>),
    Err,
    Panic,
}

#[derive(Clone, Debug)]
enum Op {
    Register { spill: bool },
    Grow { r: usize, n: usize },
    TryGrow { r: usize, n: usize },
    Shrink { r: usize, n: usize },
    TryShrink { r: usize, n: usize },
    Resize { r: usize, c: usize },
    TryResize { r: usize, c: usize },
    Split { r: usize, n: usize },
    Take { r: usize },
    NewEmpty { r: usize },
    Free { r: usize },
    Drop { r: usize },
    ResetPeak { layer: usize },
}

impl Op {
    fn name(&self) -> &'static str {
        match self {
            Op::Register { .. } => "register",
            Op::Grow { .. } => "grow",
            Op::TryGrow { .. } => "try_grow",
            Op::Shrink { .. } => "shrink",
            Op::TryShrink { .. } => "try_shrink",
            Op::Resize { .. } => "resize",
            Op::TryResize { .. } => "try_resize",
            Op::Split { .. } => "split",
            Op::Take { .. } => "take",
            Op::NewEmpty { .. } => "new_empty",
            Op::Free { .. } => "free",
            Op::Drop { .. } => "drop",
            Op::ResetPeak { .. } => "reset_peak",
        }
    }
    fn is_fallible(&self) -> bool {
        matches!(self, Op::TryGrow { .. } | Op::TryShrink { .. } | Op::TryResize { .. })
    }
}

impl Model {
    fn new(spec: &PoolSpec, n_peaks: usize) -> Model {
        Model { base: spec.base, limit: spec.limit, cons: vec![], res: vec![], total: 0, unspillable: 0, num_spill: 0, peaks: vec![(0, 0); n_peaks] }
    }
    fn live_res(&self) -> Vec<usize> {
        (0..self.res.len()).filter(|i| self.res[*i].is_some()).collect()
    }
    fn live_cons(&self) -> usize {
        self.cons.iter().filter(|c| c.nres > 0).count()
    }
    fn size(&self, r: usize) -> usize {
        self.res[r].as_ref().map(|x| x.size).unwrap_or(0)
    }
    fn spill_of(&self, r: usize) -> bool {
        self.cons[self.res[r].as_ref().unwrap().cons].spill
    }
    /// the fair share a spilling reservation is measured against right now
    fn fair_share(&self) -> usize {
        let avail = self.limit.saturating_sub(self.unspillable);
        avail.checked_div(self.num_spill).unwrap_or(avail)
    }
    /// the documented admission rule of each pool for a fallible growth of reservation `r` by `n`
    fn admit(&self, r: usize, n: usize) -> bool {
        match self.base {
            Base::Unbounded => true,
            // "can allocate up to `pool_size` bytes", first come first served
            Base::Greedy => self.total + n <= self.limit,
            Base::Fair => {
                if self.spill_of(r) {
                    // "(pool_size - unspillable_memory) / num_spillable_reservations", measured per reservation
                    self.size(r) + n <= self.fair_share()
                } else {
                    // "Unspillable memory is allocated in a first-come, first-serve fashion"
                    self.limit.saturating_sub(self.total) >= n
                }
            }
        }
    }
    fn do_grow(&mut self, r: usize, n: usize) {
        let c = self.res[r].as_ref().unwrap().cons;
        self.total += n;
        if !self.cons[c].spill {
            self.unspillable += n;
        }
        self.res[r].as_mut().unwrap().size += n;
        self.cons[c].reserved += n;
        self.cons[c].peak = self.cons[c].peak.max(self.cons[c].reserved);
        for p in self.peaks.iter_mut() {
            p.0 = p.0.max(self.total);
            p.1 = p.1.max(self.total);
        }
    }
    fn do_shrink(&mut self, r: usize, n: usize) {
        let c = self.res[r].as_ref().unwrap().cons;
        self.total -= n;
        if !self.cons[c].spill {
            self.unspillable -= n;
        }
        self.res[r].as_mut().unwrap().size -= n;
        self.cons[c].reserved -= n;
    }
    fn split_off(&mut self, r: usize, n: usize) {
        let c = self.res[r].as_ref().unwrap().cons;
        self.res[r].as_mut().unwrap().size -= n;
        self.res.push(Some(MRes { cons: c, size: n }));
        self.cons[c].nres += 1;
    }
    /// expected outcome of `op`; the model is advanced only on the success path
    fn apply(&mut self, op: &Op) -> Outcome {
        match *op {
            Op::Register { spill } => {
                let k = self.cons.len();
                self.cons.push(MCons { name: format!("c{k}"), spill, nres: 1, reserved: 0, peak: 0 });
                if spill {
                    self.num_spill += 1;
                }
                self.res.push(Some(MRes { cons: k, size: 0 }));
                Outcome::Ok(None)
            }
            Op::Grow { r, n } => {
                self.do_grow(r, n);
                Outcome::Ok(None)
            }
            Op::TryGrow { r, n } => {
                if self.admit(r, n) {
                    self.do_grow(r, n);
                    Outcome::Ok(None)
                } else {
                    Outcome::Err
                }
            }
            Op::Shrink { r, n } => {
                if n <= self.size(r) {
                    self.do_shrink(r, n);
                    Outcome::Ok(None)
                } else {
                    Outcome::Panic
                }
            }
            Op::TryShrink { r, n } => {
                if n <= self.size(r) {
                    self.do_shrink(r, n);
                    Outcome::Ok(Some(self.size(r)))
                } else {
                    Outcome::Err
                }
            }
            Op::Resize { r, c } => {
                let s = self.size(r);
                if c > s {
                    self.do_grow(r, c - s);
                } else if c < s {
                    self.do_shrink(r, s - c);
                }
                Outcome::Ok(None)
            }
            Op::TryResize { r, c } => {
                let s = self.size(r);
                if c > s {
                    if !self.admit(r, c - s) {
                        return Outcome::Err;
                    }
                    self.do_grow(r, c - s);
                } else if c < s {
                    self.do_shrink(r, s - c);
                }
                Outcome::Ok(None)
            }
            Op::Split { r, n } => {
                if n <= self.size(r) {
                    self.split_off(r, n);
                    Outcome::Ok(Some(n))
                } else {
                    Outcome::Panic
                }
            }
            Op::Take { r } => {
                let n = self.size(r);
                self.split_off(r, n);
                Outcome::Ok(Some(n))
            }
            Op::NewEmpty { r } => {
                self.split_off(r, 0);
                Outcome::Ok(Some(0))
            }
            Op::Free { r } => {
                let n = self.size(r);
                self.do_shrink(r, n);
                Outcome::Ok(Some(n))
            }
            Op::Drop { r } => {
                let n = self.size(r);
                self.do_shrink(r, n);
                let c = self.res[r].take().unwrap().cons;
                self.cons[c].nres -= 1;
                if self.cons[c].nres == 0 && self.cons[c].spill {
                    self.num_spill -= 1;
                }
                Outcome::Ok(None)
            }
            Op::ResetPeak { layer } => {
                self.peaks[layer].0 = self.total;
                Outcome::Ok(None)
            }
        }
    }
}

/// Everything observable through the public API, in one comparable value.
#[derive(Clone, Debug, PartialEq)]
struct Observed {
    reserved: usize,
    sizes: Vec<Option<usize>>,
    /// per tracker layer: (name, can_spill, reserved, peak) sorted by name
    tracked: Vec<Vec<(String, bool, usize, usize)>>,
    peaks: Vec<(usize, usize)>,
}

fn snapshot_trackers(b: &Built) -> Vec<Vec<(String, bool, usize, usize)>> {
    b.trackers
        .iter()
        .map(|t| {
            let mut v: Vec<_> = t.metrics().into_iter().map(|m| (m.name, m.can_spill, m.reserved, m.peak)).collect();
            v.sort();
            v
        })
        .collect()
}

fn expected_of(m: &Model, n_trackers: usize) -> Observed {
    let mut tr: Vec<_> = m.cons.iter().filter(|c| c.nres > 0).map(|c| (c.name.clone(), c.spill, c.reserved, c.peak)).collect();
    tr.sort();
    Observed {
        reserved: m.total,
        sizes: m.res.iter().map(|r| r.as_ref().map(|x| x.size)).collect(),
        tracked: vec![tr; n_trackers],
        peaks: m.peaks.clone(),
    }
}

/// first difference between observation and model, as a stable signature
fn diff(obs: &Observed, exp: &Observed) -> Option<(&'static str, String)> {
    if obs.reserved != exp.reserved {
        return Some(("reserved-not-sum-of-reservations", format!("pool.reserved()={} but live reservations sum to {}", obs.reserved, exp.reserved)));
    }
    if obs.sizes != exp.sizes {
        return Some(("reservation-size-wrong", format!("sizes {:?} expected {:?}", obs.sizes, exp.sizes)));
    }
    for (layer, (o, e)) in obs.tracked.iter().zip(&exp.tracked).enumerate() {
        let on: Vec<_> = o.iter().map(|x| (&x.0, x.1)).collect();
        let en: Vec<_> = e.iter().map(|x| (&x.0, x.1)).collect();
        if on != en {
            return Some(("tracked-consumer-set", format!("tracker layer {layer} reports consumers {on:?}, registered are {en:?}")));
        }
        for (a, b) in o.iter().zip(e) {
            if a.2 != b.2 {
                return Some(("tracked-reserved-not-consumer-sum", format!("tracker layer {layer}: {} reserved={} but its reservations sum to {}", a.0, a.2, b.2)));
            }
            if a.3 < a.2 {
                return Some(("tracked-peak-below-reserved", format!("tracker layer {layer}: {} peak={} < reserved={}", a.0, a.3, a.2)));
            }
            if a.3 != b.3 {
                return Some(("tracked-peak-not-running-max", format!("tracker layer {layer}: {} peak={} but the running maximum is {}", a.0, a.3, b.3)));
            }
        }
    }
    for (layer, (o, e)) in obs.peaks.iter().zip(&exp.peaks).enumerate() {
        if o.0 != e.0 {
            return Some(("peak-recording-peak-wrong", format!("peak layer {layer}: peak_reserved()={} but maximum since reset is {}", o.0, e.0)));
        }
        if o.1 != e.1 {
            return Some(("peak-recording-max-wrong", format!("peak layer {layer}: max_reserved()={} but maximum since creation is {}", o.1, e.1)));
        }
    }
    None
}

/// `report_top(k)`: min(k, n) lines, ordered by reserved descending, each line shows the consumer's
/// reserved and peak (human readable)
fn check_report_top(s: &str, k: usize, m: &Model) -> Result<(), String> {
    let live: Vec<&MCons> = m.cons.iter().filter(|c| c.nres > 0).collect();
    let body = s.strip_suffix('.').ok_or_else(|| format!("report_top does not end with '.': {s:?}"))?;
    let lines: Vec<&str> = if body.is_empty() { vec![] } else { body.split(",\n").collect() };
    if lines.len() != k.min(live.len()) {
        return Err(format!("report_top({k}) has {} lines for {} consumers", lines.len(), live.len()));
    }
    let mut top: Vec<usize> = live.iter().map(|c| c.reserved).collect();
    top.sort_by(|a, b| b.cmp(a));
    for (i, line) in lines.iter().enumerate() {
        let name = line.trim_start().split('#').next().unwrap_or("");
        let Some(c) = live.iter().find(|c| c.name == name) else { return Err(format!("report_top names unknown consumer in {line:?}")) };
        let want_tail = format!("(can spill: {}) consumed {}, peak {}", c.spill, human_readable_size(c.reserved), human_readable_size(c.peak));
        if !line.ends_with(&want_tail) {
            return Err(format!("report_top line {line:?} should end with {want_tail:?}"));
        }
        if human_readable_size(c.reserved) != human_readable_size(top[i]) {
            return Err(format!("report_top line {i} is {name} with {} but rank {i} by reserved is {}", c.reserved, top[i]));
        }
    }
    Ok(())
}

// ---------------------------------------------------------------------------------------
// Sequential histories
// ---------------------------------------------------------------------------------------

fn pick_size(rng: &mut Rng, m: &Model, r: usize) -> usize {
    let l = if m.base == Base::Unbounded { 100 } else { m.limit };
    let rs = m.size(r);
    let share = m.fair_share();
    let rem = l.saturating_sub(m.total);
    let c = match rng.below(24) {
        0 => 0,
        1 => 1,
        2 => l,
        3 => l + 1,
        4 => l.saturating_sub(1),
        5 => l / 2,
        6 => l / 2 + 1,
        7 => l / 3,
        8 => l / 3 + 1,
        9 => share,
        10 => share + 1,
        11 => share.saturating_sub(1),
        12 => share.saturating_sub(rs),
        13 => share.saturating_sub(rs) + 1,
        14 => rem,
        15 => rem + 1,
        16 => rem.saturating_sub(1),
        17 => rs,
        18 => rs + 1,
        19 => rs.saturating_sub(1),
        20 => rs / 2,
        _ => rng.usize(l + 3),
    };
    c.min(5000)
}

fn gen_op(rng: &mut Rng, m: &Model, max_res: usize) -> Op {
    let live = m.live_res();
    let can_new = live.len() < max_res;
    if live.is_empty() {
        return Op::Register { spill: rng.bool() };
    }
    let r = *rng.pick(&live);
    let w = [
        if can_new && m.live_cons() < 3 { 6 } else { 0 },
        8,
        22,
        10,
        8,
        6,
        10,
        if can_new { 6 } else { 0 },
        if can_new { 3 } else { 0 },
        if can_new { 4 } else { 0 },
        4,
        6,
        if m.peaks.is_empty() { 0 } else { 3 },
    ];
    match rng.weighted(&w) {
        0 => Op::Register { spill: rng.bool() },
        1 => Op::Grow { r, n: pick_size(rng, m, r) },
        2 => Op::TryGrow { r, n: pick_size(rng, m, r) },
        3 => Op::Shrink { r, n: if rng.chance(1, 6) { pick_size(rng, m, r) } else { rng.usize(m.size(r) + 1) } },
        4 => Op::TryShrink { r, n: if rng.chance(1, 3) { pick_size(rng, m, r) } else { rng.usize(m.size(r) + 1) } },
        5 => Op::Resize { r, c: pick_size(rng, m, r) },
        6 => Op::TryResize { r, c: if rng.bool() { m.size(r) + pick_size(rng, m, r) } else { pick_size(rng, m, r) } },
        7 => Op::Split { r, n: if rng.chance(1, 6) { pick_size(rng, m, r) } else { rng.usize(m.size(r) + 1) } },
        8 => Op::Take { r },
        9 => Op::NewEmpty { r },
        10 => Op::Free { r },
        11 => Op::Drop { r },
        _ => Op::ResetPeak { layer: rng.usize(m.peaks.len()) },
    }
}

/// run `op` on the real objects; a new reservation (register/split/take/new_empty) is pushed
fn exec(op: &Op, b: &Built, res: &mut Vec<Option<MemoryReservation>>, next_cons: &mut usize) -> Result<Outcome, String> {
    let caught = guard(|| -> Outcome {
        match *op {
            Op::Register { spill } => {
                let c = MemoryConsumer::new(format!("c{}", *next_cons)).with_can_spill(spill);
                *next_cons += 1;
                res.push(Some(c.register(&b.pool)));
                Outcome::Ok(None)
            }
            Op::Grow { r, n } => {
                res[r].as_ref().unwrap().grow(n);
                Outcome::Ok(None)
            }
            Op::TryGrow { r, n } => match res[r].as_ref().unwrap().try_grow(n) {
                Ok(()) => Outcome::Ok(None),
                Err(_) => Outcome::Err,
            },
            Op::Shrink { r, n } => {
                res[r].as_ref().unwrap().shrink(n);
                Outcome::Ok(None)
            }
            Op::TryShrink { r, n } => match res[r].as_ref().unwrap().try_shrink(n) {
                Ok(s) => Outcome::Ok(Some(s)),
                Err(_) => Outcome::Err,
            },
            Op::Resize { r, c } => {
                res[r].as_ref().unwrap().resize(c);
                Outcome::Ok(None)
            }
            Op::TryResize { r, c } => match res[r].as_ref().unwrap().try_resize(c) {
                Ok(()) => Outcome::Ok(None),
                Err(_) => Outcome::Err,
            },
            Op::Split { r, n } => {
                let x = res[r].as_ref().unwrap().split(n);
                let s = x.size();
                res.push(Some(x));
                Outcome::Ok(Some(s))
            }
            Op::Take { r } => {
                let x = res[r].as_mut().unwrap().take();
                let s = x.size();
                res.push(Some(x));
                Outcome::Ok(Some(s))
            }
            Op::NewEmpty { r } => {
                let x = res[r].as_ref().unwrap().new_empty();
                let s = x.size();
                res.push(Some(x));
                Outcome::Ok(Some(s))
            }
            Op::Free { r } => Outcome::Ok(Some(res[r].as_ref().unwrap().free())),
            Op::Drop { r } => {
                drop(res[r].take());
                Outcome::Ok(None)
            }
            Op::ResetPeak { layer } => {
                b.peaks[layer].reset();
                Outcome::Ok(None)
            }
        }
    });
    match caught {
        Ok(o) => Ok(o),
        Err(msg) => {
            // documented panics: "Panics if `capacity` exceeds size" (shrink, split)
            if msg.contains("Cannot free the capacity") || (msg.contains("called `Result::unwrap()` on an `Err` value") && msg.contains("memory_pool/mod.rs")) {
                Ok(Outcome::Panic)
            } else {
                Err(msg)
            }
        }
    }
}

#[derive(Default)]
struct SeqStats {
    ops: BTreeMap<&'static str, u64>,
    granted: u64,
    denied: u64,
    doc_panics: u64,
    failed_shrinks: u64,
    unregisters: u64,
    max_live_res: usize,
    report_top_checks: u64,
    fair_consumer_over_share: u64,
}

struct SeqOut {
    fp: u64,
    nontrivial: bool,
    stats: SeqStats,
    spec: PoolSpec,
    trace: Vec<String>,
    violation: Option<(String, Json)>,
}

/// selftest modes corrupt the *observed* value right before the oracle looks at it
fn corrupt(obs: &mut Observed, mode: u64) {
    match mode {
        1 => obs.reserved += 1,
        2 => {
            if let Some(x) = obs.sizes.iter_mut().flatten().next() {
                *x += 1;
            }
        }
        3 => {
            if let Some(x) = obs.tracked.iter_mut().flat_map(|l| l.iter_mut()).next() {
                x.3 = x.3.wrapping_sub(1);
            }
        }
        4 => {
            if let Some(x) = obs.peaks.first_mut() {
                x.0 += 1;
            }
        }
        _ => {}
    }
}

fn run_sequential(spec: PoolSpec, rng: &mut Rng, max_ops: usize, selftest: u64) -> SeqOut {
    let b = build(&spec);
    let mut out = SeqOut { fp: fp_str(&spec.to_json().to_string()), nontrivial: false, stats: SeqStats::default(), spec: spec.clone(), trace: vec![], violation: None };
    if let Err(e) = check_static(&spec, &b) {
        out.violation = Some(("static-pool-properties".into(), json!({"pool": spec.to_json(), "what": e})));
        return out;
    }
    let mut m = Model::new(&spec, b.peaks.len());
    let mut res: Vec<Option<MemoryReservation>> = vec![];
    let mut next_cons = 0usize;
    let n_ops = 1 + rng.usize(max_ops);
    let max_res = 2 + rng.usize(5);
    let fail = |sig: &str, what: String, trace: &[String], m: &Model| -> Option<(String, Json)> {
        Some((sig.to_string(), json!({"stage": "sequential", "pool": spec.to_json(), "history": trace, "what": what,
            "model": {"total": m.total, "unspillable": m.unspillable, "num_spill": m.num_spill, "fair_share": m.fair_share(),
                      "reservations": m.res.iter().map(|r| r.as_ref().map(|x| json!({"consumer": m.cons[x.cons].name, "spill": m.cons[x.cons].spill, "size": x.size}))).collect::<Vec<_>>() }})))
    };
    for step in 0..n_ops {
        let op = gen_op(rng, &m, max_res);
        *out.stats.ops.entry(op.name()).or_insert(0) += 1;
        let before = m.clone();
        let exp = m.apply(&op);
        let obs = match exec(&op, &b, &mut res, &mut next_cons) {
            Ok(o) => o,
            Err(msg) => {
                out.trace.push(format!("{op:?} -> PANIC {msg}"));
                out.violation = fail("unexpected-panic", format!("{op:?} panicked: {msg}"), &out.trace, &before);
                break;
            }
        };
        out.trace.push(format!("{op:?} -> {obs:?}"));
        out.fp = fp_mix(out.fp, fp_str(&format!("{op:?}{obs:?}")));
        let grows = matches!(op, Op::TryGrow { .. }) || matches!(op, Op::TryResize { r, c } if c > before.size(r));
        if obs != exp {
            let kind = format!("{:?}", spec.base).to_lowercase();
            let sig = match (&obs, &exp) {
                (Outcome::Ok(_), Outcome::Err) if grows => format!("granted-beyond-limit/{kind}"),
                (Outcome::Err, Outcome::Ok(_)) if grows => format!("denied-within-limit/{kind}"),
                (Outcome::Ok(_), Outcome::Panic) => "missing-documented-panic".to_string(),
                (Outcome::Ok(_), Outcome::Err) => "missing-documented-error".to_string(),
                (Outcome::Ok(_), Outcome::Ok(_)) => "wrong-return-value".to_string(),
                _ => "unexpected-failure".to_string(),
            };
            out.violation = fail(&sig, format!("step {step}: {op:?} returned {obs:?}, the documented rule gives {exp:?}"), &out.trace, &before);
            break;
        }
        match (&obs, grows) {
            (Outcome::Ok(_), true) => out.stats.granted += 1,
            (Outcome::Err, true) => out.stats.denied += 1,
            (Outcome::Err, false) => out.stats.failed_shrinks += 1,
            (Outcome::Panic, _) => out.stats.doc_panics += 1,
            _ => {}
        }
        if matches!(op, Op::Drop { .. }) && m.live_cons() < before.live_cons() {
            out.stats.unregisters += 1;
        }
        out.stats.max_live_res = out.stats.max_live_res.max(m.live_res().len());
        if spec.base == Base::Fair && m.cons.iter().any(|c| c.spill && c.nres > 1 && c.reserved > m.fair_share()) {
            out.stats.fair_consumer_over_share += 1;
        }
        // ---- the oracle: everything observable, after every operation ----
        let mut o = Observed {
            reserved: b.pool.reserved(),
            sizes: res.iter().map(|r| r.as_ref().map(|x| x.size())).collect(),
            tracked: snapshot_trackers(&b),
            peaks: b.peaks.iter().map(|p| (p.peak(), p.max())).collect(),
        };
        if selftest != 0 && step == n_ops / 2 {
            corrupt(&mut o, selftest);
        }
        if let Some((sig, what)) = diff(&o, &expected_of(&m, b.trackers.len())) {
            let failed_try = op.is_fallible() && obs == Outcome::Err;
            let sig2 = if failed_try { format!("failed-try-changed-state/{sig}") } else { sig.to_string() };
            out.violation = fail(&sig2, format!("after step {step} ({op:?}): {what}"), &out.trace, &m);
            break;
        }
        if !b.trackers.is_empty() && rng.chance(1, 4) {
            let k = 1 + rng.usize(4);
            for t in &b.trackers {
                out.stats.report_top_checks += 1;
                if let Err(e) = check_report_top(&t.report_top(k), k, &m) {
                    out.violation = fail("report-top-wrong", e, &out.trace, &m);
                }
            }
            if out.violation.is_some() {
                break;
            }
        }
    }
    // drop everything that is left: the pool must be back to zero, trackers empty
    if out.violation.is_none() {
        let r = guard(|| res.clear());
        let left = b.pool.reserved();
        let tracked: usize = b.trackers.iter().map(|t| t.metrics().len()).sum();
        if let Err(msg) = r {
            out.violation = fail("unexpected-panic", format!("dropping the remaining reservations panicked: {msg}"), &out.trace, &m);
        } else if left != 0 {
            out.violation = fail("reserved-not-zero-after-all-dropped", format!("pool.reserved()={left} after every reservation was dropped"), &out.trace, &m);
        } else if tracked != 0 {
            out.violation = fail("tracked-consumer-set", format!("{tracked} consumers still tracked after every reservation was dropped"), &out.trace, &m);
        }
    }
    out.nontrivial = out.trace.len() >= 5 && out.stats.granted + out.stats.denied > 0;
    out
}

fn record_seq(rep: &Report, o: SeqOut) {
    rep.case(o.fp, o.nontrivial);
    let kind = format!("{:?}", o.spec.base);
    for (k, n) in &o.stats.ops {
        rep.count(&format!("seq_ops/{kind}/{k}"), *n);
    }
    rep.count("seq_histories", 1);
    rep.count(&format!("seq_histories/{}", o.spec.name()), 1);
    rep.count(&format!("seq_granted_fallible_growth/{kind}"), o.stats.granted);
    rep.count(&format!("seq_denied_fallible_growth/{kind}"), o.stats.denied);
    rep.count("seq_documented_panics_observed", o.stats.doc_panics);
    rep.count("seq_failed_try_shrink", o.stats.failed_shrinks);
    rep.count("seq_consumer_unregistrations", o.stats.unregisters);
    rep.count("seq_report_top_checks", o.stats.report_top_checks);
    rep.count("seq_fair_consumer_total_above_share_via_several_reservations", o.stats.fair_consumer_over_share);
    rep.max("seq_max_live_reservations", o.stats.max_live_res as u64);
    rep.seen("pool_shapes", &o.spec.name());
    if let Some((sig, detail)) = o.violation {
        rep.violation(&sig, detail);
    } else if o.trace.len() > 12 && rep.want_sample() && o.stats.denied > 0 {
        rep.sample(json!({"stage": "sequential", "pool": o.spec.to_json(), "history_head": o.trace.iter().take(14).collect::<Vec<_>>() }));
    }
}

// ---------------------------------------------------------------------------------------
// Concurrent stage
// ---------------------------------------------------------------------------------------

#[derive(Clone, Debug)]
struct ConcCfg {
    spec: PoolSpec,
    threads: usize,
    /// can_spill of the shared consumers (alive for the whole run)
    cons_spill: Vec<bool>,
    /// shared reservations: consumer index of each
    shared: Vec<usize>,
    phases: usize,
    ops: usize,
    /// all growth through try_grow / try_resize (then `used <= L` is an invariant of the bounded pools)
    try_only: bool,
    /// thread 0 registers / drops a consumer of its own while the others run
    churn: Option<bool>,
    pace: u32,
}

impl ConcCfg {
    fn to_json(&self) -> Json {
        json!({"pool": self.spec.to_json(), "threads": self.threads, "consumers_can_spill": self.cons_spill, "shared_reservations_consumer": self.shared,
               "phases": self.phases, "ops_per_phase": self.ops, "try_only": self.try_only, "churn_consumer_can_spill": self.churn})
    }
}

fn gen_conc(rng: &mut Rng, tiny: bool) -> ConcCfg {
    let mut spec = gen_spec(rng);
    if spec.limit < 7 {
        spec.limit = 10;
    }
    let threads = if tiny { 2 } else { 2 + rng.usize(2) };
    let churn = if rng.chance(1, 3) { Some(rng.bool()) } else { None };
    let n_cons = 1 + rng.usize(if churn.is_some() { 2 } else { 3 });
    let cons_spill: Vec<bool> = (0..n_cons).map(|_| rng.bool()).collect();
    let mut shared: Vec<usize> = (0..n_cons).collect();
    if rng.bool() && shared.len() < 3 {
        shared.push(rng.usize(n_cons));
    }
    ConcCfg {
        spec,
        threads,
        cons_spill,
        shared,
        phases: if tiny { 2 } else { 2 + rng.usize(3) },
        ops: if tiny { 4 } else { 3 + rng.usize(12) },
        try_only: rng.bool(),
        churn,
        pace: if tiny { 1 } else { rng.below(4) as u32 },
    }
}

/// one growth or release as seen at the call boundary
#[derive(Clone, Debug)]
struct Rec {
    t_call: u64,
    t_ret: u64,
    grant: bool,
    fallible: bool,
    n: usize,
    unspill: bool,
    /// Some(size after) for a fallible growth of a thread-private spillable reservation
    private_after: Option<usize>,
    own_consumer_is_churn: bool,
    reserved_read: Option<usize>,
    what: String,
}

struct Private {
    r: MemoryReservation,
    model: usize,
    name: String,
    spill: bool,
    churn: bool,
}

#[derive(Default, Clone)]
struct Snap {
    credits: Vec<usize>,
    /// (consumer name, can_spill, model size, observed size)
    privs: Vec<(String, bool, usize, usize)>,
    granted_total: usize,
    dead: Option<String>,
}

struct Shared3<'a> {
    cfg: &'a ConcCfg,
    built: &'a Built,
    shared: Vec<Arc<MemoryReservation>>,
    clock: Clock,
    barrier: Barrier,
    snaps: Vec<Mutex<Snap>>,
    abort: AtomicBool,
}

struct Worker<'a> {
    t: usize,
    sh: &'a Shared3<'a>,
    rng: Rng,
    credits: Vec<usize>,
    privs: Vec<Private>,
    recs: Vec<Rec>,
    trace: Vec<String>,
    granted_total: usize,
    failed_growths: u64,
    churn_seq: usize,
    local_violation: Option<(String, String)>,
}

impl<'a> Worker<'a> {
    fn pace(&mut self) {
        let level = self.sh.cfg.pace;
        if level == 0 {
            return;
        }
        match self.rng.below(6) {
            0 => std::thread::yield_now(),
            1 => {
                for _ in 0..self.rng.below(40 * level as u64) {
                    std::hint::spin_loop();
                }
            }
            _ => {}
        }
    }

    fn size_choice(&mut self) -> usize {
        let l = self.sh.cfg.spec.limit;
        let k = self.sh.cfg.threads * 2;
        match self.rng.below(8) {
            0 => 0,
            1 => 1,
            2 => l,
            3 => l / 2 + self.rng.usize(2),
            4 => l / k.max(1) + self.rng.usize(2),
            _ => self.rng.usize(l / 2 + 2),
        }
    }

    #[allow(clippy::too_many_arguments)]
    fn log(&mut self, t_call: u64, grant: bool, fallible: bool, n: usize, spill: bool, private_after: Option<usize>, churn: bool, what: String) {
        let reserved_read = if grant && fallible { Some(self.sh.built.pool.reserved()) } else { None };
        let t_ret = self.sh.clock.tick();
        if grant {
            self.granted_total += n;
        }
        self.recs.push(Rec { t_call, t_ret, grant, fallible, n, unspill: !spill, private_after: if spill { private_after } else { None }, own_consumer_is_churn: churn, reserved_read, what });
    }

    fn step_shared(&mut self) {
        let s = self.rng.usize(self.sh.shared.len());
        let r = self.sh.shared[s].clone();
        let spill = self.sh.cfg.cons_spill[self.sh.cfg.shared[s]];
        let credit = self.credits[s];
        let can_priv = self.privs.len() < 2;
        let w = [if self.sh.cfg.try_only { 0 } else { 5 }, 10, 6, 5, if can_priv { 3 } else { 0 }, if can_priv { 1 } else { 0 }];
        match self.rng.weighted(&w) {
            0 => {
                let n = self.size_choice();
                self.trace.push(format!("s{s}.grow({n})"));
                let tc = self.sh.clock.tick();
                r.grow(n);
                self.log(tc, true, false, n, spill, None, false, format!("t{} s{s}.grow({n})", self.t));
                self.credits[s] += n;
            }
            1 => {
                let n = self.size_choice();
                let tc = self.sh.clock.tick();
                let ok = r.try_grow(n).is_ok();
                self.trace.push(format!("s{s}.try_grow({n})->{ok}"));
                if ok {
                    self.log(tc, true, true, n, spill, None, false, format!("t{} s{s}.try_grow({n})", self.t));
                    self.credits[s] += n;
                } else {
                    self.failed_growths += 1;
                }
            }
            2 => {
                let n = self.rng.usize(credit + 1);
                self.trace.push(format!("s{s}.shrink({n})"));
                let tc = self.sh.clock.tick();
                r.shrink(n);
                self.log(tc, false, false, n, spill, None, false, format!("t{} s{s}.shrink({n})", self.t));
                self.credits[s] -= n;
            }
            3 => {
                let n = self.rng.usize(credit + 1);
                let tc = self.sh.clock.tick();
                let res = r.try_shrink(n);
                self.trace.push(format!("s{s}.try_shrink({n})->{}", res.is_ok()));
                match res {
                    Ok(_) => {
                        self.log(tc, false, false, n, spill, None, false, format!("t{} s{s}.try_shrink({n})", self.t));
                        self.credits[s] -= n;
                    }
                    // size >= sum of credits at all times, so shrinking own credit cannot fail
                    Err(e) => self.local_violation = Some(("try-shrink-failed-within-own-credit".into(), format!("t{} s{s}.try_shrink({n}) with own credit {credit}: {e}", self.t))),
                }
            }
            4 => {
                let n = self.rng.usize(credit + 1);
                self.trace.push(format!("s{s}.split({n})"));
                let p = r.split(n);
                self.credits[s] -= n;
                let name = format!("c{}", self.sh.cfg.shared[s]);
                self.privs.push(Private { r: p, model: n, name, spill, churn: false });
            }
            _ => {
                self.trace.push(format!("s{s}.new_empty()"));
                let p = r.new_empty();
                let name = format!("c{}", self.sh.cfg.shared[s]);
                self.privs.push(Private { r: p, model: 0, name, spill, churn: false });
            }
        }
    }

    fn step_private(&mut self) {
        let i = self.rng.usize(self.privs.len());
        let (spill, churn, size) = (self.privs[i].spill, self.privs[i].churn, self.privs[i].model);
        let try_only = self.sh.cfg.try_only;
        let t = self.t;
        let w = [if try_only { 0 } else { 4 }, 8, 4, 3, if try_only { 0 } else { 3 }, 6, 2, if self.privs.len() < 3 { 1 } else { 0 }, 3];
        match self.rng.weighted(&w) {
            0 => {
                let n = self.size_choice();
                self.trace.push(format!("p{i}.grow({n})"));
                let tc = self.sh.clock.tick();
                self.privs[i].r.grow(n);
                self.log(tc, true, false, n, spill, None, churn, format!("t{t} p{i}.grow({n})"));
                self.privs[i].model += n;
            }
            1 => {
                let n = self.size_choice();
                let tc = self.sh.clock.tick();
                let ok = self.privs[i].r.try_grow(n).is_ok();
                self.trace.push(format!("p{i}.try_grow({n})->{ok}"));
                if ok {
                    self.log(tc, true, true, n, spill, Some(size + n), churn, format!("t{t} p{i}.try_grow({n}) size_before={size}"));
                    self.privs[i].model += n;
                } else {
                    self.failed_growths += 1;
                }
            }
            2 => {
                let n = self.rng.usize(size + 1);
                self.trace.push(format!("p{i}.shrink({n})"));
                let tc = self.sh.clock.tick();
                self.privs[i].r.shrink(n);
                self.log(tc, false, false, n, spill, None, churn, format!("t{t} p{i}.shrink({n})"));
                self.privs[i].model -= n;
            }
            3 => {
                let n = self.rng.usize(size + 1);
                self.trace.push(format!("p{i}.try_shrink({n})"));
                let tc = self.sh.clock.tick();
                match self.privs[i].r.try_shrink(n) {
                    Ok(ns) => {
                        self.log(tc, false, false, n, spill, None, churn, format!("t{t} p{i}.try_shrink({n})"));
                        self.privs[i].model -= n;
                        if ns != size - n {
                            self.local_violation = Some(("wrong-return-value".into(), format!("t{t} private try_shrink({n}) of size {size} returned {ns}")));
                        }
                    }
                    Err(e) => self.local_violation = Some(("unexpected-failure".into(), format!("t{t} private try_shrink({n}) of size {size} failed: {e}"))),
                }
            }
            4 | 5 => {
                let fallible = w[4] == 0 || self.rng.bool();
                let c = if self.rng.bool() { self.rng.usize(size + 1) } else { size + self.size_choice() };
                let tc = self.sh.clock.tick();
                let ok = if fallible {
                    self.privs[i].r.try_resize(c).is_ok()
                } else {
                    self.privs[i].r.resize(c);
                    true
                };
                self.trace.push(format!("p{i}.{}resize({c})->{ok}", if fallible { "try_" } else { "" }));
                if ok {
                    if c > size {
                        self.log(tc, true, fallible, c - size, spill, Some(c), churn, format!("t{t} p{i}.resize({c}) size_before={size}"));
                    } else if c < size {
                        self.log(tc, false, false, size - c, spill, None, churn, format!("t{t} p{i}.resize({c})"));
                    }
                    self.privs[i].model = c;
                } else if c <= size {
                    self.local_violation = Some(("unexpected-failure".into(), format!("t{t} private try_resize({c}) of size {size} failed")));
                } else {
                    self.failed_growths += 1;
                }
            }
            6 => {
                self.trace.push(format!("p{i}.free()"));
                let tc = self.sh.clock.tick();
                let n = self.privs[i].r.free();
                self.log(tc, false, false, size, spill, None, churn, format!("t{t} p{i}.free()"));
                self.privs[i].model = 0;
                if n != size {
                    self.local_violation = Some(("wrong-return-value".into(), format!("t{t} private free() of size {size} returned {n}")));
                }
            }
            7 => {
                self.trace.push(format!("p{i}.take()"));
                let x = self.privs[i].r.take();
                let name = self.privs[i].name.clone();
                self.privs[i].model = 0;
                self.privs.push(Private { r: x, model: size, name, spill, churn });
            }
            _ => {
                self.trace.push(format!("drop(p{i})"));
                let tc = self.sh.clock.tick();
                let p = self.privs.remove(i);
                drop(p.r);
                self.log(tc, false, false, size, spill, None, churn, format!("t{t} drop(p{i})"));
            }
        }
        // thread-private reservation: nobody else touches it, its size is exact at any time
        if let Some(p) = self.privs.get(i) {
            if p.r.size() != p.model && self.local_violation.is_none() {
                self.local_violation = Some(("reservation-size-wrong".into(), format!("t{t} private reservation size()={} model={}", p.r.size(), p.model)));
            }
        }
    }

    fn step(&mut self) {
        let churn_live = self.privs.iter().any(|p| p.churn);
        if self.t == 0 && !churn_live && self.privs.len() < 3 {
            if let Some(spill) = self.sh.cfg.churn {
                if self.rng.chance(1, 3) {
                    let name = format!("churn{}", self.churn_seq);
                    self.churn_seq += 1;
                    self.trace.push(format!("register({name})"));
                    let r = MemoryConsumer::new(name.clone()).with_can_spill(spill).register(&self.sh.built.pool);
                    self.privs.push(Private { r, model: 0, name, spill, churn: true });
                    return;
                }
            }
        }
        if !self.privs.is_empty() && self.rng.chance(2, 5) {
            self.step_private()
        } else {
            self.step_shared()
        }
    }

    fn publish(&mut self, dead: &Option<String>) {
        let snap = Snap {
            credits: self.credits.clone(),
            privs: self.privs.iter().map(|p| (p.name.clone(), p.spill, p.model, p.r.size())).collect(),
            granted_total: self.granted_total,
            dead: dead.clone(),
        };
        *self.sh.snaps[self.t].lock().unwrap_or_else(|e| e.into_inner()) = snap;
    }
}

struct ConcOut {
    violation: Option<(String, Json)>,
    events: usize,
    grants: u64,
    failed: u64,
    barriers: u64,
    limit_checked: u64,
    share_checked: u64,
    resets: u64,
    fp: u64,
    sample: Option<Json>,
}

fn run_concurrent(cfg: &ConcCfg, seed: u64, selftest: u64) -> ConcOut {
    let built = build(&cfg.spec);
    let mut out = ConcOut { violation: None, events: 0, grants: 0, failed: 0, barriers: 0, limit_checked: 0, share_checked: 0, resets: 0, fp: fp_str(&cfg.to_json().to_string()), sample: None };
    // setup: shared consumers and reservations
    let mut first: Vec<Option<Arc<MemoryReservation>>> = vec![None; cfg.cons_spill.len()];
    let mut shared = vec![];
    for c in &cfg.shared {
        let r = match &first[*c] {
            Some(r0) => Arc::new(r0.new_empty()),
            None => Arc::new(MemoryConsumer::new(format!("c{c}")).with_can_spill(cfg.cons_spill[*c]).register(&built.pool)),
        };
        if first[*c].is_none() {
            first[*c] = Some(r.clone());
        }
        shared.push(r);
    }
    drop(first);
    let sh = Shared3 {
        cfg,
        built: &built,
        shared,
        clock: Clock::new(),
        barrier: Barrier::new(cfg.threads + 1),
        snaps: (0..cfg.threads).map(|_| Mutex::new(Snap::default())).collect(),
        abort: AtomicBool::new(false),
    };
    let mut viol: Option<(String, String)> = None;
    let mut main_rng = Rng::derive(seed, &[99]);
    let mut quiescent_totals: Vec<usize> = vec![];
    let mut since_reset_base: Vec<(usize, usize)> = vec![(0, 0); built.peaks.len()]; // (reserved at reset, granted_total at reset)
    let results: Vec<(Vec<Rec>, Vec<String>, u64)> = std::thread::scope(|scope| {
        let mut joins = vec![];
        for t in 0..cfg.threads {
            let sh = &sh;
            joins.push(scope.spawn(move || {
                let mut w = Worker { t, sh, rng: Rng::derive(seed, &[t as u64]), credits: vec![0; sh.shared.len()], privs: vec![], recs: vec![], trace: vec![], granted_total: 0,
                    failed_growths: 0, churn_seq: 0, local_violation: None };
                let mut dead: Option<String> = None;
                for phase in 0..=sh.cfg.phases {
                    if phase < sh.cfg.phases {
                        for _ in 0..sh.cfg.ops {
                            if dead.is_some() || sh.abort.load(Ordering::Relaxed) {
                                break;
                            }
                            w.pace();
                            if let Err(msg) = guard(|| w.step()) {
                                dead = Some(format!("unexpected-panic|t{t} panicked in {:?}: {msg}", w.trace.last()));
                            } else if let Some((sig, what)) = w.local_violation.take() {
                                dead = Some(format!("{sig}|{what}"));
                            }
                            if dead.is_some() {
                                sh.abort.store(true, Ordering::Relaxed);
                            }
                        }
                    } else {
                        // teardown phase: private reservations go away, shared ones stay with their credit
                        while let Some(p) = w.privs.pop() {
                            let tc = sh.clock.tick();
                            let (n, spill, churn) = (p.model, p.spill, p.churn);
                            drop(p.r);
                            w.log(tc, false, false, n, spill, None, churn, format!("t{t} teardown drop"));
                        }
                    }
                    w.publish(&dead);
                    sh.barrier.wait();
                    sh.barrier.wait();
                }
                (w.recs, w.trace, w.failed_growths)
            }));
        }
        // ---- main thread: the quiescent-point oracle ----
        for phase in 0..=cfg.phases {
            sh.barrier.wait();
            let snaps: Vec<Snap> = sh.snaps.iter().map(|s| s.lock().unwrap_or_else(|e| e.into_inner()).clone()).collect();
            out.barriers += 1;
            if viol.is_none() {
                if let Some(d) = snaps.iter().find_map(|s| s.dead.clone()) {
                    let (sig, what) = d.split_once('|').unwrap_or(("unexpected-panic", &d));
                    viol = Some((sig.to_string(), what.to_string()));
                }
            }
            if viol.is_none() {
                let mut reserved = built.pool.reserved();
                if selftest != 0 && phase == 0 {
                    reserved += 1;
                }
                let mut expect_total = 0usize;
                let mut per_cons: BTreeMap<String, (bool, usize)> = BTreeMap::new();
                for (c, sp) in cfg.cons_spill.iter().enumerate() {
                    per_cons.insert(format!("c{c}"), (*sp, 0));
                }
                for (s, r) in sh.shared.iter().enumerate() {
                    let want: usize = snaps.iter().map(|sn| sn.credits[s]).sum();
                    expect_total += want;
                    per_cons.get_mut(&format!("c{}", cfg.shared[s])).unwrap().1 += want;
                    if r.size() != want && viol.is_none() {
                        viol = Some(("reservation-size-wrong".into(), format!("quiescent point {phase}: shared reservation s{s} size()={} but the threads hold credit {want}", r.size())));
                    }
                }
                for sn in &snaps {
                    for (name, spill, model, observed) in &sn.privs {
                        expect_total += model;
                        per_cons.entry(name.clone()).or_insert((*spill, 0)).1 += model;
                        if model != observed && viol.is_none() {
                            viol = Some(("reservation-size-wrong".into(), format!("quiescent point {phase}: private reservation of {name} size()={observed} model={model}")));
                        }
                    }
                }
                let granted_total: usize = snaps.iter().map(|s| s.granted_total).sum();
                if reserved != expect_total && viol.is_none() {
                    viol = Some(("reserved-not-sum-of-reservations".into(), format!("quiescent point {phase}: pool.reserved()={reserved} but live reservations sum to {expect_total}")));
                }
                // bounded pool, growth only through try_*: used <= L is invariant
                let bounded_total = cfg.try_only && (cfg.spec.base == Base::Greedy || (cfg.spec.base == Base::Fair && cfg.cons_spill.iter().all(|s| !*s) && cfg.churn != Some(true)));
                if bounded_total && reserved > cfg.spec.limit && viol.is_none() {
                    viol = Some(("granted-beyond-limit/concurrent".into(), format!("quiescent point {phase}: reserved()={reserved} > limit {} although every growth was fallible", cfg.spec.limit)));
                }
                for (layer, tr) in snapshot_trackers(&built).iter().enumerate() {
                    let got: BTreeMap<String, (bool, usize, usize)> = tr.iter().map(|x| (x.0.clone(), (x.1, x.2, x.3))).collect();
                    if viol.is_some() {
                        break;
                    }
                    if got.keys().collect::<Vec<_>>() != per_cons.keys().collect::<Vec<_>>() {
                        viol = Some(("tracked-consumer-set".into(), format!("quiescent point {phase}: tracker layer {layer} reports {:?}, registered are {:?}", got.keys().collect::<Vec<_>>(), per_cons.keys().collect::<Vec<_>>())));
                        break;
                    }
                    for (name, (spill, want)) in &per_cons {
                        let (gs, gr, gp) = got[name];
                        if gr != *want || gs != *spill {
                            viol = Some(("tracked-reserved-not-consumer-sum".into(), format!("quiescent point {phase}: tracker layer {layer}: {name} reserved={gr} but its reservations sum to {want}")));
                        } else if gp < gr {
                            viol = Some(("tracked-peak-below-reserved".into(), format!("quiescent point {phase}: tracker layer {layer}: {name} peak={gp} < reserved={gr}")));
                        }
                    }
                }
                quiescent_totals.push(expect_total);
                let run_max = quiescent_totals.iter().copied().max().unwrap_or(0);
                for (layer, p) in built.peaks.iter().enumerate() {
                    let (pk, mx) = (p.peak(), p.max());
                    let (base_res, base_granted) = since_reset_base[layer];
                    let bad = if pk < expect_total {
                        Some(format!("peak_reserved()={pk} < reserved()={expect_total}"))
                    } else if mx < run_max {
                        Some(format!("max_reserved()={mx} < an earlier quiescent total {run_max}"))
                    } else if pk > mx {
                        Some(format!("peak_reserved()={pk} > max_reserved()={mx}"))
                    } else if mx > granted_total {
                        Some(format!("max_reserved()={mx} exceeds everything ever granted ({granted_total})"))
                    } else if pk > base_res + (granted_total - base_granted) {
                        Some(format!("peak_reserved()={pk} exceeds reserved-at-reset {base_res} plus everything granted since ({})", granted_total - base_granted))
                    } else {
                        None
                    };
                    if let (Some(b), true) = (bad, viol.is_none()) {
                        viol = Some(("peak-recording-peak-wrong".into(), format!("quiescent point {phase}: peak layer {layer}: {b}")));
                    }
                    if main_rng.chance(1, 3) {
                        // "Reset ... to what is reserved right now"
                        p.reset();
                        out.resets += 1;
                        since_reset_base[layer] = (expect_total, granted_total);
                        if p.peak() != expect_total && viol.is_none() {
                            viol = Some(("peak-recording-peak-wrong".into(), format!("quiescent point {phase}: peak layer {layer}: reset_peak() left peak_reserved()={} with {expect_total} reserved", p.peak())));
                        }
                    }
                }
            }
            if viol.is_some() {
                sh.abort.store(true, Ordering::Relaxed);
            }
            sh.barrier.wait();
        }
        joins.into_iter().map(|j| j.join().unwrap_or_else(|_| (vec![], vec!["<worker thread died>".into()], 0))).collect()
    });
    // everything dropped => zero
    let Shared3 { shared, .. } = sh;
    let drop_res = guard(move || drop(shared));
    if viol.is_none() {
        if let Err(m) = drop_res {
            viol = Some(("unexpected-panic".into(), format!("dropping the shared reservations panicked: {m}")));
        } else if built.pool.reserved() != 0 {
            viol = Some(("reserved-not-zero-after-all-dropped".into(), format!("pool.reserved()={} after every reservation was dropped", built.pool.reserved())));
        } else if built.trackers.iter().any(|t| !t.metrics().is_empty()) {
            viol = Some(("tracked-consumer-set".into(), "consumers still tracked after every reservation was dropped".into()));
        }
    }
    // ---- offline limit check over the call/return log ----
    let mut all: Vec<&Rec> = results.iter().flat_map(|r| r.0.iter()).collect();
    all.sort_by_key(|r| r.t_ret);
    out.events = all.len();
    out.failed = results.iter().map(|r| r.2).sum();
    let l = cfg.spec.limit as i64;
    let static_spillers = cfg.cons_spill.iter().filter(|s| **s).count();
    for g in all.iter().filter(|r| r.grant && r.fallible) {
        out.grants += 1;
        out.fp = fp_mix(out.fp, fp_str(&g.what));
        // a granted growth by 0 bytes grows nothing (FairSpillPool admits it even when infallible
        // grows have pushed the pool above its size; the sequential model encodes that case exactly)
        if viol.is_some() || cfg.spec.base == Base::Unbounded || g.n == 0 {
            continue;
        }
        // lower bound of what the pool had handed out at the instant this growth was admitted:
        // growths that had returned before the call, minus releases that had begun before the return
        let lb = |only_unspill: bool| -> i64 {
            let mut x = 0i64;
            for e in all.iter().filter(|e| !only_unspill || e.unspill) {
                if e.grant && e.t_ret < g.t_call {
                    x += e.n as i64;
                } else if !e.grant && e.t_call < g.t_ret {
                    x -= e.n as i64;
                }
            }
            x
        };
        if cfg.spec.base == Base::Greedy || g.unspill {
            out.limit_checked += 1;
            let held = lb(false);
            if held + g.n as i64 > l {
                viol = Some(("granted-beyond-limit/concurrent".into(), format!("{} was granted although at least {held} bytes were held at that moment under every linearization (limit {l})", g.what)));
            }
            if let (true, Some(rd)) = (cfg.try_only && cfg.spec.base == Base::Greedy, g.reserved_read) {
                if rd as i64 > l {
                    viol = Some(("granted-beyond-limit/concurrent".into(), format!("reserved()={rd} read right after {} exceeds the limit {l} although every growth was fallible", g.what)));
                }
            }
        } else if let Some(after) = g.private_after {
            // fair pool, spilling thread-private reservation: size after <= (L - unspillable) / num_spill
            out.share_checked += 1;
            let ns_min = (static_spillers + usize::from(g.own_consumer_is_churn)).max(1);
            let bound = (l - lb(true).max(0)).max(0) as usize / ns_min;
            if after > bound {
                viol = Some(("granted-beyond-limit/concurrent".into(), format!("{}: reservation reached {after} bytes, above the fair share bound {bound} (limit {l}, at least {ns_min} spilling consumers)", g.what)));
            }
        }
    }
    if let Some((sig, what)) = viol {
        out.violation = Some((sig, json!({"stage": "concurrent", "config": cfg.to_json(), "seed": seed, "what": what,
            "thread_ops": results.iter().map(|r| r.1.clone()).collect::<Vec<_>>() })));
    } else {
        out.sample = Some(json!({"stage": "concurrent", "config": cfg.to_json(), "quiescent_totals": quiescent_totals,
            "thread0_ops_head": results.first().map(|r| r.1.iter().take(10).cloned().collect::<Vec<_>>()) }));
    }
    out
}

fn record_conc(rep: &Report, cfg: &ConcCfg, o: ConcOut) {
    rep.case(o.fp, o.events > 4);
    rep.count("conc_runs", 1);
    rep.count(&format!("conc_runs/{:?}", cfg.spec.base), 1);
    rep.count("conc_logged_growths_and_releases", o.events as u64);
    rep.count("conc_successful_try_grow_logged", o.grants);
    rep.count("conc_failed_growths", o.failed);
    rep.count("conc_barriers_reached", o.barriers);
    rep.count("conc_limit_bound_checked", o.limit_checked);
    rep.count("conc_fair_share_bound_checked", o.share_checked);
    rep.count("conc_peak_resets", o.resets);
    rep.seen("pool_shapes_concurrent", &cfg.spec.name());
    if let Some((sig, d)) = o.violation {
        rep.violation(&sig, d);
    } else if let (Some(s), true) = (o.sample, rep.get_count("conc_samples") < 2 && o.events > 8) {
        rep.count("conc_samples", 1);
        rep.sample(s);
    }
}

// ---------------------------------------------------------------------------------------

fn run(args: &Args) -> i32 {
    let rep = Report::new("C17", "exploration", args);
    rep.set_rule("case = one operation history on one real pool (base Unbounded/Greedy/FairSpill under 8 wrapper nestings of TrackConsumersPool / \
        PeakRecordingPool). sequential: <= 60 random ops over 1..3 consumers, sizes around the limit, the fair share and the remaining capacity, all \
        observables compared with a sequential model after every op; concurrent: 2..3 threads, shared Arc<MemoryReservation>s plus thread-private ones, \
        barriers as quiescent points. distinct = fingerprint of pool spec + op/outcome sequence (sequential) or spec + granted-growth log (concurrent); \
        non-trivial = >= 5 ops with a fallible growth decided (sequential) / > 4 logged growths or releases (concurrent)");
    rep.assume("consumer names are unique per case (TrackConsumersPool::metrics() exposes names, not ids)");
    rep.assume("FairSpillPool fair share is measured per reservation (reservation.size() + additional), as its try_grow does; a consumer holding several reservations may exceed one share in total (counted, not asserted)");
    rep.assume("concurrent limit bound relies on call/return ticks of one relaxed counter being consistent with the order of atomic RMWs (true on x86-TSO and under Miri)");
    let selftest = args.opt_u64("selftest", 0);
    let miri = cfg!(miri) || args.stage == "miri";
    let tsan = args.stage == "tsan";
    let memcheck = args.stage == "memcheck";
    let workers = if miri { 1 } else if tsan { args.workers.min(4) } else { args.workers };

    if !tsan {
        // systematic part (seed independent): every base x nesting x a boundary limit, fixed generator seed
        let mut sys: Vec<(PoolSpec, u64)> = vec![];
        if !miri {
            for base in BASES {
                for shape in 0..SHAPES.len() {
                    for (li, limit) in [0usize, 1, 10, 99].into_iter().enumerate() {
                        for k in 0..(if memcheck { 1 } else { 4 }) {
                            sys.push((PoolSpec { base, limit, shape, top: 1 + (k as usize % 3) }, (shape * 100 + li * 10) as u64 + k));
                        }
                    }
                }
            }
        }
        vcommon::par::run(workers, sys.into_iter(), |(spec, k)| {
            let mut rng = Rng::derive(0, &[17, 0, spec.base as u64, k]);
            let o = run_sequential(spec, &mut rng, 60, 0);
            rep.count("seq_systematic_histories", 1);
            record_seq(&rep, o);
        });
        let n = if miri { args.opt_u64("seq", 20) } else if memcheck { args.bound("seq", 2_000, 100_000) } else { args.bound("seq", 200_000, 5_000_000) };
        let max_ops = if miri { 14 } else { 60 };
        vcommon::par::run(workers, 0..n, |i| {
            if rep.violation_count() > 8 {
                return;
            }
            let mut rng = Rng::derive(args.seed, &[17, 1, i]);
            let spec = gen_spec(&mut rng);
            let o = run_sequential(spec, &mut rng, max_ops, if i < 40 { selftest } else { 0 });
            record_seq(&rep, o);
        });
        if !miri {
            for base in BASES {
                for shape in SHAPES {
                    let name = shape.replace('B', &format!("{base:?}"));
                    rep.obligation(&format!("covered/{name}"), rep.get_count(&format!("seq_histories/{name}")) > 0, "every pool kind under every wrapper nesting must have run");
                }
            }
            rep.obligation("denied-growth/Greedy", rep.get_count("seq_denied_fallible_growth/Greedy") > 0, "the greedy limit must have refused at least one growth");
            rep.obligation("denied-growth/Fair", rep.get_count("seq_denied_fallible_growth/Fair") > 0, "the fair pool must have refused at least one growth");
            rep.obligation("documented-panics", rep.get_count("seq_documented_panics_observed") > 0, "shrink/split beyond size must have produced the documented panic");
            rep.obligation("unregistration", rep.get_count("seq_consumer_unregistrations") > 0, "a consumer's last reservation must have been dropped while others live");
        }
    }

    let runs = if miri { args.opt_u64("conc", 2) } else if tsan { args.bound("conc", 300, 500) } else if memcheck { args.bound("conc", 200, 2_000) } else { args.bound("conc", 5_000, 200_000) };
    vcommon::par::run(workers, 0..runs, |i| {
        if rep.violation_count() > 8 {
            return;
        }
        let mut rng = Rng::derive(args.seed, &[17, 2, i]);
        let cfg = gen_conc(&mut rng, miri);
        let o = run_concurrent(&cfg, rng.next_u64(), if i == 0 && (tsan || selftest >= 10) { selftest } else { 0 });
        record_conc(&rep, &cfg, o);
    });
    rep.obligation("barriers", rep.get_count("conc_barriers_reached") > 0, "quiescent points must have been reached");
    if !miri {
        rep.obligation("concurrent-limit-bound", rep.get_count("conc_limit_bound_checked") > 0, "the limit bound must have been evaluated on logged growths");
    }
    rep.finish()
}

fn main() {
    let args = Args::parse();
    vcommon::par::quiet_panics();
    std::process::exit(run(&args));
}
