//! `Expr`, `LogicalPlan` and the `*_with_subqueries` family.

use super::super::{
    cb, finish_real, from_tnr, judge_opt, maybe_corrupt, record_violation, pk, reference, Api, Chg, Ctl, Outcome, Policy, EMPTY_TRAILING,
    RealRes, Rec, Report, Subject, DOWN, UP,
};
use super::generic_case;
use arrow::datatypes::{DataType, Field};
use datafusion_common::tree_node::{Transformed, TreeNodeRecursion, TreeNodeRewriter, TreeNodeVisitor};
use datafusion_common::{Column, DFSchema, Result as DfResult, ScalarValue, Spans};
use datafusion_expr::expr::{
    AggregateFunction, Alias, Between, BinaryExpr, Case, Cast, Exists, GroupingSet, InList, Like, ScalarFunction,
    Sort as SortExpr, TryCast, WindowFunction, WindowFunctionDefinition, WindowFunctionParams,
};
use datafusion_expr::logical_plan::{Distinct, EmptyRelation, LogicalPlan, Subquery};
use datafusion_expr::test::function_stub::{sum, sum_udaf};
use datafusion_expr::{
    create_udf, exists, in_subquery, lit, scalar_subquery, ColumnarValue, Expr, JoinType, LogicalPlanBuilder, Operator, ScalarUDF,
    Volatility, WindowFrame,
};
use std::cell::RefCell;
use std::collections::HashMap;
use std::sync::{Arc, OnceLock};
use vcommon::{fp_mix, fp_str, json, Rng};

// ---------------------------------------------------------------------------------------
// Expr: children by hand
// ---------------------------------------------------------------------------------------

fn bx(e: &Expr) -> Expr {
    e.clone()
}

pub fn expr_kids(e: &Expr) -> Vec<Expr> {
    match e {
        Expr::Alias(a) => vec![bx(&a.expr)],
        Expr::Not(x)
        | Expr::IsNull(x)
        | Expr::IsNotNull(x)
        | Expr::IsTrue(x)
        | Expr::IsFalse(x)
        | Expr::IsUnknown(x)
        | Expr::IsNotTrue(x)
        | Expr::IsNotFalse(x)
        | Expr::IsNotUnknown(x)
        | Expr::Negative(x) => vec![bx(x)],
        Expr::Cast(c) => vec![bx(&c.expr)],
        Expr::TryCast(c) => vec![bx(&c.expr)],
        Expr::Unnest(u) => vec![bx(&u.expr)],
        Expr::InSubquery(s) => vec![bx(&s.expr)],
        Expr::BinaryExpr(b) => vec![bx(&b.left), bx(&b.right)],
        Expr::Like(l) | Expr::SimilarTo(l) => vec![bx(&l.expr), bx(&l.pattern)],
        Expr::Between(b) => vec![bx(&b.expr), bx(&b.low), bx(&b.high)],
        Expr::Case(c) => {
            let mut v = vec![];
            if let Some(x) = &c.expr {
                v.push(bx(x));
            }
            for (w, t) in &c.when_then_expr {
                v.push(bx(w));
                v.push(bx(t));
            }
            if let Some(x) = &c.else_expr {
                v.push(bx(x));
            }
            v
        }
        Expr::InList(l) => {
            let mut v = vec![bx(&l.expr)];
            v.extend(l.list.iter().cloned());
            v
        }
        Expr::ScalarFunction(f) => f.args.clone(),
        Expr::AggregateFunction(a) => {
            let mut v = a.params.args.clone();
            if let Some(f) = &a.params.filter {
                v.push(bx(f));
            }
            v.extend(a.params.order_by.iter().map(|s| s.expr.clone()));
            v
        }
        Expr::WindowFunction(w) => {
            let p = &w.params;
            let mut v = p.args.clone();
            v.extend(p.partition_by.iter().cloned());
            v.extend(p.order_by.iter().map(|s| s.expr.clone()));
            if let Some(f) = &p.filter {
                v.push(bx(f));
            }
            v
        }
        Expr::GroupingSet(GroupingSet::Rollup(v)) | Expr::GroupingSet(GroupingSet::Cube(v)) => v.clone(),
        Expr::GroupingSet(GroupingSet::GroupingSets(vv)) => vv.iter().flatten().cloned().collect(),
        Expr::Column(_)
        | Expr::Literal(_, _)
        | Expr::Exists(_)
        | Expr::ScalarSubquery(_)
        | Expr::Placeholder(_)
        | Expr::OuterReferenceColumn(_, _)
        | Expr::ScalarVariable(_, _) => vec![],
        other => panic!("oracle has no children rule for {}", other.variant_name()),
    }
}

pub fn expr_rebuild(e: Expr, kids: Vec<Expr>) -> Expr {
    let mut it = kids.into_iter();
    let mut nx = move || it.next().expect("enough children");
    macro_rules! unary {
        ($v:path) => {
            $v(Box::new(nx()))
        };
    }
    match e {
        Expr::Alias(mut a) => {
            a.expr = Box::new(nx());
            Expr::Alias(a)
        }
        Expr::Not(_) => unary!(Expr::Not),
        Expr::IsNull(_) => unary!(Expr::IsNull),
        Expr::IsNotNull(_) => unary!(Expr::IsNotNull),
        Expr::IsTrue(_) => unary!(Expr::IsTrue),
        Expr::IsFalse(_) => unary!(Expr::IsFalse),
        Expr::IsUnknown(_) => unary!(Expr::IsUnknown),
        Expr::IsNotTrue(_) => unary!(Expr::IsNotTrue),
        Expr::IsNotFalse(_) => unary!(Expr::IsNotFalse),
        Expr::IsNotUnknown(_) => unary!(Expr::IsNotUnknown),
        Expr::Negative(_) => unary!(Expr::Negative),
        Expr::Cast(mut c) => {
            c.expr = Box::new(nx());
            Expr::Cast(c)
        }
        Expr::TryCast(mut c) => {
            c.expr = Box::new(nx());
            Expr::TryCast(c)
        }
        Expr::Unnest(mut u) => {
            u.expr = Box::new(nx());
            Expr::Unnest(u)
        }
        Expr::InSubquery(mut s) => {
            s.expr = Box::new(nx());
            Expr::InSubquery(s)
        }
        Expr::BinaryExpr(mut b) => {
            b.left = Box::new(nx());
            b.right = Box::new(nx());
            Expr::BinaryExpr(b)
        }
        Expr::Like(mut l) => {
            l.expr = Box::new(nx());
            l.pattern = Box::new(nx());
            Expr::Like(l)
        }
        Expr::SimilarTo(mut l) => {
            l.expr = Box::new(nx());
            l.pattern = Box::new(nx());
            Expr::SimilarTo(l)
        }
        Expr::Between(mut b) => {
            b.expr = Box::new(nx());
            b.low = Box::new(nx());
            b.high = Box::new(nx());
            Expr::Between(b)
        }
        Expr::Case(mut c) => {
            if c.expr.is_some() {
                c.expr = Some(Box::new(nx()));
            }
            for wt in c.when_then_expr.iter_mut() {
                wt.0 = Box::new(nx());
                wt.1 = Box::new(nx());
            }
            if c.else_expr.is_some() {
                c.else_expr = Some(Box::new(nx()));
            }
            Expr::Case(c)
        }
        Expr::InList(mut l) => {
            l.expr = Box::new(nx());
            for x in l.list.iter_mut() {
                *x = nx();
            }
            Expr::InList(l)
        }
        Expr::ScalarFunction(mut f) => {
            for a in f.args.iter_mut() {
                *a = nx();
            }
            Expr::ScalarFunction(f)
        }
        Expr::AggregateFunction(mut a) => {
            for x in a.params.args.iter_mut() {
                *x = nx();
            }
            if a.params.filter.is_some() {
                a.params.filter = Some(Box::new(nx()));
            }
            for s in a.params.order_by.iter_mut() {
                s.expr = nx();
            }
            Expr::AggregateFunction(a)
        }
        Expr::WindowFunction(mut w) => {
            for x in w.params.args.iter_mut() {
                *x = nx();
            }
            for x in w.params.partition_by.iter_mut() {
                *x = nx();
            }
            for s in w.params.order_by.iter_mut() {
                s.expr = nx();
            }
            if w.params.filter.is_some() {
                w.params.filter = Some(Box::new(nx()));
            }
            Expr::WindowFunction(w)
        }
        Expr::GroupingSet(GroupingSet::Rollup(v)) => Expr::GroupingSet(GroupingSet::Rollup(v.iter().map(|_| nx()).collect())),
        Expr::GroupingSet(GroupingSet::Cube(v)) => Expr::GroupingSet(GroupingSet::Cube(v.iter().map(|_| nx()).collect())),
        Expr::GroupingSet(GroupingSet::GroupingSets(vv)) => {
            Expr::GroupingSet(GroupingSet::GroupingSets(vv.iter().map(|v| v.iter().map(|_| nx()).collect()).collect()))
        }
        leaf => leaf,
    }
}

fn rot_op(op: Operator) -> Operator {
    match op {
        Operator::Plus => Operator::Minus,
        Operator::Minus => Operator::Multiply,
        Operator::Multiply => Operator::Plus,
        Operator::Eq => Operator::NotEq,
        Operator::NotEq => Operator::Lt,
        Operator::Lt => Operator::GtEq,
        Operator::GtEq => Operator::Eq,
        Operator::And => Operator::Or,
        Operator::Or => Operator::And,
        _ => Operator::Plus,
    }
}

fn expr_relabel(e: Expr) -> Result<Expr, Expr> {
    Ok(match e {
        Expr::Literal(ScalarValue::Int64(Some(v)), m) => Expr::Literal(ScalarValue::Int64(Some(v + 1_000_000)), m),
        Expr::Literal(ScalarValue::Utf8(Some(s)), m) => Expr::Literal(ScalarValue::Utf8(Some(format!("{s}_r"))), m),
        Expr::Column(c) => Expr::Column(Column::new_unqualified(format!("{}_r", c.name))),
        Expr::Alias(mut a) => {
            a.name = format!("{}_r", a.name);
            Expr::Alias(a)
        }
        Expr::BinaryExpr(mut b) => {
            b.op = rot_op(b.op);
            Expr::BinaryExpr(b)
        }
        Expr::Not(x) => Expr::IsNull(x),
        Expr::IsNull(x) => Expr::IsNotNull(x),
        Expr::IsNotNull(x) => Expr::Negative(x),
        Expr::Negative(x) => Expr::IsTrue(x),
        Expr::IsTrue(x) => Expr::IsNotUnknown(x),
        Expr::IsNotUnknown(x) => Expr::Not(x),
        Expr::Like(mut l) => {
            l.negated = !l.negated;
            Expr::Like(l)
        }
        Expr::SimilarTo(mut l) => {
            l.case_insensitive = !l.case_insensitive;
            Expr::SimilarTo(l)
        }
        Expr::Between(mut b) => {
            b.negated = !b.negated;
            Expr::Between(b)
        }
        Expr::InList(mut l) => {
            l.negated = !l.negated;
            Expr::InList(l)
        }
        Expr::Cast(c) => {
            let to = if c.field.data_type() == &DataType::Int64 { DataType::Int32 } else { DataType::Int64 };
            Expr::Cast(Cast::new(c.expr, to))
        }
        Expr::TryCast(c) => {
            let to = if c.field.data_type() == &DataType::Int64 { DataType::Int32 } else { DataType::Int64 };
            Expr::TryCast(TryCast::new(c.expr, to))
        }
        Expr::ScalarFunction(mut f) => {
            f.func = if f.func.name() == "c42_f1" { udf(2) } else { udf(1) };
            Expr::ScalarFunction(f)
        }
        Expr::AggregateFunction(mut a) => {
            a.params.distinct = !a.params.distinct;
            Expr::AggregateFunction(a)
        }
        Expr::WindowFunction(mut w) => {
            w.params.distinct = !w.params.distinct;
            Expr::WindowFunction(w)
        }
        Expr::GroupingSet(GroupingSet::Rollup(v)) => Expr::GroupingSet(GroupingSet::Cube(v)),
        Expr::GroupingSet(GroupingSet::Cube(v)) => Expr::GroupingSet(GroupingSet::Rollup(v)),
        Expr::Exists(mut x) => {
            x.negated = !x.negated;
            Expr::Exists(x)
        }
        Expr::InSubquery(mut x) => {
            x.negated = !x.negated;
            Expr::InSubquery(x)
        }
        other => return Err(other),
    })
}

impl Subject for Expr {
    fn key(&self) -> u64 {
        super::dbg_key(self)
    }
    fn show(&self) -> String {
        format!("{self:?}")
    }
    fn dup(&self) -> Self {
        self.clone()
    }
    fn same(&self, o: &Self) -> bool {
        self == o
    }
    fn kids(&self) -> Vec<Self> {
        expr_kids(self)
    }
    fn rebuild(self, kids: Vec<Self>) -> Self {
        expr_rebuild(self, kids)
    }
    fn relabel(self) -> Result<Self, Self> {
        expr_relabel(self)
    }
    fn fresh_leaf(&self, salt: u64) -> Self {
        lit(7_000_000_000i64 + (salt % 1_000_000_000) as i64)
    }
    fn known_jump_loss(&self, after_kid: usize, n_kids: usize) -> Option<(&'static str, usize)> {
        if after_kid + 1 != n_kids {
            return None;
        }
        // the children containers of these variants end with an empty container
        let empty_tail = match self {
            Expr::Case(c) => c.else_expr.is_none(),
            Expr::InList(l) => l.list.is_empty(),
            Expr::AggregateFunction(a) => a.params.order_by.is_empty(),
            Expr::WindowFunction(w) => w.params.filter.is_none(),
            Expr::GroupingSet(GroupingSet::GroupingSets(vv)) => vv.last().is_some_and(|v| v.is_empty()),
            _ => false,
        };
        empty_tail.then_some((EMPTY_TRAILING, 0))
    }
}

fn udf(i: u8) -> Arc<ScalarUDF> {
    static F: OnceLock<[Arc<ScalarUDF>; 2]> = OnceLock::new();
    let f = F.get_or_init(|| {
        let mk = |name: &str| {
            Arc::new(create_udf(
                name,
                vec![DataType::Int64],
                DataType::Int64,
                Volatility::Immutable,
                Arc::new(|_: &[ColumnarValue]| Ok(ColumnarValue::Scalar(ScalarValue::Int64(None)))),
            ))
        };
        [mk("c42_f1"), mk("c42_f2")]
    });
    Arc::clone(&f[(i - 1) as usize])
}

// ---------------------------------------------------------------------------------------
// Generators
// ---------------------------------------------------------------------------------------

pub struct Gen<'r> {
    rng: &'r mut Rng,
    uniq: i64,
    budget: i64,
    subqueries: u64,
}

impl<'r> Gen<'r> {
    fn k(&mut self) -> i64 {
        self.uniq += 1;
        self.uniq
    }
    fn leaf_expr(&mut self) -> Expr {
        let k = self.k();
        match self.rng.below(10) {
            0..=4 => lit(k),
            5..=7 => Expr::Column(Column::new_unqualified(format!("c{k}"))),
            8 => lit(format!("s{k}")),
            _ => Expr::Placeholder(datafusion_expr::expr::Placeholder::new_with_field(format!("$p{k}"), None)),
        }
    }
    fn sub_plan_leaf(&mut self) -> Arc<LogicalPlan> {
        let k = self.k();
        Arc::new(LogicalPlanBuilder::values(vec![vec![lit(k)]]).unwrap().build().unwrap())
    }
    fn sort(&mut self, d: u32) -> SortExpr {
        SortExpr::new(self.expr(d), self.rng.bool(), self.rng.bool())
    }
    fn vec_expr(&mut self, max: usize, d: u32) -> Vec<Expr> {
        (0..self.rng.usize(max + 1)).map(|_| self.expr(d)).collect()
    }
    fn opt_box(&mut self, d: u32) -> Option<Box<Expr>> {
        if self.rng.bool() { Some(Box::new(self.expr(d))) } else { None }
    }

    /// untyped random expression (never type checked or evaluated)
    pub fn expr(&mut self, depth: u32) -> Expr {
        self.budget -= 1;
        if depth == 0 || self.budget <= 0 {
            return self.leaf_expr();
        }
        let d = depth - 1;
        let b = |g: &mut Self| Box::new(g.expr(d));
        match self.rng.below(24) {
            0..=3 => {
                let op = *self.rng.pick(&[Operator::Plus, Operator::Minus, Operator::Multiply, Operator::Eq, Operator::Lt, Operator::And, Operator::Or]);
                Expr::BinaryExpr(BinaryExpr::new(b(self), op, b(self)))
            }
            4 => Expr::Not(b(self)),
            5 => Expr::IsNull(b(self)),
            6 => Expr::Negative(b(self)),
            7 => Expr::IsNotNull(b(self)),
            8 => Expr::Cast(Cast::new(b(self), DataType::Int64)),
            9 => Expr::TryCast(TryCast::new(b(self), DataType::Int32)),
            10 => {
                let k = self.k();
                Expr::Alias(Alias::new(self.expr(d), None::<&str>, format!("a{k}")))
            }
            11 => Expr::Like(Like::new(self.rng.bool(), b(self), b(self), None, self.rng.bool())),
            12 => Expr::SimilarTo(Like::new(self.rng.bool(), b(self), b(self), Some('\\'), false)),
            13 => Expr::Between(Between::new(b(self), self.rng.bool(), b(self), b(self))),
            14 | 15 => {
                let base = self.opt_box(d);
                let n = 1 + self.rng.usize(2);
                let wt = (0..n).map(|_| (b(self), b(self))).collect();
                let el = self.opt_box(d);
                Expr::Case(Case::new(base, wt, el))
            }
            16 | 17 => {
                let e = self.expr(d);
                let n = self.rng.usize(4);
                let list = (0..n).map(|_| self.expr(d)).collect();
                Expr::InList(InList::new(Box::new(e), list, self.rng.bool()))
            }
            18 => {
                let args = self.vec_expr(3, d);
                Expr::ScalarFunction(ScalarFunction::new_udf(udf(1), args))
            }
            19 => {
                let args = self.vec_expr(2, d);
                let filter = self.opt_box(d);
                let n = self.rng.usize(3);
                let order_by = (0..n).map(|_| self.sort(d)).collect();
                Expr::AggregateFunction(AggregateFunction::new_udf(sum_udaf(), args, self.rng.bool(), filter, order_by, None))
            }
            20 => {
                let params = WindowFunctionParams {
                    args: self.vec_expr(2, d),
                    partition_by: self.vec_expr(2, d),
                    order_by: (0..self.rng.usize(3)).map(|_| self.sort(d)).collect(),
                    window_frame: WindowFrame::new(None),
                    filter: self.opt_box(d),
                    null_treatment: None,
                    distinct: false,
                };
                Expr::WindowFunction(Box::new(WindowFunction { fun: WindowFunctionDefinition::AggregateUDF(sum_udaf()), params }))
            }
            21 => match self.rng.below(3) {
                0 => Expr::GroupingSet(GroupingSet::Rollup(self.vec_expr(3, d))),
                1 => Expr::GroupingSet(GroupingSet::Cube(self.vec_expr(3, d))),
                _ => {
                    let n = self.rng.usize(4);
                    Expr::GroupingSet(GroupingSet::GroupingSets((0..n).map(|_| self.vec_expr(2, d)).collect()))
                }
            },
            22 => {
                let sub = self.sub_plan_leaf();
                match self.rng.below(3) {
                    0 => exists(sub),
                    1 => scalar_subquery(sub),
                    _ => in_subquery(self.expr(d), sub),
                }
            }
            _ => Expr::Unnest(datafusion_expr::expr::Unnest::new(self.expr(d))),
        }
    }

    // ---- plans: every generated plan has exactly one Int64 output column ----

    fn leaf_plan(&mut self, subq: u32) -> DfResult<LogicalPlan> {
        let k = self.k();
        if subq > 0 && self.rng.chance(1, 5) {
            // a leaf whose only "children" are subqueries
            let s = self.subquery(subq - 1)?;
            return LogicalPlanBuilder::values(vec![vec![scalar_subquery(s)]])?.build();
        }
        if self.rng.chance(3, 5) {
            let rows = (0..1 + self.rng.usize(2)).map(|_| vec![lit(self.k())]).collect();
            LogicalPlanBuilder::values(rows)?.build()
        } else {
            let schema = DFSchema::from_unqualified_fields(vec![Field::new(format!("e{k}"), DataType::Int64, true)].into(), HashMap::new())?;
            Ok(LogicalPlan::EmptyRelation(EmptyRelation { produce_one_row: self.rng.bool(), schema: Arc::new(schema) }))
        }
    }

    fn subquery(&mut self, subq: u32) -> DfResult<Arc<LogicalPlan>> {
        self.subqueries += 1;
        let d = self.rng.usize(3) as u32;
        Ok(Arc::new(self.plan(d, subq)?))
    }

    fn scalar(&mut self, subq: u32) -> DfResult<Expr> {
        let k = self.k();
        Ok(match self.rng.below(6) {
            0 | 1 => lit(k),
            2 => lit(k) + lit(self.k()),
            3 | 4 if subq > 0 => scalar_subquery(self.subquery(subq - 1)?),
            _ => Expr::Negative(Box::new(lit(k))),
        })
    }

    fn pred(&mut self, subq: u32, depth: u32) -> DfResult<Expr> {
        let k = self.k();
        if subq == 0 {
            return Ok(lit(k).eq(lit(self.k())));
        }
        Ok(match self.rng.below(9) {
            0 => lit(k).eq(lit(self.k())),
            1 | 2 => Expr::Exists(Exists::new(Subquery { subquery: self.subquery(subq - 1)?, outer_ref_columns: vec![], spans: Spans::new() }, self.rng.bool())),
            3 => in_subquery(lit(k), self.subquery(subq - 1)?),
            4 => {
                // a subquery nested in the tested expression of another subquery expression
                let inner = scalar_subquery(self.subquery(subq - 1)?);
                in_subquery(inner, self.subquery(subq - 1)?)
            }
            5 => lit(k).eq(scalar_subquery(self.subquery(subq - 1)?)),
            6 | 7 if depth > 0 => {
                let l = self.pred(subq, depth - 1)?;
                let r = self.pred(subq, depth - 1)?;
                if self.rng.bool() { l.and(r) } else { l.or(r) }
            }
            _ => Expr::Not(Box::new(self.pred(subq, depth.saturating_sub(1))?)),
        })
    }

    fn one_col(&mut self, p: LogicalPlanBuilder) -> DfResult<LogicalPlan> {
        let k = self.k();
        p.project(vec![lit(k).alias(format!("j{k}"))])?.build()
    }

    pub fn plan(&mut self, depth: u32, subq: u32) -> DfResult<LogicalPlan> {
        self.budget -= 1;
        if depth == 0 || self.budget <= 0 {
            return self.leaf_plan(subq);
        }
        let d = depth - 1;
        let k = self.k();
        match self.rng.below(12) {
            0 | 1 => {
                let e = self.scalar(subq)?;
                LogicalPlanBuilder::from(self.plan(d, subq)?).project(vec![e.alias(format!("p{k}"))])?.build()
            }
            2 | 3 => {
                let p = self.pred(subq, 2)?;
                LogicalPlanBuilder::from(self.plan(d, subq)?).filter(p)?.build()
            }
            4 => LogicalPlanBuilder::from(self.plan(d, subq)?).limit((k % 5) as usize, Some(k as usize))?.build(),
            5 => {
                let e = self.scalar(subq)?;
                LogicalPlanBuilder::from(self.plan(d, subq)?).sort(vec![e.sort(self.rng.bool(), self.rng.bool())])?.build()
            }
            6 | 7 => {
                let mut b = LogicalPlanBuilder::from(self.plan(d, subq)?);
                for _ in 0..1 + self.rng.usize(2) {
                    b = b.union(self.plan(d, subq)?)?;
                }
                b.build()
            }
            8 => LogicalPlanBuilder::from(self.plan(d, subq)?).alias(format!("t{k}"))?.build(),
            9 => {
                let l = LogicalPlanBuilder::from(self.plan(d, subq)?).alias(format!("l{k}"))?;
                let r = LogicalPlanBuilder::from(self.plan(d, subq)?).alias(format!("r{k}"))?.build()?;
                let j = if self.rng.bool() {
                    l.cross_join(r)?
                } else {
                    let p = self.pred(subq, 1)?;
                    l.join_on(r, JoinType::Inner, vec![p])?
                };
                self.one_col(j)
            }
            10 => {
                let g = lit(k).alias(format!("g{k}"));
                let a = sum(self.scalar(subq)?);
                let b = LogicalPlanBuilder::from(self.plan(d, subq)?).aggregate(vec![g], vec![a])?;
                self.one_col(b)
            }
            _ => LogicalPlanBuilder::from(self.plan(d, subq)?).distinct()?.build(),
        }
    }
}

// ---------------------------------------------------------------------------------------
// LogicalPlan: children by hand
// ---------------------------------------------------------------------------------------

fn plan_key(p: &LogicalPlan) -> u64 {
    fp_str(&format!("{}", p.display_indent_schema()))
}

fn plan_inputs(p: &LogicalPlan) -> Vec<LogicalPlan> {
    p.inputs().into_iter().cloned().collect()
}

fn plan_set_inputs(p: LogicalPlan, kids: Vec<LogicalPlan>) -> LogicalPlan {
    let mut it = kids.into_iter();
    let mut nx = move || Arc::new(it.next().expect("enough inputs"));
    match p {
        LogicalPlan::Projection(mut x) => {
            x.input = nx();
            LogicalPlan::Projection(x)
        }
        LogicalPlan::Filter(mut x) => {
            x.input = nx();
            LogicalPlan::Filter(x)
        }
        LogicalPlan::Limit(mut x) => {
            x.input = nx();
            LogicalPlan::Limit(x)
        }
        LogicalPlan::Sort(mut x) => {
            x.input = nx();
            LogicalPlan::Sort(x)
        }
        LogicalPlan::SubqueryAlias(mut x) => {
            x.input = nx();
            LogicalPlan::SubqueryAlias(x)
        }
        LogicalPlan::Aggregate(mut x) => {
            x.input = nx();
            LogicalPlan::Aggregate(x)
        }
        LogicalPlan::Distinct(Distinct::All(_)) => LogicalPlan::Distinct(Distinct::All(nx())),
        LogicalPlan::Union(mut u) => {
            for i in u.inputs.iter_mut() {
                *i = nx();
            }
            LogicalPlan::Union(u)
        }
        LogicalPlan::Join(mut j) => {
            j.left = nx();
            j.right = nx();
            LogicalPlan::Join(j)
        }
        LogicalPlan::Subquery(mut s) => {
            s.subquery = nx();
            LogicalPlan::Subquery(s)
        }
        leaf @ (LogicalPlan::EmptyRelation(_) | LogicalPlan::Values(_)) => leaf,
        other => panic!("oracle has no rebuild rule for {}", other.display()),
    }
}

/// the node's own expressions in the order of `LogicalPlan::expressions()`
fn plan_exprs_mut(p: &mut LogicalPlan) -> Vec<&mut Expr> {
    match p {
        LogicalPlan::Projection(x) => x.expr.iter_mut().collect(),
        LogicalPlan::Filter(x) => vec![&mut x.predicate],
        LogicalPlan::Sort(x) => x.expr.iter_mut().map(|s| &mut s.expr).collect(),
        LogicalPlan::Aggregate(x) => x.group_expr.iter_mut().chain(x.aggr_expr.iter_mut()).collect(),
        LogicalPlan::Values(x) => x.values.iter_mut().flatten().collect(),
        LogicalPlan::Join(x) => {
            let mut v: Vec<&mut Expr> = vec![];
            for (l, r) in x.on.iter_mut() {
                v.push(l);
                v.push(r);
            }
            if let Some(f) = x.filter.as_mut() {
                v.push(f);
            }
            v
        }
        LogicalPlan::Limit(x) => {
            let mut v: Vec<&mut Expr> = vec![];
            if let Some(s) = x.skip.as_mut() {
                v.push(s);
            }
            if let Some(f) = x.fetch.as_mut() {
                v.push(f);
            }
            v
        }
        _ => vec![],
    }
}

fn bump_first_lit(e: Expr) -> (Expr, bool) {
    if let Expr::Literal(ScalarValue::Int64(Some(v)), m) = e {
        return (Expr::Literal(ScalarValue::Int64(Some(v + 1_000_000)), m), true);
    }
    let kids = expr_kids(&e);
    if kids.is_empty() {
        return (e, false);
    }
    let mut done = false;
    let kids = kids
        .into_iter()
        .map(|k| {
            if done {
                k
            } else {
                let (k, d) = bump_first_lit(k);
                done = d;
                k
            }
        })
        .collect();
    (expr_rebuild(e, kids), done)
}

fn plan_relabel(mut p: LogicalPlan) -> Result<LogicalPlan, LogicalPlan> {
    match &mut p {
        LogicalPlan::EmptyRelation(e) => {
            e.produce_one_row = !e.produce_one_row;
            return Ok(p);
        }
        LogicalPlan::Subquery(s) => {
            s.outer_ref_columns.push(lit(s.outer_ref_columns.len() as i64));
            return Ok(p);
        }
        LogicalPlan::Sort(s) if s.fetch.is_some() => {
            s.fetch = s.fetch.map(|f| f + 1);
            return Ok(p);
        }
        _ => {}
    }
    for e in plan_exprs_mut(&mut p) {
        let (ne, done) = bump_first_lit(std::mem::take(e));
        *e = ne;
        if done {
            return Ok(p);
        }
    }
    Err(p)
}

fn plan_fresh_leaf(like: &LogicalPlan, salt: u64) -> LogicalPlan {
    let v = LogicalPlanBuilder::values(vec![vec![lit(7_000_000_000i64 + (salt % 1_000_000_000) as i64)]]).unwrap().build().unwrap();
    if matches!(like, LogicalPlan::Subquery(_)) {
        // callbacks of the *_with_subqueries family must hand back a Subquery node for a Subquery node
        LogicalPlan::Subquery(Subquery { subquery: Arc::new(v), outer_ref_columns: vec![], spans: Spans::new() })
    } else {
        v
    }
}

impl Subject for LogicalPlan {
    fn key(&self) -> u64 {
        plan_key(self)
    }
    fn show(&self) -> String {
        format!("{}", self.display_indent_schema())
    }
    fn dup(&self) -> Self {
        self.clone()
    }
    fn same(&self, o: &Self) -> bool {
        self == o
    }
    fn kids(&self) -> Vec<Self> {
        plan_inputs(self)
    }
    fn rebuild(self, kids: Vec<Self>) -> Self {
        plan_set_inputs(self, kids)
    }
    fn relabel(self) -> Result<Self, Self> {
        plan_relabel(self)
    }
    fn fresh_leaf(&self, salt: u64) -> Self {
        plan_fresh_leaf(self, salt)
    }
}

// ---------------------------------------------------------------------------------------
// LogicalPlan with the subquery plans of its expressions as additional (leading) children
// ---------------------------------------------------------------------------------------

/// subquery plans of an expression in pre-order, each with the number of subqueries nested below
/// the expression node that holds it
fn collect_subq(e: &Expr, out: &mut Vec<(Subquery, usize)>) {
    let at = out.len();
    match e {
        Expr::Exists(x) => out.push((x.subquery.clone(), 0)),
        Expr::InSubquery(x) => out.push((x.subquery.clone(), 0)),
        Expr::ScalarSubquery(s) => out.push((s.clone(), 0)),
        _ => {}
    }
    let own = out.len() > at;
    for k in expr_kids(e) {
        collect_subq(&k, out);
    }
    if own {
        out[at].1 = out.len() - at - 1;
    }
}

fn replace_subq(e: Expr, it: &mut dyn Iterator<Item = LogicalPlan>) -> Expr {
    let take = |it: &mut dyn Iterator<Item = LogicalPlan>| match it.next() {
        Some(LogicalPlan::Subquery(s)) => s,
        other => panic!("subquery callback returned {other:?}"),
    };
    let e = match e {
        Expr::Exists(mut x) => {
            x.subquery = take(it);
            Expr::Exists(x)
        }
        Expr::InSubquery(mut x) => {
            x.subquery = take(it);
            Expr::InSubquery(x)
        }
        Expr::ScalarSubquery(_) => Expr::ScalarSubquery(take(it)),
        other => other,
    };
    let kids = expr_kids(&e);
    if kids.is_empty() {
        return e;
    }
    let kids = kids.into_iter().map(|k| replace_subq(k, it)).collect();
    expr_rebuild(e, kids)
}

#[derive(Clone, Debug, PartialEq)]
pub struct SubqPlan {
    plan: LogicalPlan,
    /// false: only the subqueries are children (apply_subqueries / map_subqueries)
    inputs: bool,
}

impl SubqPlan {
    fn subqueries_with_nested(&self) -> Vec<(Subquery, usize)> {
        let mut out = vec![];
        let mut p = self.plan.clone();
        for e in plan_exprs_mut(&mut p) {
            collect_subq(e, &mut out);
        }
        out
    }
    fn subqueries(&self) -> Vec<Subquery> {
        self.subqueries_with_nested().into_iter().map(|x| x.0).collect()
    }
    fn subqueries_nested(&self) -> Vec<usize> {
        self.subqueries_with_nested().into_iter().map(|x| x.1).collect()
    }
}

impl Subject for SubqPlan {
    fn key(&self) -> u64 {
        plan_key(&self.plan)
    }
    fn show(&self) -> String {
        self.plan.show()
    }
    fn dup(&self) -> Self {
        self.clone()
    }
    fn same(&self, o: &Self) -> bool {
        self.plan == o.plan
    }
    fn kids(&self) -> Vec<Self> {
        let mut v: Vec<SubqPlan> = self.subqueries().into_iter().map(|s| SubqPlan { plan: LogicalPlan::Subquery(s), inputs: self.inputs }).collect();
        if self.inputs {
            v.extend(plan_inputs(&self.plan).into_iter().map(|p| SubqPlan { plan: p, inputs: true }));
        }
        v
    }
    fn rebuild(self, kids: Vec<Self>) -> Self {
        let n_sub = self.subqueries().len();
        let mut it = kids.into_iter().map(|k| k.plan);
        let mut plan = self.plan;
        {
            let mut subs = (&mut it).take(n_sub).collect::<Vec<_>>().into_iter();
            for e in plan_exprs_mut(&mut plan) {
                *e = replace_subq(std::mem::take(e), &mut subs);
            }
        }
        if self.inputs {
            plan = plan_set_inputs(plan, it.collect());
        }
        SubqPlan { plan, inputs: self.inputs }
    }
    fn relabel(self) -> Result<Self, Self> {
        let inputs = self.inputs;
        plan_relabel(self.plan).map(|plan| SubqPlan { plan, inputs }).map_err(|plan| SubqPlan { plan, inputs })
    }
    fn fresh_leaf(&self, salt: u64) -> Self {
        SubqPlan { plan: plan_fresh_leaf(&self.plan, salt), inputs: self.inputs }
    }
    fn known_jump_loss(&self, after_kid: usize, _n_kids: usize) -> Option<(&'static str, usize)> {
        // a Jump answered for a subquery plan is consumed by the walk over the expression that holds
        // it: it prunes the children of that expression node (the subqueries nested in the tested
        // expression of `x IN (subquery)`) and is forgotten afterwards
        let nested = self.subqueries_nested();
        nested.get(after_kid).map(|n| (SUBQ_JUMP, *n))
    }
}

pub const SUBQ_JUMP: &str = "jump-lost-after-subquery-plan";

/// (generic API whose contract applies, name of the LogicalPlan method)
pub const SUBQ_APIS: [(Api, &str); 9] = [
    (Api::Apply, "apply_with_subqueries"),
    (Api::Visit, "visit_with_subqueries"),
    (Api::TransformDown, "transform_down_with_subqueries"),
    (Api::TransformUp, "transform_up_with_subqueries"),
    (Api::Transform, "transform_with_subqueries"),
    (Api::TransformDownUp, "transform_down_up_with_subqueries"),
    (Api::Rewrite, "rewrite_with_subqueries"),
    (Api::MapChildren, "map_subqueries"),
    (Api::ApplyChildren, "apply_subqueries"),
];

struct SVis<'c> {
    ctl: &'c RefCell<Ctl>,
}
impl<'n, 'c> TreeNodeVisitor<'n> for SVis<'c> {
    type Node = LogicalPlan;
    fn f_down(&mut self, node: &'n LogicalPlan) -> DfResult<TreeNodeRecursion> {
        pk(self.ctl, DOWN, plan_key(node))
    }
    fn f_up(&mut self, node: &'n LogicalPlan) -> DfResult<TreeNodeRecursion> {
        pk(self.ctl, UP, plan_key(node))
    }
}
struct SRw<'c> {
    ctl: &'c RefCell<Ctl>,
    inputs: bool,
}
fn scb(ctl: &RefCell<Ctl>, phase: u8, p: LogicalPlan, inputs: bool) -> DfResult<Transformed<LogicalPlan>> {
    Ok(cb(ctl, phase, SubqPlan { plan: p, inputs })?.update_data(|s| s.plan))
}
impl<'c> TreeNodeRewriter for SRw<'c> {
    type Node = LogicalPlan;
    fn f_down(&mut self, node: LogicalPlan) -> DfResult<Transformed<LogicalPlan>> {
        scb(self.ctl, DOWN, node, self.inputs)
    }
    fn f_up(&mut self, node: LogicalPlan) -> DfResult<Transformed<LogicalPlan>> {
        scb(self.ctl, UP, node, self.inputs)
    }
}

fn real_subq(idx: usize, plan: LogicalPlan, policy: Policy) -> Outcome<SubqPlan> {
    let ctl = RefCell::new(Ctl::new(policy));
    let inputs = idx < 7;
    let tr = |t: Transformed<LogicalPlan>| (Some(SubqPlan { plan: t.data, inputs }), t.transformed, from_tnr(t.tnr), false);
    let ins = |t: TreeNodeRecursion| (None, false, from_tnr(t), false);
    let res: RealRes<SubqPlan> = match idx {
        0 => plan.apply_with_subqueries(|n| pk(&ctl, DOWN, plan_key(n))).map(ins),
        1 => plan.visit_with_subqueries(&mut SVis { ctl: &ctl }).map(ins),
        2 => plan.transform_down_with_subqueries(|n| scb(&ctl, DOWN, n, true)).map(tr),
        3 => plan.transform_up_with_subqueries(|n| scb(&ctl, UP, n, true)).map(tr),
        4 => plan.transform_with_subqueries(|n| scb(&ctl, UP, n, true)).map(tr),
        5 => plan.transform_down_up_with_subqueries(|n| scb(&ctl, DOWN, n, true), |n| scb(&ctl, UP, n, true)).map(tr),
        6 => plan.rewrite_with_subqueries(&mut SRw { ctl: &ctl, inputs: true }).map(tr),
        7 => plan.map_subqueries(|n| scb(&ctl, DOWN, n, false)).map(tr),
        _ => plan.apply_subqueries(|n| pk(&ctl, DOWN, plan_key(n))).map(ins),
    };
    finish_real(res, ctl, false)
}

// ---------------------------------------------------------------------------------------
// cases
// ---------------------------------------------------------------------------------------

fn note_expr_variants(rep: &Report, e: &Expr) {
    rep.seen("expr_variants", e.variant_name());
    for k in expr_kids(e) {
        note_expr_variants(rep, &k);
    }
}

pub fn expr_case(rep: &Report, rng: &mut Rng, i: u64, pseed: u64) {
    let depth = 1 + rng.usize(3) as u32;
    let budget = 4 + rng.usize(12) as i64;
    let mut g = Gen { rng, uniq: 0, budget, subqueries: 0 };
    let e = g.expr(depth);
    if rep.seen_count("expr_variants") < 30 || i % 64 == 0 {
        note_expr_variants(rep, &e);
    }
    generic_case(rep, "Expr", e, i, pseed);
}

fn note_plan_variants(rep: &Report, p: &LogicalPlan) {
    rep.seen("logical_plan_variants", &p.display().to_string().split([':', ' ']).next().unwrap_or("").to_string());
    for k in p.inputs() {
        note_plan_variants(rep, k);
    }
}

pub fn plan_case(rep: &Report, rng: &mut Rng, i: u64, pseed: u64) {
    let depth = 1 + rng.usize(3) as u32;
    let budget = 3 + rng.usize(8) as i64;
    let subq = rng.usize(2) as u32;
    let mut g = Gen { rng, uniq: 0, budget, subqueries: 0 };
    match g.plan(depth, subq) {
        Ok(p) => {
            if i % 32 == 1 {
                note_plan_variants(rep, &p);
            }
            generic_case(rep, "LogicalPlan", p, i, pseed)
        }
        Err(e) => rep.skip(&format!("plan builder rejected the generated plan: {}", e.to_string().chars().take(60).collect::<String>())),
    }
}

pub fn subq_case(rep: &Report, rng: &mut Rng, i: u64, pseed: u64) {
    let depth = 1 + rng.usize(2) as u32;
    let budget = 3 + rng.usize(6) as i64;
    let mut g = Gen { rng, uniq: 0, budget, subqueries: 0 };
    let plan = match g.plan(depth, 2) {
        Ok(p) => p,
        Err(e) => {
            rep.skip(&format!("plan builder rejected the generated plan: {}", e.to_string().chars().take(60).collect::<String>()));
            return;
        }
    };
    let n_sub = g.subqueries;
    let idx = (i % 9) as usize;
    let (api, name) = SUBQ_APIS[idx];
    let ty = "LogicalPlan+subqueries";
    let inputs = idx < 7;
    let input = SubqPlan { plan: plan.clone(), inputs };
    let class = api.class();
    let (exp, _) = reference(api, input.dup(), Policy::Hash { seed: pseed, class });
    let fp = fp_mix(fp_mix(fp_str(name), plan_key(&plan)), pseed);
    let got = vcommon::par::guard(|| real_subq(idx, plan, Policy::Hash { seed: pseed, class }));
    let nontrivial = n_sub > 0 && exp.log.len() > 1 && exp.decs.iter().any(|d| d.rec != Rec::Continue || d.chg != Chg::Keep || d.err);
    rep.case(fp, nontrivial);
    rep.count(&format!("impl/{ty}/{name}"), 1);
    rep.count(&format!("impl_callbacks/{ty}"), exp.log.len() as u64);
    if n_sub > 0 {
        rep.count("subq/cases_with_subquery", 1);
        rep.count("subq/subquery_plans", n_sub);
    }
    match got {
        Ok(mut got) => {
            maybe_corrupt(&mut got);
            // the value returned by the non-recursive helpers apply_subqueries / map_subqueries is
            // not documented: not asserted
            judge_opt(rep, api, name, ty, &input, &exp, &got, || Policy::Hash { seed: pseed, class }, !inputs);
        }
        Err(p) => record_violation(rep, &format!("panic/{name}/{ty}"), ty, name, json!({"type": ty, "api": name, "input_tree": input.show(), "policy_seed": pseed, "panic": p, "expected_by_contract": exp.to_json()})),
    }
}

// ---------------------------------------------------------------------------------------
// Fixed minimal cases (seed independent): one Jump answered by the bottom-up callback
// ---------------------------------------------------------------------------------------

/// option index of (Jump, unchanged) in the transforming option table
const T_JUMP: u8 = 2;

fn fixed_expr(rep: &Report, name: &str, e: Expr, jump_at: &Expr) {
    let table = vec![(UP, jump_at.key(), T_JUMP)];
    let opts = Api::TransformUp.opts();
    let (exp, _) = reference(Api::TransformUp, e.clone(), Policy::Table { opts, table: table.clone() });
    let got = super::super::real(Api::TransformUp, e.clone(), Policy::Table { opts, table: table.clone() });
    rep.case(fp_mix(fp_str(name), e.key()), true);
    rep.count("fixed_cases", 1);
    super::super::judge(rep, Api::TransformUp, "transform_up", "Expr", &e, &exp, &got, || Policy::Table { opts, table: table.clone() });
}

fn fixed_subq(rep: &Report, name: &str, plan: LogicalPlan, jump_at: &LogicalPlan) {
    let table = vec![(UP, plan_key(jump_at), T_JUMP)];
    let opts = Api::TransformUp.opts();
    let input = SubqPlan { plan: plan.clone(), inputs: true };
    let (exp, _) = reference(Api::TransformUp, input.dup(), Policy::Table { opts, table: table.clone() });
    let got = real_subq(3, plan, Policy::Table { opts, table: table.clone() });
    rep.case(fp_mix(fp_str(name), input.key()), true);
    rep.count("fixed_cases", 1);
    judge_opt(rep, Api::TransformUp, "transform_up_with_subqueries", "LogicalPlan+subqueries", &input, &exp, &got, || Policy::Table { opts, table: table.clone() }, false);
}

pub fn fixed_cases(rep: &Report) {
    let col = |n: &str| Expr::Column(Column::new_unqualified(n));
    // a + b: the Jump answered for b bypasses the callback of the parent
    fixed_expr(rep, "binary", col("a") + col("b"), &col("b"));
    // CASE WHEN a THEN b ELSE c END, Jump at c / CASE WHEN a THEN b END, Jump at b
    let full = Expr::Case(Case::new(None, vec![(Box::new(col("a")), Box::new(col("b")))], Some(Box::new(col("c")))));
    fixed_expr(rep, "case-else", full, &col("c"));
    let no_else = Expr::Case(Case::new(None, vec![(Box::new(col("a")), Box::new(col("b")))], None));
    fixed_expr(rep, "case-no-else", no_else, &col("b"));
    fixed_expr(rep, "in-empty-list", Expr::InList(InList::new(Box::new(col("a")), vec![], false)), &col("a"));

    let values = |v: i64| LogicalPlanBuilder::values(vec![vec![lit(v)]]).unwrap().build().unwrap();
    let sq = |p: LogicalPlan| Subquery { subquery: Arc::new(p), outer_ref_columns: vec![], spans: Spans::new() };
    // a leaf plan whose expression holds a subquery: Jump at the subquery root
    let leaf = LogicalPlanBuilder::values(vec![vec![Expr::ScalarSubquery(sq(values(4)))]]).unwrap().build().unwrap();
    fixed_subq(rep, "leaf-with-subquery", leaf, &LogicalPlan::Subquery(sq(values(4))));
    // Filter: (SELECT 1) IN (SELECT 2): Jump at the root of the IN subquery
    let pred = Expr::InSubquery(datafusion_expr::expr::InSubquery::new(Box::new(Expr::ScalarSubquery(sq(values(1)))), sq(values(2)), false));
    let filter = LogicalPlanBuilder::from(values(3)).filter(pred).unwrap().build().unwrap();
    fixed_subq(rep, "nested-in-subquery", filter, &LogicalPlan::Subquery(sq(values(2))));
}
