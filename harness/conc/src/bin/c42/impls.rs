//! Part 3 of C42: the real `TreeNode` implementors.
//!
//! For every implementor the oracle needs its own statement of "the children in documented order"
//! (`Subject::kids`) and of "the same node over other children" (`Subject::rebuild`); both are
//! written by hand here (field by field for `Expr` / `LogicalPlan`, `children()` /
//! `with_new_children()` for the physical trait objects) and never go through `TreeNode`.

use super::{compare_hashed, Report, Subject, ALL_APIS};
use vcommon::{fp_mix, fp_str, Args, Rng};

mod logical;
mod physical;

pub fn dbg_key<T: std::fmt::Debug>(t: &T) -> u64 {
    fp_str(&format!("{t:?}"))
}

pub const IMPLEMENTORS: [&str; 7] =
    ["Expr", "LogicalPlan", "LogicalPlan+subqueries", "Arc<dyn PhysicalExpr>", "Arc<dyn ExecutionPlan>", "ExprContext", "PlanContext"];

/// one random case of a generic implementor
pub fn generic_case<N: Subject + datafusion_common::tree_node::TreeNode>(rep: &Report, ty: &str, node: N, i: u64, pseed: u64) {
    let api = ALL_APIS[(i % 10) as usize];
    let fp = fp_mix(fp_mix(fp_str(ty), node.key()), fp_mix(api as u64, pseed));
    let kids = node.kids().len();
    let (nontrivial, calls) = compare_hashed(rep, ty, api, node, pseed);
    rep.case(fp, nontrivial);
    rep.count(&format!("impl/{ty}/{}", api.name()), 1);
    rep.count(&format!("impl_callbacks/{ty}"), calls as u64);
    rep.max(&format!("impl_max_root_children/{ty}"), kids as u64);
}

pub fn run_implementors(rep: &Report, args: &Args, n: u64) {
    let seed = args.seed;
    let stage = if args.stage == "miri" { 1 } else { 0 };
    if let Err(p) = vcommon::par::guard(|| logical::fixed_cases(rep)) {
        rep.skip("harness panic in fixed cases");
        rep.sample(vcommon::json!({"harness_panic": p, "where": "fixed cases"}));
    }
    vcommon::par::run(args.workers, 0..n, |i| {
        let mut rng = Rng::derive(seed, &[42, stage, 3, i]);
        let pseed = rng.next_u64();
        let which = (i / 10) % 7;
        let r = vcommon::par::guard(|| match which {
            0 => logical::expr_case(rep, &mut rng, i, pseed),
            1 => logical::plan_case(rep, &mut rng, i, pseed),
            2 => logical::subq_case(rep, &mut rng, i, pseed),
            3 => physical::pexpr_case(rep, &mut rng, i, pseed),
            4 => physical::pplan_case(rep, &mut rng, i, pseed),
            5 => physical::exprctx_case(rep, &mut rng, i, pseed),
            _ => physical::planctx_case(rep, &mut rng, i, pseed),
        });
        if let Err(p) = r {
            // a panic outside the guarded real API call: generator / oracle trouble, never a verdict
            rep.skip(&format!("harness panic in {}", IMPLEMENTORS[which as usize]));
            if rep.want_sample() {
                rep.sample(vcommon::json!({"harness_panic": p, "implementor": IMPLEMENTORS[which as usize], "case": i}));
            }
        }
    });
}

pub fn obligations(rep: &Report, miri: bool) {
    for ty in IMPLEMENTORS {
        let mut missing = vec![];
        let apis: Vec<&str> = if ty == "LogicalPlan+subqueries" { logical::SUBQ_APIS.iter().map(|a| a.1).collect() } else { ALL_APIS.iter().map(|a| a.name()).collect() };
        for a in apis {
            if rep.get_count(&format!("impl/{ty}/{a}")) == 0 {
                missing.push(a);
            }
        }
        // the Miri stage runs a token number of implementor cases only
        rep.obligation(&format!("implementor-all-apis/{ty}"), miri || missing.is_empty(), &format!("every API ran on this implementor; missing: {missing:?}"));
    }
    if !miri {
        rep.obligation("subquery-plans-visited", rep.get_count("subq/cases_with_subquery") > 0, "plans carrying subquery expressions were generated and traversed");
        rep.obligation("expr-variants", rep.seen_count("expr_variants") >= 15, "at least 15 Expr variants generated");
    }
}
