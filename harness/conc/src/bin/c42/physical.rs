//! `Arc<dyn PhysicalExpr>`, `Arc<dyn ExecutionPlan>`, `ExprContext`, `PlanContext`.

use super::super::{Report, Subject};
use super::generic_case;
use arrow::datatypes::{DataType, Field, Schema, SchemaRef};
use datafusion_common::ScalarValue;
use datafusion_expr::Operator;
use datafusion_physical_expr::expressions::{
    BinaryExpr, CaseExpr, CastExpr, Column, InListExpr, IsNotNullExpr, IsNullExpr, LikeExpr, Literal, NegativeExpr, NotExpr,
};
use datafusion_physical_expr::tree_node::ExprContext;
use datafusion_physical_expr::PhysicalExpr;
use datafusion_physical_plan::coalesce_partitions::CoalescePartitionsExec;
use datafusion_physical_plan::empty::EmptyExec;
use datafusion_physical_plan::execution_plan::{ChildrenPropertiesMode, ReplaceChildrenOptions};
use datafusion_physical_plan::filter::FilterExec;
use datafusion_physical_plan::joins::CrossJoinExec;
use datafusion_physical_plan::limit::{GlobalLimitExec, LocalLimitExec};
use datafusion_physical_plan::placeholder_row::PlaceholderRowExec;
use datafusion_physical_plan::projection::ProjectionExec;
use datafusion_physical_plan::tree_node::PlanContext;
use datafusion_physical_plan::union::UnionExec;
use datafusion_physical_plan::{displayable, ExecutionPlan};
use std::sync::Arc;
use vcommon::{fp_mix, fp_str, Rng};

type PE = Arc<dyn PhysicalExpr>;
type PP = Arc<dyn ExecutionPlan>;

fn plit(v: i64) -> PE {
    Arc::new(Literal::new(ScalarValue::Int64(Some(v))))
}

// ---------------------------------------------------------------------------------------
// Arc<dyn PhysicalExpr>
// ---------------------------------------------------------------------------------------

fn rot_op(op: Operator) -> Operator {
    match op {
        Operator::Plus => Operator::Minus,
        Operator::Minus => Operator::Multiply,
        Operator::Multiply => Operator::Plus,
        Operator::Eq => Operator::NotEq,
        Operator::NotEq => Operator::Lt,
        Operator::Lt => Operator::GtEq,
        Operator::GtEq => Operator::Eq,
        Operator::And => Operator::Or,
        Operator::Or => Operator::And,
        o => o,
    }
}

fn pe_relabel(e: PE) -> Result<PE, PE> {
    if let Some(l) = e.downcast_ref::<Literal>() {
        if let ScalarValue::Int64(Some(v)) = l.value() {
            return Ok(plit(v + 1_000_000));
        }
        if let ScalarValue::Utf8(Some(s)) = l.value() {
            return Ok(Arc::new(Literal::new(ScalarValue::Utf8(Some(format!("{s}_r"))))));
        }
    }
    if let Some(c) = e.downcast_ref::<Column>() {
        return Ok(Arc::new(Column::new(&format!("{}_r", c.name()), c.index() + 100)));
    }
    if let Some(b) = e.downcast_ref::<BinaryExpr>() {
        return Ok(Arc::new(BinaryExpr::new(Arc::clone(b.left()), rot_op(*b.op()), Arc::clone(b.right()))));
    }
    if let Some(x) = e.downcast_ref::<NotExpr>() {
        return Ok(Arc::new(IsNullExpr::new(Arc::clone(x.arg()))));
    }
    if let Some(x) = e.downcast_ref::<IsNullExpr>() {
        return Ok(Arc::new(IsNotNullExpr::new(Arc::clone(x.arg()))));
    }
    if let Some(x) = e.downcast_ref::<IsNotNullExpr>() {
        return Ok(Arc::new(NegativeExpr::new(Arc::clone(x.arg()))));
    }
    if let Some(x) = e.downcast_ref::<NegativeExpr>() {
        return Ok(Arc::new(NotExpr::new(Arc::clone(x.arg()))));
    }
    if let Some(x) = e.downcast_ref::<LikeExpr>() {
        return Ok(Arc::new(LikeExpr::new(!x.negated(), x.case_insensitive(), Arc::clone(x.expr()), Arc::clone(x.pattern()))));
    }
    if let Some(x) = e.downcast_ref::<CastExpr>() {
        let to = if x.cast_type() == &DataType::Int64 { DataType::Int32 } else { DataType::Int64 };
        return Ok(Arc::new(CastExpr::new(Arc::clone(x.expr()), to, None)));
    }
    Err(e)
}

/// structural description from Display (Debug is not usable: some expressions print a HashMap
/// in iteration order)
fn pe_desc(e: &PE) -> String {
    format!("{}[{}]", e, e.children().into_iter().map(pe_desc).collect::<Vec<_>>().join(", "))
}

impl Subject for PE {
    fn key(&self) -> u64 {
        fp_str(&pe_desc(self))
    }
    fn show(&self) -> String {
        format!("{self}")
    }
    fn dup(&self) -> Self {
        Arc::clone(self)
    }
    fn same(&self, o: &Self) -> bool {
        self == o && pe_desc(self) == pe_desc(o)
    }
    fn kids(&self) -> Vec<Self> {
        self.children().into_iter().cloned().collect()
    }
    fn rebuild(self, kids: Vec<Self>) -> Self {
        self.with_new_children(kids).expect("with_new_children")
    }
    fn relabel(self) -> Result<Self, Self> {
        pe_relabel(self)
    }
    fn fresh_leaf(&self, salt: u64) -> Self {
        plit(7_000_000_000 + (salt % 1_000_000_000) as i64)
    }
}

fn expr_schema() -> Schema {
    Schema::new((0..10).map(|i| Field::new(format!("c{i}"), DataType::Int64, true)).collect::<Vec<_>>())
}

struct PGen<'r> {
    rng: &'r mut Rng,
    uniq: i64,
    budget: i64,
    schema: Schema,
}

impl<'r> PGen<'r> {
    fn k(&mut self) -> i64 {
        self.uniq += 1;
        self.uniq
    }
    fn int(&mut self, depth: u32) -> PE {
        self.budget -= 1;
        if depth == 0 || self.budget <= 0 {
            let k = self.k();
            return if self.rng.bool() { plit(k) } else { Arc::new(Column::new(&format!("c{}", k % 10), (k % 10) as usize)) };
        }
        let d = depth - 1;
        match self.rng.below(6) {
            0..=2 => {
                let op = *self.rng.pick(&[Operator::Plus, Operator::Minus, Operator::Multiply]);
                Arc::new(BinaryExpr::new(self.int(d), op, self.int(d)))
            }
            3 => Arc::new(NegativeExpr::new(self.int(d))),
            4 => Arc::new(CastExpr::new(self.int(d), DataType::Int64, None)),
            _ => {
                let base = if self.rng.bool() { Some(self.int(d)) } else { None };
                let n = 1 + self.rng.usize(2);
                let wt = (0..n).map(|_| (if base.is_some() { self.int(d) } else { self.boolean(d) }, self.int(d))).collect();
                let el = if self.rng.bool() { Some(self.int(d)) } else { None };
                Arc::new(CaseExpr::try_new(base, wt, el).expect("case"))
            }
        }
    }
    fn boolean(&mut self, depth: u32) -> PE {
        self.budget -= 1;
        let d = depth.saturating_sub(1);
        match self.rng.below(if depth == 0 { 2 } else { 8 }) {
            0 | 1 => {
                let op = *self.rng.pick(&[Operator::Eq, Operator::NotEq, Operator::Lt, Operator::GtEq]);
                Arc::new(BinaryExpr::new(self.int(d), op, self.int(d)))
            }
            2 => {
                let op = if self.rng.bool() { Operator::And } else { Operator::Or };
                Arc::new(BinaryExpr::new(self.boolean(d), op, self.boolean(d)))
            }
            3 => Arc::new(NotExpr::new(self.boolean(d))),
            4 => Arc::new(IsNullExpr::new(self.int(d))),
            5 => Arc::new(IsNotNullExpr::new(self.int(d))),
            6 => {
                let e = self.int(d);
                let n = self.rng.usize(4);
                // constants only: static filter; with a column: dynamic evaluation
                let with_col = self.rng.chance(1, 3);
                let list: Vec<PE> = (0..n).map(|j| if with_col && j == 0 { self.int(0) } else { plit(self.k()) }).collect();
                match InListExpr::try_new(e, list, self.rng.bool(), &self.schema) {
                    Ok(x) => Arc::new(x),
                    Err(_) => Arc::new(IsNullExpr::new(self.int(0))),
                }
            }
            _ => {
                let k = self.k();
                let s = |t: String| -> PE { Arc::new(Literal::new(ScalarValue::Utf8(Some(t)))) };
                Arc::new(LikeExpr::new(self.rng.bool(), self.rng.bool(), s(format!("s{k}")), s(format!("p{k}%"))))
            }
        }
    }
}

fn gen_pexpr(rng: &mut Rng) -> PE {
    let depth = 1 + rng.usize(3) as u32;
    let budget = 4 + rng.usize(10) as i64;
    let as_bool = rng.bool();
    let mut g = PGen { rng, uniq: 0, budget, schema: expr_schema() };
    if as_bool { g.boolean(depth) } else { g.int(depth) }
}

pub fn pexpr_case(rep: &Report, rng: &mut Rng, i: u64, pseed: u64) {
    let e = gen_pexpr(rng);
    if i % 64 == 3 {
        note_pe(rep, &e);
    }
    generic_case(rep, "Arc<dyn PhysicalExpr>", e, i, pseed);
}

fn note_pe(rep: &Report, e: &PE) {
    let d = format!("{e:?}");
    rep.seen("physical_expr_kinds", d.split([' ', '{', '(']).next().unwrap_or(""));
    for c in e.children() {
        note_pe(rep, c);
    }
}

// ---------------------------------------------------------------------------------------
// Arc<dyn ExecutionPlan>
// ---------------------------------------------------------------------------------------

/// own one-line description + field names + children: unique per node because every leaf has a
/// unique field name / literal
fn plan_desc(p: &PP) -> String {
    let fields: Vec<String> = p.schema().fields().iter().map(|f| f.name().clone()).collect();
    let kids: Vec<String> = p.children().into_iter().map(plan_desc).collect();
    let extra = p.downcast_ref::<EmptyExec>().map(|_| format!(" parts={}", p.properties().output_partitioning().partition_count())).unwrap_or_default();
    format!("{}{}{:?}[{}]", displayable(p.as_ref()).one_line().to_string().trim_end(), extra, fields, kids.join(", "))
}

fn schema1(name: &str) -> SchemaRef {
    Arc::new(Schema::new(vec![Field::new(name, DataType::Int64, true)]))
}

fn first_lit(e: &PE) -> Option<i64> {
    if let Some(l) = e.downcast_ref::<Literal>() {
        if let ScalarValue::Int64(Some(v)) = l.value() {
            return Some(*v);
        }
    }
    e.children().into_iter().find_map(first_lit)
}

/// a leaf with the schema of the node it replaces, told apart by its partition count
fn fresh_plan_leaf(like: &PP, salt: u64) -> PP {
    Arc::new(EmptyExec::new(like.schema()).with_partitions(10_000 + (salt % 1_000_000) as usize))
}

fn pp_relabel(p: PP) -> Result<PP, PP> {
    if p.downcast_ref::<EmptyExec>().is_some() {
        // same schema (parents may refer to the column by name), other partition count
        let parts = p.properties().output_partitioning().partition_count();
        return Ok(Arc::new(EmptyExec::new(p.schema()).with_partitions(parts + 1000)));
    }
    if let Some(x) = p.downcast_ref::<LocalLimitExec>() {
        return Ok(Arc::new(LocalLimitExec::new(Arc::clone(x.input()), x.fetch() + 1_000_000)));
    }
    if let Some(x) = p.downcast_ref::<GlobalLimitExec>() {
        return Ok(Arc::new(GlobalLimitExec::new(Arc::clone(x.input()), x.skip() + 1_000_000, x.fetch())));
    }
    if let Some(x) = p.downcast_ref::<FilterExec>() {
        let v = first_lit(x.predicate()).unwrap_or(0);
        let pred: PE = Arc::new(BinaryExpr::new(plit(v + 1_000_000), Operator::Eq, plit(v)));
        return Ok(Arc::new(FilterExec::try_new(pred, Arc::clone(x.input())).expect("filter")));
    }
    if let Some(x) = p.downcast_ref::<ProjectionExec>() {
        let pe = &x.expr()[0];
        let v = first_lit(&pe.expr).unwrap_or(0);
        return Ok(Arc::new(ProjectionExec::try_new(vec![(plit(v + 1_000_000), pe.alias.clone())], Arc::clone(x.input())).expect("projection")));
    }
    Err(p)
}

impl Subject for PP {
    fn key(&self) -> u64 {
        fp_str(&plan_desc(self))
    }
    fn show(&self) -> String {
        plan_desc(self)
    }
    fn dup(&self) -> Self {
        Arc::clone(self)
    }
    fn same(&self, o: &Self) -> bool {
        plan_desc(self) == plan_desc(o)
    }
    fn kids(&self) -> Vec<Self> {
        self.children().into_iter().cloned().collect()
    }
    fn rebuild(self, kids: Vec<Self>) -> Self {
        self.replace_children(kids, ReplaceChildrenOptions::new(ChildrenPropertiesMode::Recompute)).expect("replace_children")
    }
    fn relabel(self) -> Result<Self, Self> {
        pp_relabel(self)
    }
    fn fresh_leaf(&self, salt: u64) -> Self {
        fresh_plan_leaf(self, salt)
    }
}

struct PlGen<'r> {
    rng: &'r mut Rng,
    uniq: i64,
    budget: i64,
}

impl<'r> PlGen<'r> {
    fn k(&mut self) -> i64 {
        self.uniq += 1;
        self.uniq
    }
    fn project1(&mut self, input: PP) -> PP {
        let k = self.k();
        Arc::new(ProjectionExec::try_new(vec![(plit(k), format!("p{k}"))], input).expect("projection"))
    }
    /// every generated plan has exactly one Int64 column
    fn plan(&mut self, depth: u32) -> PP {
        self.budget -= 1;
        let k = self.k();
        if depth == 0 || self.budget <= 0 {
            return if self.rng.chance(3, 4) {
                Arc::new(EmptyExec::new(schema1(&format!("e{k}"))).with_partitions(1 + self.rng.usize(3)))
            } else {
                Arc::new(PlaceholderRowExec::new(schema1(&format!("r{k}"))))
            };
        }
        let d = depth - 1;
        match self.rng.below(9) {
            0 | 1 => {
                let c = self.plan(d);
                self.project1(c)
            }
            2 => {
                let pred: PE = Arc::new(BinaryExpr::new(plit(k), Operator::Eq, plit(self.k())));
                Arc::new(FilterExec::try_new(pred, self.plan(d)).expect("filter"))
            }
            3 | 4 => {
                let n = 2 + self.rng.usize(3);
                let inputs: Vec<PP> = (0..n).map(|_| self.plan(d)).collect();
                UnionExec::try_new(inputs).expect("union")
            }
            5 => Arc::new(GlobalLimitExec::new(self.plan(d), (k % 4) as usize, Some(k as usize))),
            6 => Arc::new(LocalLimitExec::new(self.plan(d), k as usize)),
            7 => Arc::new(CoalescePartitionsExec::new(self.plan(d))),
            _ => {
                let j: PP = Arc::new(CrossJoinExec::new(self.plan(d), self.plan(d)));
                self.project1(j)
            }
        }
    }
}

fn gen_pplan(rng: &mut Rng) -> PP {
    let depth = 1 + rng.usize(3) as u32;
    let budget = 3 + rng.usize(9) as i64;
    PlGen { rng, uniq: 0, budget }.plan(depth)
}

fn note_pp(rep: &Report, p: &PP) {
    rep.seen("execution_plan_kinds", p.name());
    for c in p.children() {
        note_pp(rep, c);
    }
}

pub fn pplan_case(rep: &Report, rng: &mut Rng, i: u64, pseed: u64) {
    let p = gen_pplan(rng);
    if i % 64 == 4 {
        note_pp(rep, &p);
    }
    generic_case(rep, "Arc<dyn ExecutionPlan>", p, i, pseed);
}

// ---------------------------------------------------------------------------------------
// ExprContext<u32> / PlanContext<u32>  (ConcreteTreeNode implementors with a payload)
// ---------------------------------------------------------------------------------------

fn ectx_desc(c: &ExprContext<u32>) -> String {
    format!("{}#{}[{}]", c.expr, c.data, c.children.iter().map(ectx_desc).collect::<Vec<_>>().join(", "))
}

impl Subject for ExprContext<u32> {
    fn key(&self) -> u64 {
        fp_mix(fp_str(&pe_desc(&self.expr)), fp_str(&ectx_desc(self)))
    }
    fn show(&self) -> String {
        ectx_desc(self)
    }
    fn dup(&self) -> Self {
        ExprContext::new(Arc::clone(&self.expr), self.data, self.children.iter().map(|c| c.dup()).collect())
    }
    fn same(&self, o: &Self) -> bool {
        fn eq(a: &ExprContext<u32>, b: &ExprContext<u32>) -> bool {
            a.data == b.data && a.expr.eq(&b.expr) && pe_desc(&a.expr) == pe_desc(&b.expr) && a.children.len() == b.children.len() && a.children.iter().zip(b.children.iter()).all(|(x, y)| eq(x, y))
        }
        eq(self, o)
    }
    fn kids(&self) -> Vec<Self> {
        self.children.iter().map(|c| c.dup()).collect()
    }
    fn rebuild(self, kids: Vec<Self>) -> Self {
        // "reattaches updated child nodes": the expression is the old one over the children's expressions
        let exprs: Vec<PE> = kids.iter().map(|k| Arc::clone(&k.expr)).collect();
        let expr = if exprs.is_empty() { self.expr } else { self.expr.with_new_children(exprs).expect("with_new_children") };
        ExprContext::new(expr, self.data, kids)
    }
    fn relabel(mut self) -> Result<Self, Self> {
        self.data += 1000;
        Ok(self)
    }
    fn fresh_leaf(&self, salt: u64) -> Self {
        ExprContext::new(plit(7_000_000_000 + (salt % 1_000_000_000) as i64), 7, vec![])
    }
}

pub fn exprctx_case(rep: &Report, rng: &mut Rng, i: u64, pseed: u64) {
    let e = gen_pexpr(rng);
    let mut n = 0u32;
    fn number(c: &mut ExprContext<u32>, n: &mut u32) {
        *n += 1;
        c.data = *n;
        for k in c.children.iter_mut() {
            number(k, n);
        }
    }
    let mut c = ExprContext::<u32>::new_default(e);
    number(&mut c, &mut n);
    generic_case(rep, "ExprContext", c, i, pseed);
}

fn pctx_desc(c: &PlanContext<u32>) -> String {
    format!("{}#{}[{}]", plan_desc(&c.plan), c.data, c.children.iter().map(pctx_desc).collect::<Vec<_>>().join(", "))
}

impl Subject for PlanContext<u32> {
    fn key(&self) -> u64 {
        fp_str(&pctx_desc(self))
    }
    fn show(&self) -> String {
        pctx_desc(self)
    }
    fn dup(&self) -> Self {
        PlanContext::new(Arc::clone(&self.plan), self.data, self.children.iter().map(|c| c.dup()).collect())
    }
    fn same(&self, o: &Self) -> bool {
        pctx_desc(self) == pctx_desc(o)
    }
    fn kids(&self) -> Vec<Self> {
        self.children.iter().map(|c| c.dup()).collect()
    }
    fn rebuild(self, kids: Vec<Self>) -> Self {
        let plans: Vec<PP> = kids.iter().map(|k| Arc::clone(&k.plan)).collect();
        let plan = if plans.is_empty() { self.plan } else { self.plan.replace_children(plans, ReplaceChildrenOptions::new(ChildrenPropertiesMode::Recompute)).expect("replace_children") };
        PlanContext::new(plan, self.data, kids)
    }
    fn relabel(mut self) -> Result<Self, Self> {
        self.data += 1000;
        Ok(self)
    }
    fn fresh_leaf(&self, salt: u64) -> Self {
        PlanContext::new(fresh_plan_leaf(&self.plan, salt), 7, vec![])
    }
}

pub fn planctx_case(rep: &Report, rng: &mut Rng, i: u64, pseed: u64) {
    let p = gen_pplan(rng);
    let mut n = 0u32;
    fn number(c: &mut PlanContext<u32>, n: &mut u32) {
        *n += 1;
        c.data = *n;
        for k in c.children.iter_mut() {
            number(k, n);
        }
    }
    let mut c = PlanContext::<u32>::new_default(p);
    number(&mut c, &mut n);
    generic_case(rep, "PlanContext", c, i, pseed);
}
