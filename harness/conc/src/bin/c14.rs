//! C14: join hash table lookups return exactly the matching build rows.
//!
//! Code under test (real, public): `datafusion_physical_plan::joins::join_hash_map::
//! {JoinHashMapU32, JoinHashMapU64}` through the `JoinHashMapType` trait:
//! `with_capacity`, `update_from_iter`, `get_matched_indices_with_limit_offset`,
//! `get_matched_indices` (with / without `deleted_offset`), `contain_hashes`.
//!
//! Oracle: the list comprehension `[(p, b) | p valid, b inserted, B[b] == P[p]]`.
//! What is asserted (exactly the property statement, nothing more):
//!   * a complete lookup yields, for every probe row that is not a NULL key, every inserted build
//!     row with an equal hash exactly once and nothing else; nothing for NULL-key probe rows;
//!     probe rows appear grouped, in the order they were presented
//!   * for every page size L in 1..=|result|+1, resuming strictly from the returned offset, the
//!     concatenation of the pages is the *same sequence* as the complete lookup
//!   * `contain_hashes` agrees with "some inserted build row has this hash"
//!   * `get_matched_indices` (None / Some(0) / Some(D) with stale chain pointers) agrees
//! What is deliberately NOT asserted: the order of build rows *within* one probe row (the struct
//! doc shows reverse-insertion order and the joins rely on it for output order, but the property
//! only says "each exactly once"); it is recorded as an observation. `len()` is not asserted.

use arrow::array::Array;
use arrow::buffer::NullBuffer;
use datafusion_physical_plan::joins::join_hash_map::{JoinHashMapType, JoinHashMapU32, JoinHashMapU64};
use std::collections::{BTreeMap, HashMap};
use std::sync::atomic::{AtomicBool, Ordering};
use vcommon::par::guard;
use vcommon::{fp_str, json, Args, Json, Report, Rng};

type Offset = (usize, Option<u64>);

#[derive(Clone, Debug)]
struct Case {
    /// build batches in arrival order; (hash, key is non-NULL i.e. the row gets inserted)
    batches: Vec<Vec<(u64, bool)>>,
    /// capacity beyond the number of build rows (0 = exactly what HashJoinExec allocates)
    extra_cap: usize,
    /// true: HashJoinExec idiom (batches reversed, rows of each batch inserted in reverse, offsets
    /// growing). false: forward insertion (SymmetricHashJoin style, chain head = last row)
    fifo: bool,
    probe: Vec<u64>,
    pvalid: Option<Vec<bool>>,
    /// rows below this absolute index are "pruned" in the deleted_offset sub-check
    deleted: usize,
    kind: &'static str,
}

impl Case {
    fn to_json(&self) -> Json {
        json!({
            "kind": self.kind,
            "build_batches(arrival order)": self.batches.iter().map(|b| b.iter().map(|(h, v)| if *v { json!(h.to_string()) } else { json!({"null_key_hash": h.to_string()}) }).collect::<Vec<_>>()).collect::<Vec<_>>(),
            "extra_capacity": self.extra_cap,
            "insertion": if self.fifo { "hash-join idiom: batches reversed, rows reversed, offsets ascending" } else { "forward" },
            "probe_hashes": self.probe.iter().map(|h| h.to_string()).collect::<Vec<_>>(),
            "probe_valid": self.pvalid,
            "deleted_offset(sub-check)": self.deleted,
        })
    }
    fn fp(&self) -> u64 {
        fp_str(&self.to_json().to_string())
    }
}

struct Built {
    /// concatenated build side as the join indexes it: (hash, inserted)
    rows: Vec<(u64, bool)>,
    /// absolute row indices in insertion order
    inserted: Vec<usize>,
}

/// Insert the build side the way the joins do and return the layout the oracle needs.
fn build(map: &mut dyn JoinHashMapType, c: &Case) -> Built {
    let mut rows: Vec<(u64, bool)> = vec![];
    let mut inserted = vec![];
    let order: Vec<&Vec<(u64, bool)>> = if c.fifo { c.batches.iter().rev().collect() } else { c.batches.iter().collect() };
    let mut offset = 0usize;
    for b in order {
        let hashes: Vec<u64> = b.iter().map(|x| x.0).collect();
        let valid: Vec<bool> = b.iter().map(|x| x.1).collect();
        map.extend_zero(b.len());
        let valid_ref = &valid;
        let it = hashes.iter().enumerate().filter(move |(i, _)| valid_ref[*i]).map(move |(i, h)| (i + offset, h));
        if c.fifo {
            inserted.extend((0..b.len()).rev().filter(|i| valid[*i]).map(|i| i + offset));
            map.update_from_iter(Box::new(it.rev()), 0);
        } else {
            inserted.extend((0..b.len()).filter(|i| valid[*i]).map(|i| i + offset));
            map.update_from_iter(Box::new(it), 0);
        }
        rows.extend(b.iter().cloned());
        offset += b.len();
    }
    Built { rows, inserted }
}

fn new_map(u64_index: bool, cap: usize) -> Box<dyn JoinHashMapType> {
    if u64_index { Box::new(JoinHashMapU64::with_capacity(cap)) } else { Box::new(JoinHashMapU32::with_capacity(cap)) }
}

/// Compare an observed (probe, build) index sequence with the oracle. `probe_order` = the probe
/// rows that were presented (non-NULL ones), in presentation order.
fn against_oracle(
    inp: &[u32],
    mat: &[u64],
    probe_order: &[usize],
    expected: &dyn Fn(usize) -> Vec<u64>,
) -> Option<(&'static str, String)> {
    if inp.len() != mat.len() {
        return Some(("index-vectors-differ-in-length", format!("{} probe indices vs {} build indices", inp.len(), mat.len())));
    }
    let mut groups: Vec<(usize, Vec<u64>)> = vec![];
    for (p, b) in inp.iter().zip(mat) {
        match groups.last_mut() {
            Some((gp, g)) if *gp == *p as usize => g.push(*b),
            _ => groups.push((*p as usize, vec![*b])),
        }
    }
    let pos: HashMap<usize, usize> = probe_order.iter().enumerate().map(|(i, p)| (*p, i)).collect();
    let mut last: Option<usize> = None;
    let mut by_row: HashMap<usize, Vec<u64>> = HashMap::new();
    for (p, g) in groups {
        match pos.get(&p) {
            None => return Some(("match-for-null-or-unknown-probe-row", format!("probe row {p} got build rows {g:?}"))),
            Some(ix) => {
                if last.is_some_and(|l| l >= *ix) {
                    return Some(("probe-rows-not-grouped-in-order", format!("probe row {p} emitted out of order / in two groups")));
                }
                last = Some(*ix);
                by_row.insert(p, g);
            }
        }
    }
    for p in probe_order {
        let mut obs = by_row.remove(p).unwrap_or_default();
        obs.sort_unstable();
        let exp = expected(*p);
        if obs != exp {
            let mut dedup = obs.clone();
            dedup.dedup();
            let sig = if dedup.len() != obs.len() {
                "build-row-returned-twice"
            } else if exp.iter().any(|b| !obs.contains(b)) {
                "matching-build-row-missing"
            } else {
                "non-matching-build-row-returned"
            };
            return Some((sig, format!("probe row {p}: observed build rows {obs:?}, expected {exp:?}")));
        }
    }
    None
}

#[derive(Default)]
struct PageStats {
    pages: u64,
    resume_chain_end: u64,
    resume_mid_chain: u64,
    resume_next_row: u64,
    short_pages: u64,
    empty_pages: u64,
}

/// Retrieve the whole lookup in pages of `limit`, resuming strictly from the returned offset.
#[allow(clippy::too_many_arguments)]
fn paged(
    map: &dyn JoinHashMapType,
    probe: &[u64],
    nulls: Option<&NullBuffer>,
    limit: usize,
    max_pages: usize,
    corrupt: &AtomicBool,
    st: &mut PageStats,
) -> Result<(Vec<u32>, Vec<u64>), String> {
    let mut all_inp = vec![];
    let mut all_mat = vec![];
    let mut inp: Vec<u32> = vec![];
    let mut mat: Vec<u64> = vec![];
    let mut off: Offset = (0, None);
    let mut pages = 0usize;
    loop {
        let next = map.get_matched_indices_with_limit_offset(probe, nulls, limit, off, &mut inp, &mut mat);
        pages += 1;
        st.pages += 1;
        if pages == 2 && !mat.is_empty() && corrupt.swap(false, Ordering::Relaxed) {
            // selftest: the head of the second page is lost
            inp.remove(0);
            mat.remove(0);
        }
        if inp.is_empty() {
            st.empty_pages += 1;
        } else if inp.len() < limit && next.is_some() {
            st.short_pages += 1;
        }
        all_inp.extend_from_slice(&inp);
        all_mat.extend_from_slice(&mat);
        match next {
            None => return Ok((all_inp, all_mat)),
            Some(o) => {
                match o.1 {
                    None => st.resume_next_row += 1,
                    Some(0) => st.resume_chain_end += 1,
                    Some(_) => st.resume_mid_chain += 1,
                }
                if pages > max_pages {
                    return Err(format!("no end after {pages} pages of limit {limit}; last offset {o:?}, previous {off:?}"));
                }
                off = o;
            }
        }
    }
}

struct Ctx<'a> {
    rep: &'a Report,
    corrupt: &'a AtomicBool,
}

fn violation(cx: &Ctx, sig: &str, c: &Case, u64_index: bool, what: &str, detail: String) {
    cx.rep.violation(
        sig,
        json!({"case": c.to_json(), "index_type": if u64_index { "JoinHashMapU64" } else { "JoinHashMapU32" }, "operation": what, "detail": detail}),
    );
}

/// All checks for one case and one index width. Returns (|result|, fast path used).
fn check_case(cx: &Ctx, c: &Case, u64_index: bool) -> (usize, bool) {
    let n_rows: usize = c.batches.iter().map(|b| b.len()).sum();
    let mut map = new_map(u64_index, n_rows + c.extra_cap);
    let built = build(&mut *map, c);
    let map: &dyn JoinHashMapType = &*map;
    let rows = &built.rows;
    let expected = |p: usize| -> Vec<u64> {
        (0..rows.len()).filter(|b| rows[*b].1 && rows[*b].0 == c.probe[p]).map(|b| b as u64).collect()
    };
    let pv = |p: usize| c.pvalid.as_ref().is_none_or(|v| v[p]);
    let probe_order: Vec<usize> = (0..c.probe.len()).filter(|p| pv(*p)).collect();
    let nulls: Option<NullBuffer> = c.pvalid.as_ref().map(|v| NullBuffer::from(v.clone()));
    let distinct_inserted: usize = {
        let mut hs: Vec<u64> = rows.iter().filter(|r| r.1).map(|r| r.0).collect();
        hs.sort_unstable();
        hs.dedup();
        hs.len()
    };
    // the unique-keys fast path is taken when #distinct == capacity
    let fast = distinct_inserted == n_rows + c.extra_cap;

    // (1) complete lookup
    let mut inp = vec![];
    let mut mat = vec![];
    let next = map.get_matched_indices_with_limit_offset(&c.probe, nulls.as_ref(), 1 << 20, (0, None), &mut inp, &mut mat);
    let mut full_ok = true;
    if let Some(o) = next {
        full_ok = false;
        violation(cx, "complete-lookup-reports-more", c, u64_index, "get_matched_indices_with_limit_offset(limit=2^20)", format!("returned offset {o:?} although the limit was not reached"));
    }
    if let Some((sig, d)) = against_oracle(&inp, &mat, &probe_order, &expected) {
        full_ok = false;
        violation(cx, &format!("lookup/{sig}"), c, u64_index, "get_matched_indices_with_limit_offset(limit=2^20)", d);
    }
    let total = inp.len();

    // observation only: order of build rows within a probe row vs reverse insertion order
    if full_ok && total > 0 {
        let mut lifo = true;
        let mut i = 0;
        while i < inp.len() {
            let p = inp[i] as usize;
            let mut j = i;
            while j < inp.len() && inp[j] as usize == p {
                j += 1;
            }
            let want: Vec<u64> = built.inserted.iter().rev().filter(|b| rows[**b].0 == c.probe[p]).map(|b| *b as u64).collect();
            if mat[i..j] != want[..] {
                lifo = false;
            }
            i = j;
        }
        cx.rep.count(if lifo { "observed/within-row order = reverse insertion order" } else { "observed/within-row order differs from reverse insertion" }, 1);
    }

    // (2) every page size
    let mut st = PageStats::default();
    let max_pages = total + c.probe.len() + 4;
    for limit in 1..=total + 1 {
        match paged(map, &c.probe, nulls.as_ref(), limit, max_pages, cx.corrupt, &mut st) {
            Err(d) => violation(cx, "paging/does-not-terminate", c, u64_index, &format!("paged lookup, limit={limit}"), d),
            Ok((pi, pm)) => {
                if full_ok {
                    if pi != inp || pm != mat {
                        let mut a: Vec<(u32, u64)> = pi.iter().cloned().zip(pm.iter().cloned()).collect();
                        let mut b: Vec<(u32, u64)> = inp.iter().cloned().zip(mat.iter().cloned()).collect();
                        let seq = format!("paged (probe,build) = {a:?}; complete = {b:?}");
                        a.sort_unstable();
                        b.sort_unstable();
                        let sig = if a != b { "paging/pairs-lost-or-duplicated" } else { "paging/sequence-order-differs" };
                        violation(cx, sig, c, u64_index, &format!("paged lookup, limit={limit}"), seq);
                    }
                } else if let Some((sig, d)) = against_oracle(&pi, &pm, &probe_order, &expected) {
                    violation(cx, &format!("paging/{sig}"), c, u64_index, &format!("paged lookup, limit={limit}"), d);
                }
            }
        }
    }
    cx.rep.count("paged lookups (one per page size)", total as u64 + 1);
    cx.rep.count("pages", st.pages);
    cx.rep.count("resume/at chain end (idx, Some(0))", st.resume_chain_end);
    cx.rep.count("resume/mid chain (idx, Some(next))", st.resume_mid_chain);
    cx.rep.count("resume/next probe row (idx, None) [unique fast path]", st.resume_next_row);
    cx.rep.count("pages/short although more followed", st.short_pages);
    cx.rep.count("pages/empty", st.empty_pages);

    // (3) membership
    let ch = map.contain_hashes(&c.probe);
    if ch.len() != c.probe.len() {
        violation(cx, "contain_hashes/length", c, u64_index, "contain_hashes", format!("{} answers for {} hashes", ch.len(), c.probe.len()));
    } else {
        for p in 0..c.probe.len() {
            let exp = rows.iter().any(|r| r.1 && r.0 == c.probe[p]);
            if ch.value(p) != exp || ch.is_null(p) {
                violation(cx, "contain_hashes/disagrees", c, u64_index, "contain_hashes", format!("probe row {p} hash {}: observed {}, expected {exp}", c.probe[p], ch.value(p)));
                break;
            }
        }
    }

    // (4) get_matched_indices: forward / reversed presentation, None / Some(0)
    for (rev, del) in [(false, None), (true, None), (false, Some(0usize)), (true, Some(0usize))] {
        let order: Vec<usize> = if rev { probe_order.iter().rev().cloned().collect() } else { probe_order.clone() };
        let it = order.iter().map(|p| (*p, &c.probe[*p]));
        let (gi, gm) = map.get_matched_indices(Box::new(it), del);
        if let Some((sig, d)) = against_oracle(&gi, &gm, &order, &expected) {
            violation(cx, &format!("get_matched_indices/{sig}"), c, u64_index, &format!("get_matched_indices(reversed={rev}, deleted_offset={del:?})"), d);
        }
    }
    cx.rep.count("get_matched_indices calls", 4);
    (total, fast)
}

/// `deleted_offset` as the symmetric join uses it, emulated on the public maps: rows with an
/// absolute index < D are pruned. The chain of a hash may still end in a stale pointer to the
/// newest pruned row of that hash (inserted while its map slot was vacant, so `next` is not
/// written), exactly the state `PruningJoinHashMap::prune_hash_values` leaves behind.
fn check_deleted_offset(cx: &Ctx, c: &Case, u64_index: bool) {
    let rows: Vec<(u64, bool)> = c.batches.iter().flatten().cloned().collect();
    let d = c.deleted.min(rows.len());
    let live = rows.len() - d;
    let mut map = new_map(u64_index, live);
    // newest pruned row per hash
    let mut stale: BTreeMap<u64, usize> = BTreeMap::new();
    for (i, (h, v)) in rows.iter().enumerate().take(d) {
        if *v {
            stale.insert(*h, i);
        }
    }
    let keep: Vec<bool> = rows.iter().enumerate().map(|(i, (h, v))| *v && (i >= d || stale.get(h) == Some(&i))).collect();
    let hashes: Vec<u64> = rows.iter().map(|r| r.0).collect();
    let keep_ref = &keep;
    map.update_from_iter(Box::new(hashes.iter().enumerate().filter(move |(i, _)| keep_ref[*i])), d);
    let expected = |p: usize| -> Vec<u64> {
        (d..rows.len()).filter(|b| rows[*b].1 && rows[*b].0 == c.probe[p]).map(|b| (b - d) as u64).collect()
    };
    let pv = |p: usize| c.pvalid.as_ref().is_none_or(|v| v[p]);
    let probe_order: Vec<usize> = (0..c.probe.len()).filter(|p| pv(*p)).collect();
    for rev in [false, true] {
        let order: Vec<usize> = if rev { probe_order.iter().rev().cloned().collect() } else { probe_order.clone() };
        let it = order.iter().map(|p| (*p, &c.probe[*p]));
        let (gi, gm) = map.get_matched_indices(Box::new(it), Some(d));
        if let Some((sig, det)) = against_oracle(&gi, &gm, &order, &expected) {
            violation(cx, &format!("get_matched_indices+deleted_offset/{sig}"), c, u64_index, &format!("forward insertion of rows >= {d} (+ newest pruned row per hash as stale head), get_matched_indices(reversed={rev}, Some({d}))"), det);
        }
    }
    cx.rep.count("deleted_offset lookups", 2);
    cx.rep.count("deleted_offset/stale chain tails present", stale.len() as u64);
}

// ---------------------------------------------------------------------------------------
// generators
// ---------------------------------------------------------------------------------------

/// Seed independent: every build sequence of length <= 4 over {h1, h2, NULL-key} x every probe
/// sequence of length <= 3 over {h1, h2, miss, NULL-key h1}; single batch and split in two.
fn systematic(max_b: usize, max_p: usize) -> Vec<Case> {
    let mut out = vec![];
    let bsym: [(u64, bool); 3] = [(10, true), (20, true), (10, false)];
    let psym: [(u64, bool); 4] = [(10, true), (20, true), (30, true), (10, false)];
    let mut builds: Vec<Vec<(u64, bool)>> = vec![vec![]];
    let mut frontier: Vec<Vec<(u64, bool)>> = vec![vec![]];
    for _ in 0..max_b {
        let mut next = vec![];
        for f in &frontier {
            for s in bsym {
                let mut g = f.clone();
                g.push(s);
                next.push(g);
            }
        }
        builds.extend(next.iter().cloned());
        frontier = next;
    }
    let mut probes: Vec<Vec<(u64, bool)>> = vec![vec![]];
    let mut frontier: Vec<Vec<(u64, bool)>> = vec![vec![]];
    for _ in 0..max_p {
        let mut next = vec![];
        for f in &frontier {
            for s in psym {
                let mut g = f.clone();
                g.push(s);
                next.push(g);
            }
        }
        probes.extend(next.iter().cloned());
        frontier = next;
    }
    for b in &builds {
        for p in &probes {
            let probe: Vec<u64> = p.iter().map(|x| x.0).collect();
            let pvalid = if p.iter().all(|x| x.1) { None } else { Some(p.iter().map(|x| x.1).collect()) };
            let mut splits = vec![vec![b.clone()]];
            if b.len() >= 2 {
                let m = b.len() / 2;
                splits.push(vec![b[..m].to_vec(), b[m..].to_vec()]);
            }
            for (si, batches) in splits.into_iter().enumerate() {
                out.push(Case {
                    batches,
                    extra_cap: 0,
                    fifo: true,
                    probe: probe.clone(),
                    pvalid: pvalid.clone(),
                    deleted: b.len() / 2 + si,
                    kind: "systematic",
                });
            }
        }
    }
    out
}

fn random_case(rng: &mut Rng, max_b: usize, max_p: usize) -> Case {
    let mode = rng.weighted(&[5, 2, 2, 1, 1]);
    let kind = ["chains", "unique", "nearly-unique", "empty-build", "single-hash"][mode];
    let special = [0u64, 1, u64::MAX, u64::MAX - 1, 1 << 63, 0x8000_0000, 7];
    let pick_hash = |rng: &mut Rng| if rng.chance(1, 3) { *rng.pick(&special) } else { rng.next_u64() };
    let nb = match mode {
        3 => 0,
        _ => 1 + rng.usize(max_b),
    };
    let mut pool: Vec<u64> = vec![];
    let n_distinct = match mode {
        0 => 1 + rng.usize(4),
        4 => 1,
        _ => nb.max(1),
    };
    while pool.len() < n_distinct {
        let h = pick_hash(rng);
        if !pool.contains(&h) {
            pool.push(h);
        }
    }
    let mut rows: Vec<(u64, bool)> = match mode {
        0 | 4 => (0..nb).map(|_| (*rng.pick(&pool), true)).collect(),
        _ => (0..nb).map(|i| (pool[i], true)).collect(),
    };
    match mode {
        0 | 4 => {
            // NULL-key build rows (never inserted)
            if rng.chance(1, 2) {
                for r in rows.iter_mut() {
                    if rng.chance(1, 5) {
                        r.1 = false;
                    }
                }
            }
        }
        2 if nb >= 2 => {
            if rng.bool() {
                let i = rng.usize(nb);
                let j = (i + 1 + rng.usize(nb - 1)) % nb;
                rows[i].0 = rows[j].0; // one duplicate
            } else {
                let i = rng.usize(nb);
                rows[i].1 = false; // one NULL key: all distinct but not the fast path
            }
        }
        _ => {}
    }
    // batches
    let mut batches: Vec<Vec<(u64, bool)>> = vec![];
    if rng.chance(1, 3) || nb == 0 {
        batches.push(rows.clone());
    } else {
        let mut at = 0;
        for n in rng.chunks(nb, nb.div_ceil(2).max(1)) {
            batches.push(rows[at..at + n].to_vec());
            at += n;
        }
        if rng.chance(1, 6) {
            let i = rng.usize(batches.len() + 1);
            batches.insert(i, vec![]); // an empty batch in between
        }
    }
    let extra_cap = if mode != 1 && rng.chance(1, 8) { 1 + rng.usize(3) } else { 0 };
    // probe
    let np = if rng.chance(1, 25) { 0 } else { 1 + rng.usize(max_p) };
    let probe: Vec<u64> = (0..np)
        .map(|_| if pool.is_empty() || rng.chance(1, 4) { pick_hash(rng) } else { *rng.pick(&pool) })
        .collect();
    let pvalid = match rng.below(6) {
        0 | 1 | 2 => None,
        3 => Some((0..np).map(|_| rng.chance(3, 4)).collect::<Vec<bool>>()),
        4 => Some((0..np).map(|i| i + 1 != np).collect()), // last probe row is a NULL key
        _ => Some((0..np).map(|i| i != 0 && rng.chance(1, 2)).collect()),
    };
    Case { batches, extra_cap, fifo: rng.chance(3, 4), probe, pvalid, deleted: rng.usize(nb + 1), kind }
}

fn run(args: &Args) -> i32 {
    let rep = Report::new("C14", "exploration", args);
    rep.set_rule(
        "one case = (build batches of u64 hashes with NULL-key marks, capacity, insertion idiom, probe hashes, probe validity); \
         every case is executed on JoinHashMapU32 and JoinHashMapU64: complete lookup vs the list comprehension, then EVERY page size 1..=|result|+1 \
         resumed strictly from the returned offset, contain_hashes, get_matched_indices (forward/reversed, None/Some(0)) and the deleted_offset sub-check. \
         Systematic part: all builds of length <=4 over {h1,h2,NULL} x all probes of length <=3 over {h1,h2,miss,NULL}, single batch and split; \
         then seeded random cases (|B|<=40 with <=4 distinct hashes, unique-only maps, nearly unique, empty build; |P|<=20). \
         distinct_nontrivial = distinct cases whose complete lookup has >= 2 (probe,build) pairs, i.e. at least one page boundary is exercised.",
    );
    rep.assume("oracle: [(p,b) | p non-NULL, b inserted, B[b]==P[p]] computed by linear scan over the concatenated build side in the order the join indexes it");
    rep.assume("NULL-key build rows are modelled the way joins::utils::update_hash does it: they are filtered out of the iterator given to update_from_iter");
    rep.assume("deleted_offset sub-check emulates PruningJoinHashMap (not public) on JoinHashMapU32/U64: only rows >= D plus the newest pruned row per hash (stale head / chain tail) are inserted with update_from_iter(.., D)");
    rep.assume("within-probe-row order of build indices is not part of the property; observed and counted only");

    let miri = args.stage == "miri";
    let reduced = !args.stage.is_empty();
    let selftest = args.opt_u64("selftest", 0) == 1;
    let corrupt = AtomicBool::new(selftest);
    let cx = Ctx { rep: &rep, corrupt: &corrupt };

    let mut cases: Vec<Case> = vec![];
    let n_random;
    if miri {
        let sys = systematic(3, 2);
        let stride = sys.len().div_ceil(240).max(1);
        cases.extend(sys.into_iter().step_by(stride));
        n_random = 60;
    } else {
        cases.extend(systematic(4, 3));
        n_random = args.bound("cases", 20_000, 200_000) as usize / if reduced { 10 } else { 1 };
    }
    let n_sys = cases.len();
    let (max_b, max_p) = if miri { (8, 4) } else { (40, 20) };
    for i in 0..n_random {
        let mut rng = Rng::derive(args.seed, &[14, 1, i as u64]);
        cases.push(random_case(&mut rng, max_b, max_p));
    }
    rep.count("cases/systematic", n_sys as u64);
    rep.count("cases/random", n_random as u64);

    let workers = if miri { 1 } else { args.workers };
    vcommon::par::run(workers, cases.into_iter(), |c| {
        let r = guard(|| {
            let a = check_case(&cx, &c, false);
            let b = check_case(&cx, &c, true);
            if a != b {
                rep.violation("index-width-disagreement", json!({"case": c.to_json(), "u32 (pairs, fast)": format!("{a:?}"), "u64 (pairs, fast)": format!("{b:?}")}));
            }
            check_deleted_offset(&cx, &c, false);
            check_deleted_offset(&cx, &c, true);
            a
        });
        match r {
            Ok((total, fast)) => {
                rep.case(c.fp(), total >= 2);
                rep.count(&format!("kind/{}", c.kind), 1);
                rep.count(if fast { "path/unique fast path (map.len()==next.len())" } else { "path/chain traversal" }, 1);
                if c.pvalid.is_some() {
                    rep.count("cases with NULL-key probe rows", 1);
                }
                if c.batches.len() > 1 {
                    rep.count(if c.fifo { "cases/multi-batch, hash-join reverse idiom" } else { "cases/multi-batch, forward" }, 1);
                }
                // chain-length histogram over inserted build rows
                let mut chains: BTreeMap<u64, u64> = BTreeMap::new();
                for (h, v) in c.batches.iter().flatten() {
                    if *v {
                        *chains.entry(*h).or_insert(0) += 1;
                    }
                }
                for n in chains.values() {
                    let bucket = match *n {
                        1 => "1",
                        2 => "2",
                        3..=4 => "3-4",
                        5..=8 => "5-8",
                        9..=16 => "9-16",
                        _ => "17-40",
                    };
                    rep.count(&format!("chain_len/{bucket}"), 1);
                }
                rep.max("max_result_pairs", total as u64);
                if total >= 3 && rep.want_sample() {
                    rep.sample(json!({"case": c.to_json(), "result_pairs": total, "page_sizes_tried": total + 1}));
                }
            }
            Err(msg) => {
                rep.case(c.fp(), true);
                rep.violation("panic", json!({"case": c.to_json(), "panic": msg}));
            }
        }
    });

    let end = rep.get_count("resume/at chain end (idx, Some(0))");
    let mid = rep.get_count("resume/mid chain (idx, Some(next))");
    let fastn = rep.get_count("resume/next probe row (idx, None) [unique fast path]");
    rep.obligation("resume points at chain ends and mid-chain and in the unique fast path", end > 0 && mid > 0 && fastn > 0, &format!("chain-end {end}, mid-chain {mid}, fast-path {fastn}"));
    let nulls = rep.get_count("cases with NULL-key probe rows");
    rep.obligation("NULL-key probe rows exercised", nulls > 0, &format!("{nulls} cases"));
    let mb = rep.get_count("cases/multi-batch, hash-join reverse idiom");
    rep.obligation("multi-batch build with the reverse-order idiom", mb > 0, &format!("{mb} cases"));
    if selftest && corrupt.load(Ordering::Relaxed) {
        rep.inconclusive("selftest corruption point was never reached");
    }
    rep.set_exhaustive(false);
    rep.finish()
}

fn main() {
    let args = Args::parse();
    vcommon::par::quiet_panics();
    std::process::exit(run(&args));
}
