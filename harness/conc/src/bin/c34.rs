//! C34: scalar values, arrays and casts are mutually consistent.
//!
//! Laws monitored on the real `datafusion_common::ScalarValue` API:
//!   rt    s.to_array_of_size(n) has n rows and reads back (try_from_array) as s at every row
//!   iter  iter_to_array(scalars) reads back as those scalars
//!   hash  a == b  =>  hash(a) == hash(b)   (clones, array round trips, physically different
//!         but logically equal nested arrays, cast there-and-back, equal pairs met in `ord`)
//!   ord   partial_cmp is a total order consistent with == on primitive / string / binary /
//!         temporal / decimal types (one data type at a time, typed NULL included)
//!   sort  that order agrees with arrow's ascending NULLS FIRST sort (sort_to_indices,
//!         make_comparator, the row format) and with `utils::compare_rows`
//!   cast  s.cast_to_with_options(t) gives the same value or the same failure as the engine's
//!         array cast (`ColumnarValue::Array([s]).cast_to(t)`) — raw arrow is observed as well
//!
//! Systematic part (seed independent: every variant x edge values x typed NULL) first, then a
//! seeded random tail.

use arrow::array::*;
use arrow::buffer::{NullBuffer, OffsetBuffer, ScalarBuffer};
use arrow::compute::{can_cast_types, cast_with_options, concat, sort_to_indices, CastOptions, SortOptions};
use arrow::datatypes::*;
use arrow::row::{RowConverter, SortField};
use datafusion_common::format::DEFAULT_CAST_OPTIONS;
use datafusion_common::nested_struct::requires_nested_struct_cast;
use datafusion_common::scalar::ScalarStructBuilder;
use datafusion_common::utils::compare_rows;
use datafusion_common::ScalarValue;
use datafusion_expr_common::columnar_value::ColumnarValue;
use half::f16;
use std::cmp::Ordering;
use std::collections::{BTreeMap, BTreeSet};
use std::hash::{DefaultHasher, Hash, Hasher};
use std::sync::atomic::{AtomicU64, Ordering as AO};
use std::sync::{Arc, Mutex};
use vcommon::par::guard;
use vcommon::{fp_mix, fp_str, json, Args, Json, Report, Rng};

// ---------------------------------------------------------------------------------------
// Variants
// ---------------------------------------------------------------------------------------

/// Exhaustive on purpose (no wildcard): a new engine variant breaks the build of this check.
fn variant(s: &ScalarValue) -> &'static str {
    match s {
        ScalarValue::Null => "Null",
        ScalarValue::Boolean(_) => "Boolean",
        ScalarValue::Float16(_) => "Float16",
        ScalarValue::Float32(_) => "Float32",
        ScalarValue::Float64(_) => "Float64",
        ScalarValue::Decimal32(..) => "Decimal32",
        ScalarValue::Decimal64(..) => "Decimal64",
        ScalarValue::Decimal128(..) => "Decimal128",
        ScalarValue::Decimal256(..) => "Decimal256",
        ScalarValue::Int8(_) => "Int8",
        ScalarValue::Int16(_) => "Int16",
        ScalarValue::Int32(_) => "Int32",
        ScalarValue::Int64(_) => "Int64",
        ScalarValue::UInt8(_) => "UInt8",
        ScalarValue::UInt16(_) => "UInt16",
        ScalarValue::UInt32(_) => "UInt32",
        ScalarValue::UInt64(_) => "UInt64",
        ScalarValue::Utf8(_) => "Utf8",
        ScalarValue::Utf8View(_) => "Utf8View",
        ScalarValue::LargeUtf8(_) => "LargeUtf8",
        ScalarValue::Binary(_) => "Binary",
        ScalarValue::BinaryView(_) => "BinaryView",
        ScalarValue::FixedSizeBinary(..) => "FixedSizeBinary",
        ScalarValue::LargeBinary(_) => "LargeBinary",
        ScalarValue::FixedSizeList(_) => "FixedSizeList",
        ScalarValue::List(_) => "List",
        ScalarValue::LargeList(_) => "LargeList",
        ScalarValue::ListView(_) => "ListView",
        ScalarValue::LargeListView(_) => "LargeListView",
        ScalarValue::Struct(_) => "Struct",
        ScalarValue::Map(_) => "Map",
        ScalarValue::Date32(_) => "Date32",
        ScalarValue::Date64(_) => "Date64",
        ScalarValue::Time32Second(_) => "Time32Second",
        ScalarValue::Time32Millisecond(_) => "Time32Millisecond",
        ScalarValue::Time64Microsecond(_) => "Time64Microsecond",
        ScalarValue::Time64Nanosecond(_) => "Time64Nanosecond",
        ScalarValue::TimestampSecond(..) => "TimestampSecond",
        ScalarValue::TimestampMillisecond(..) => "TimestampMillisecond",
        ScalarValue::TimestampMicrosecond(..) => "TimestampMicrosecond",
        ScalarValue::TimestampNanosecond(..) => "TimestampNanosecond",
        ScalarValue::IntervalYearMonth(_) => "IntervalYearMonth",
        ScalarValue::IntervalDayTime(_) => "IntervalDayTime",
        ScalarValue::IntervalMonthDayNano(_) => "IntervalMonthDayNano",
        ScalarValue::DurationSecond(_) => "DurationSecond",
        ScalarValue::DurationMillisecond(_) => "DurationMillisecond",
        ScalarValue::DurationMicrosecond(_) => "DurationMicrosecond",
        ScalarValue::DurationNanosecond(_) => "DurationNanosecond",
        ScalarValue::Union(..) => "Union",
        ScalarValue::Dictionary(..) => "Dictionary",
        ScalarValue::RunEndEncoded(..) => "RunEndEncoded",
    }
}

const ALL_VARIANTS: [&str; 51] = [
    "Null", "Boolean", "Float16", "Float32", "Float64", "Decimal32", "Decimal64", "Decimal128", "Decimal256",
    "Int8", "Int16", "Int32", "Int64", "UInt8", "UInt16", "UInt32", "UInt64", "Utf8", "Utf8View", "LargeUtf8",
    "Binary", "BinaryView", "FixedSizeBinary", "LargeBinary", "FixedSizeList", "List", "LargeList", "ListView",
    "LargeListView", "Struct", "Map", "Date32", "Date64", "Time32Second", "Time32Millisecond", "Time64Microsecond",
    "Time64Nanosecond", "TimestampSecond", "TimestampMillisecond", "TimestampMicrosecond", "TimestampNanosecond",
    "IntervalYearMonth", "IntervalDayTime", "IntervalMonthDayNano", "DurationSecond", "DurationMillisecond",
    "DurationMicrosecond", "DurationNanosecond", "Union", "Dictionary", "RunEndEncoded",
];

/// Coarse, value-free name of a data type (used in violation signatures and cast-pair sets).
fn type_class(dt: &DataType) -> String {
    let unit = |u: &TimeUnit| match u {
        TimeUnit::Second => "s",
        TimeUnit::Millisecond => "ms",
        TimeUnit::Microsecond => "us",
        TimeUnit::Nanosecond => "ns",
    };
    match dt {
        DataType::Timestamp(u, tz) => format!("Timestamp({}{})", unit(u), if tz.is_some() { ",tz" } else { "" }),
        DataType::Time32(u) => format!("Time32({})", unit(u)),
        DataType::Time64(u) => format!("Time64({})", unit(u)),
        DataType::Duration(u) => format!("Duration({})", unit(u)),
        DataType::Decimal32(..) => "Decimal32".into(),
        DataType::Decimal64(..) => "Decimal64".into(),
        DataType::Decimal128(..) => "Decimal128".into(),
        DataType::Decimal256(..) => "Decimal256".into(),
        DataType::FixedSizeBinary(_) => "FixedSizeBinary".into(),
        DataType::List(_) => "List".into(),
        DataType::LargeList(_) => "LargeList".into(),
        DataType::FixedSizeList(..) => "FixedSizeList".into(),
        DataType::ListView(_) => "ListView".into(),
        DataType::LargeListView(_) => "LargeListView".into(),
        DataType::Struct(_) => "Struct".into(),
        DataType::Map(..) => "Map".into(),
        DataType::Union(_, m) => format!("Union({m:?})"),
        DataType::Dictionary(..) => "Dictionary".into(),
        DataType::RunEndEncoded(..) => "RunEndEncoded".into(),
        other => format!("{other}"),
    }
}

// ---------------------------------------------------------------------------------------
// Data types
// ---------------------------------------------------------------------------------------

const UNITS: [TimeUnit; 4] = [TimeUnit::Second, TimeUnit::Millisecond, TimeUnit::Microsecond, TimeUnit::Nanosecond];
const DICT_KEYS: [DataType; 8] = [
    DataType::Int8,
    DataType::Int16,
    DataType::Int32,
    DataType::Int64,
    DataType::UInt8,
    DataType::UInt16,
    DataType::UInt32,
    DataType::UInt64,
];

fn tzs() -> Vec<Option<Arc<str>>> {
    vec![None, Some("UTC".into()), Some("+05:30".into()), Some("America/New_York".into())]
}

/// The types of the ordering law: primitive, string, binary, temporal and decimal.
fn leaf_types() -> Vec<DataType> {
    use DataType::*;
    let mut v = vec![
        Boolean, Int8, Int16, Int32, Int64, UInt8, UInt16, UInt32, UInt64, Float16, Float32, Float64,
        Decimal32(1, 0), Decimal32(9, 0), Decimal32(9, 9), Decimal32(5, 2), Decimal32(9, -3),
        Decimal64(1, 0), Decimal64(18, 0), Decimal64(18, 18), Decimal64(10, 4), Decimal64(18, -5),
        Decimal128(1, 0), Decimal128(38, 0), Decimal128(38, 38), Decimal128(20, 6), Decimal128(38, -10),
        Decimal256(1, 0), Decimal256(76, 0), Decimal256(76, 76), Decimal256(40, 10), Decimal256(76, -20),
        Utf8, LargeUtf8, Utf8View, Binary, LargeBinary, BinaryView,
        FixedSizeBinary(0), FixedSizeBinary(1), FixedSizeBinary(16),
        Date32, Date64,
        Time32(TimeUnit::Second), Time32(TimeUnit::Millisecond), Time64(TimeUnit::Microsecond), Time64(TimeUnit::Nanosecond),
        Interval(IntervalUnit::YearMonth), Interval(IntervalUnit::DayTime), Interval(IntervalUnit::MonthDayNano),
    ];
    for u in UNITS {
        v.push(Duration(u));
        for tz in tzs() {
            v.push(Timestamp(u, tz));
        }
    }
    v
}

fn item(dt: DataType) -> FieldRef {
    Arc::new(Field::new_list_field(dt, true))
}

fn fld(name: &str, dt: DataType, nullable: bool) -> FieldRef {
    Arc::new(Field::new(name, dt, nullable))
}

fn struct_of(fields: Vec<FieldRef>) -> DataType {
    DataType::Struct(Fields::from(fields))
}

fn map_of(key: DataType, value: DataType, sorted: bool) -> DataType {
    let entries = struct_of(vec![fld("key", key, false), fld("value", value, true)]);
    DataType::Map(fld("entries", entries, false), sorted)
}

fn union_of(members: Vec<(i8, FieldRef)>, mode: UnionMode) -> DataType {
    DataType::Union(members.into_iter().collect::<UnionFields>(), mode)
}

fn ree_of(run_ends: DataType, values: DataType) -> DataType {
    DataType::RunEndEncoded(fld("run_ends", run_ends, false), fld("values", values, true))
}

fn dict_of(key: DataType, value: DataType) -> DataType {
    DataType::Dictionary(Box::new(key), Box::new(value))
}

fn nested_types() -> Vec<DataType> {
    use DataType::*;
    let ny: Option<Arc<str>> = Some("America/New_York".into());
    let utc: Option<Arc<str>> = Some("UTC".into());
    let s_ab = struct_of(vec![fld("a", Int32, true), fld("b", Utf8, true)]);
    let mut v = vec![
        Null,
        List(item(Int32)),
        List(fld("element", Utf8, false)),
        List(item(List(item(Int64)))),
        List(item(s_ab.clone())),
        List(item(Utf8View)),
        List(item(Timestamp(TimeUnit::Nanosecond, ny.clone()))),
        List(item(dict_of(Int32, Utf8))),
        List(item(Decimal128(20, 6))),
        LargeList(item(Float64)),
        LargeList(item(Utf8View)),
        LargeList(item(List(item(Boolean)))),
        FixedSizeList(item(Int32), 3),
        FixedSizeList(item(Utf8), 0),
        FixedSizeList(item(List(item(Int8))), 2),
        FixedSizeList(fld("item", Int64, false), 1),
        ListView(item(Int32)),
        ListView(item(Utf8)),
        LargeListView(item(Utf8)),
        LargeListView(item(Float32)),
        s_ab.clone(),
        Struct(Fields::empty()),
        struct_of(vec![
            fld("n", struct_of(vec![fld("x", Float64, true), fld("y", List(item(Int32)), true)]), true),
            fld("z", Timestamp(TimeUnit::Nanosecond, utc.clone()), true),
        ]),
        struct_of(vec![fld("a", Int32, false)]),
        struct_of(vec![fld("z", FixedSizeList(item(Int32), 0), true), fld("i", Int32, true)]),
        struct_of(vec![fld("w", FixedSizeBinary(0), true)]),
        struct_of(vec![fld("d", dict_of(Int8, Utf8), true), fld("m", map_of(Utf8, Int32, false), true)]),
        map_of(Utf8, Int32, false),
        map_of(Int32, List(item(Utf8)), false),
        map_of(Utf8, s_ab.clone(), true),
        union_of(vec![(0, fld("A", Int32, true)), (1, fld("B", Float64, true))], UnionMode::Sparse),
        union_of(vec![(3, fld("s", Utf8, true)), (7, fld("i", Int64, true))], UnionMode::Dense),
        union_of(vec![(1, fld("st", s_ab.clone(), true)), (5, fld("l", List(item(Int32)), true))], UnionMode::Sparse),
        union_of(vec![(0, fld("only", Boolean, true))], UnionMode::Dense),
    ];
    for k in DICT_KEYS {
        v.push(dict_of(k, Utf8));
    }
    for val in [
        Int64,
        LargeUtf8,
        Decimal128(20, 6),
        Timestamp(TimeUnit::Microsecond, Some("+05:30".into())),
        Binary,
        Float64,
        Utf8View,
        FixedSizeBinary(16),
        Null,
        List(item(Int32)),
    ] {
        v.push(dict_of(Int32, val));
    }
    for re in [Int16, Int32, Int64] {
        for val in [Float32, Utf8, Int64, Timestamp(TimeUnit::Millisecond, utc.clone()), Decimal64(10, 4)] {
            v.push(ree_of(re.clone(), val));
        }
    }
    v
}

fn gen_leaf_type(rng: &mut Rng) -> DataType {
    use DataType::*;
    match rng.below(10) {
        0 => {
            let p = rng.range(1, 9) as u8;
            Decimal32(p, rng.range(-3, p as i64) as i8)
        }
        1 => {
            let p = rng.range(1, 18) as u8;
            Decimal64(p, rng.range(-5, p as i64) as i8)
        }
        2 => {
            let p = rng.range(1, 38) as u8;
            Decimal128(p, rng.range(-10, p as i64) as i8)
        }
        3 => {
            let p = rng.range(1, 76) as u8;
            Decimal256(p, rng.range(-20, p as i64) as i8)
        }
        // zero-width binary is covered by the systematic part only (same reason as zero-width lists below)
        4 => FixedSizeBinary(rng.range(1, 20) as i32),
        _ => {
            let all: Vec<DataType> = leaf_types().into_iter().filter(|t| *t != FixedSizeBinary(0)).collect();
            rng.pick_cloned(&all)
        }
    }
}

fn gen_type(rng: &mut Rng, depth: u32) -> DataType {
    use DataType::*;
    if depth == 0 || rng.chance(55, 100) {
        return gen_leaf_type(rng);
    }
    let nullable = rng.chance(4, 5);
    let child = |rng: &mut Rng| gen_type(rng, depth - 1);
    let list_field = |rng: &mut Rng, dt: DataType| -> FieldRef {
        if rng.chance(4, 5) { Arc::new(Field::new_list_field(dt, nullable)) } else { fld("element", dt, nullable) }
    };
    match rng.below(11) {
        0 => {
            let c = child(rng);
            List(list_field(rng, c))
        }
        1 => {
            let c = child(rng);
            LargeList(list_field(rng, c))
        }
        2 => {
            // zero-width lists are covered by the systematic part only (arrow's `take` mishandles them,
            // which would otherwise re-surface under many derived signatures in the random tail)
            let c = child(rng);
            FixedSizeList(list_field(rng, c), rng.range(1, 3) as i32)
        }
        3 => {
            let c = child(rng);
            ListView(list_field(rng, c))
        }
        4 => {
            let c = child(rng);
            LargeListView(list_field(rng, c))
        }
        5 => {
            let n = rng.below(4);
            let fields = (0..n).map(|i| fld(&format!("f{i}"), child(rng), rng.chance(4, 5))).collect::<Vec<_>>();
            struct_of(fields)
        }
        6 => {
            let key = rng.pick_cloned(&[Utf8, Int32, Int64, LargeUtf8, Date32, UInt8]);
            map_of(key, child(rng), rng.chance(1, 4))
        }
        7 => {
            let n = 1 + rng.below(3);
            let mut ids: Vec<i8> = vec![];
            while (ids.len() as u64) < n {
                let id = rng.range(0, 20) as i8;
                if !ids.contains(&id) {
                    ids.push(id);
                }
            }
            let members = ids.into_iter().map(|id| (id, fld(&format!("u{id}"), child(rng), true))).collect();
            union_of(members, if rng.bool() { UnionMode::Sparse } else { UnionMode::Dense })
        }
        8 | 9 => {
            let val = if rng.chance(1, 8) { List(item(gen_leaf_type(rng))) } else { gen_leaf_type(rng) };
            dict_of(rng.pick_cloned(&DICT_KEYS), val)
        }
        _ => ree_of(rng.pick_cloned(&[Int16, Int32, Int64]), gen_leaf_type(rng)),
    }
}

// ---------------------------------------------------------------------------------------
// Values
// ---------------------------------------------------------------------------------------

const STRINGS: [&str; 30] = [
    "", "a", "hello", "h\u{e9}llo w\u{f6}rld \u{2713}", "exactly12byt", "thirteen char", "a string that is clearly longer than twelve bytes",
    "\0", "\u{1F600}\u{1F600}\u{1F600}\u{1F600}", "Z", "aa", "ab", "123", "-1", "1.5e3", "true", "2024-02-29", "2024-03-10T02:30:00",
    "2024-03-10T02:30:00-05:00", "2024-11-03 01:30:00", "12:34:56.789", "1 year 2 months", "NaN", "inf", " 42 ", "abc",
    "99999999999999999999", "0.000000001", "1e400", "-0",
];

fn pow10_i256(p: u32) -> i256 {
    i256::from_i128(10).wrapping_pow(p)
}

fn ts_scalar(u: &TimeUnit, v: Option<i64>, tz: Option<Arc<str>>) -> ScalarValue {
    match u {
        TimeUnit::Second => ScalarValue::TimestampSecond(v, tz),
        TimeUnit::Millisecond => ScalarValue::TimestampMillisecond(v, tz),
        TimeUnit::Microsecond => ScalarValue::TimestampMicrosecond(v, tz),
        TimeUnit::Nanosecond => ScalarValue::TimestampNanosecond(v, tz),
    }
}

fn dur_scalar(u: &TimeUnit, v: Option<i64>) -> ScalarValue {
    match u {
        TimeUnit::Second => ScalarValue::DurationSecond(v),
        TimeUnit::Millisecond => ScalarValue::DurationMillisecond(v),
        TimeUnit::Microsecond => ScalarValue::DurationMicrosecond(v),
        TimeUnit::Nanosecond => ScalarValue::DurationNanosecond(v),
    }
}

fn unit_factor(u: &TimeUnit) -> i64 {
    match u {
        TimeUnit::Second => 1,
        TimeUnit::Millisecond => 1_000,
        TimeUnit::Microsecond => 1_000_000,
        TimeUnit::Nanosecond => 1_000_000_000,
    }
}

/// Non-null edge values of a leaf type (None: not a leaf type).
fn leaf_edges(dt: &DataType) -> Option<Vec<ScalarValue>> {
    use ScalarValue as S;
    let i64e = [i64::MIN, -1, 0, 1, i64::MAX, 1_700_000_000];
    Some(match dt {
        DataType::Null => vec![S::Null],
        DataType::Boolean => vec![S::Boolean(Some(false)), S::Boolean(Some(true))],
        DataType::Int8 => [i8::MIN, -1, 0, 1, i8::MAX].map(|v| S::Int8(Some(v))).to_vec(),
        DataType::Int16 => [i16::MIN, -1, 0, 1, i16::MAX].map(|v| S::Int16(Some(v))).to_vec(),
        DataType::Int32 => [i32::MIN, -1, 0, 1, i32::MAX].map(|v| S::Int32(Some(v))).to_vec(),
        DataType::Int64 => [i64::MIN, -1, 0, 1, i64::MAX].map(|v| S::Int64(Some(v))).to_vec(),
        DataType::UInt8 => [0, 1, u8::MAX].map(|v| S::UInt8(Some(v))).to_vec(),
        DataType::UInt16 => [0, 1, u16::MAX].map(|v| S::UInt16(Some(v))).to_vec(),
        DataType::UInt32 => [0, 1, u32::MAX].map(|v| S::UInt32(Some(v))).to_vec(),
        DataType::UInt64 => [0, 1, u64::MAX, i64::MAX as u64 + 1].map(|v| S::UInt64(Some(v))).to_vec(),
        DataType::Float16 => [
            f16::NAN, f16::from_bits(0xfe01), f16::ZERO, f16::NEG_ZERO, f16::INFINITY, f16::NEG_INFINITY, f16::MIN_POSITIVE,
            f16::MIN_POSITIVE_SUBNORMAL, f16::MAX, f16::MIN, f16::from_f32(1.5), f16::from_f32(-1.5),
        ]
        .map(|v| S::Float16(Some(v)))
        .to_vec(),
        DataType::Float32 => [
            f32::NAN, f32::from_bits(0xffc0_0001), 0.0, -0.0, f32::INFINITY, f32::NEG_INFINITY, f32::MIN_POSITIVE,
            f32::from_bits(1), f32::MAX, f32::MIN, 1.5, -1.5, 1e15,
        ]
        .map(|v| S::Float32(Some(v)))
        .to_vec(),
        DataType::Float64 => [
            f64::NAN, f64::from_bits(0xfff8_0000_0000_0001), 0.0, -0.0, f64::INFINITY, f64::NEG_INFINITY, f64::MIN_POSITIVE,
            f64::from_bits(1), f64::MAX, f64::MIN, 1.5, -1.5, 1e15,
        ]
        .map(|v| S::Float64(Some(v)))
        .to_vec(),
        DataType::Decimal32(p, s) => {
            let m = 10i32.pow(*p as u32) - 1;
            [0, 1, -1, m, -m, 10i32.pow(*p as u32 - 1)].map(|v| S::Decimal32(Some(v), *p, *s)).to_vec()
        }
        DataType::Decimal64(p, s) => {
            let m = 10i64.pow(*p as u32) - 1;
            [0, 1, -1, m, -m, 10i64.pow(*p as u32 - 1)].map(|v| S::Decimal64(Some(v), *p, *s)).to_vec()
        }
        DataType::Decimal128(p, s) => {
            let m = 10i128.pow(*p as u32) - 1;
            [0, 1, -1, m, -m, 10i128.pow(*p as u32 - 1)].map(|v| S::Decimal128(Some(v), *p, *s)).to_vec()
        }
        DataType::Decimal256(p, s) => {
            let m = pow10_i256(*p as u32).wrapping_sub(i256::ONE);
            [i256::ZERO, i256::ONE, i256::ONE.wrapping_neg(), m, m.wrapping_neg(), pow10_i256(*p as u32 - 1)]
                .map(|v| S::Decimal256(Some(v), *p, *s))
                .to_vec()
        }
        DataType::Utf8 => STRINGS.iter().map(|s| S::Utf8(Some(s.to_string()))).collect(),
        DataType::LargeUtf8 => STRINGS.iter().map(|s| S::LargeUtf8(Some(s.to_string()))).collect(),
        DataType::Utf8View => STRINGS.iter().map(|s| S::Utf8View(Some(s.to_string()))).collect(),
        DataType::Binary => bin_edges().into_iter().map(|b| S::Binary(Some(b))).collect(),
        DataType::LargeBinary => bin_edges().into_iter().map(|b| S::LargeBinary(Some(b))).collect(),
        DataType::BinaryView => bin_edges().into_iter().map(|b| S::BinaryView(Some(b))).collect(),
        DataType::FixedSizeBinary(n) => {
            let n = *n as usize;
            vec![vec![0u8; n], vec![0xffu8; n], (0..n).map(|i| i as u8).collect(), (0..n).map(|i| 200u8.wrapping_sub(i as u8)).collect()]
                .into_iter()
                .map(|b| S::FixedSizeBinary(n as i32, Some(b)))
                .collect()
        }
        DataType::Date32 => [i32::MIN, -1, 0, 1, i32::MAX, 19_800, -719_162, 2_932_896].map(|v| S::Date32(Some(v))).to_vec(),
        DataType::Date64 => {
            [i64::MIN, -1, 0, 1, i64::MAX, 86_400_000, 1_710_055_800_000, 9_223_372_036_854_775, 9_223_372_036_854_776, -9_223_372_036_854_776]
                .map(|v| S::Date64(Some(v)))
                .to_vec()
        }
        DataType::Time32(TimeUnit::Second) => [0, 1, 43_200, 86_399].map(|v| S::Time32Second(Some(v))).to_vec(),
        DataType::Time32(TimeUnit::Millisecond) => [0, 1, 43_200_000, 86_399_999].map(|v| S::Time32Millisecond(Some(v))).to_vec(),
        DataType::Time64(TimeUnit::Microsecond) => [0, 1, 43_200_000_000, 86_399_999_999].map(|v| S::Time64Microsecond(Some(v))).to_vec(),
        DataType::Time64(TimeUnit::Nanosecond) => {
            [0, 1, 43_200_000_000_000, 86_399_999_999_999].map(|v| S::Time64Nanosecond(Some(v))).to_vec()
        }
        DataType::Timestamp(u, tz) => {
            let f = unit_factor(u);
            // 2024-03-10T07:30:00Z is inside the New York DST gap when read as local time
            let mut vals = vec![i64::MIN, -1, 0, 1, i64::MAX, 1_710_055_800 * f, 1_730_611_800 * f, -62_135_596_800 * f.min(1_000_000)];
            vals.push(i64::MAX / 1000);
            vals.push(i64::MAX / 1000 + 1);
            vals.into_iter().map(|v| ts_scalar(u, Some(v), tz.clone())).collect()
        }
        DataType::Duration(u) => i64e.iter().map(|v| dur_scalar(u, Some(*v))).collect(),
        DataType::Interval(IntervalUnit::YearMonth) => [i32::MIN, -1, 0, 1, 13, i32::MAX].map(|v| S::IntervalYearMonth(Some(v))).to_vec(),
        DataType::Interval(IntervalUnit::DayTime) => {
            [(0, 0), (1, 0), (0, 1), (-1, 0), (0, -1), (i32::MAX, i32::MIN), (i32::MIN, i32::MAX), (1, -1), (-1, 1), (0, 86_400_000)]
                .map(|(d, ms)| S::IntervalDayTime(Some(IntervalDayTime::new(d, ms))))
                .to_vec()
        }
        DataType::Interval(IntervalUnit::MonthDayNano) => [
            (0, 0, 0), (1, 0, 0), (0, 1, 0), (0, 0, 1), (-1, 0, 0), (0, -1, 0), (0, 0, -1), (i32::MAX, i32::MIN, i64::MAX),
            (i32::MIN, i32::MAX, i64::MIN), (0, 1, -1), (1, -1, 0), (0, 30, 0),
        ]
        .map(|(m, d, n)| S::IntervalMonthDayNano(Some(IntervalMonthDayNano::new(m, d, n))))
        .to_vec(),
        _ => return None,
    })
}

fn bin_edges() -> Vec<Vec<u8>> {
    vec![
        vec![],
        vec![0],
        vec![255, 0, 1],
        vec![0, 0],
        (0..12u8).collect(),
        (0..13u8).collect(),
        (0..40u8).map(|i| i.wrapping_mul(7)).collect(),
        b"hello".to_vec(),
        vec![0xff, 0xfe],
        vec![0x80],
    ]
}

fn rand_i64(rng: &mut Rng) -> i64 {
    let bits = rng.below(65);
    let v = if bits == 0 { 0 } else { (rng.next_u64() >> (64 - bits)) as i64 };
    if rng.bool() { v.wrapping_neg() } else { v }
}

fn rand_string(rng: &mut Rng) -> String {
    const PAL: [&str; 16] = ["a", "b", "z", "A", "0", "9", " ", "-", ".", ":", "\u{e9}", "\u{df}", "\u{4e2d}", "\u{1F600}", "\0", "~"];
    let len = match rng.below(6) {
        0 => rng.usize(4),
        1 => 10 + rng.usize(5),
        2 => 20 + rng.usize(30),
        _ => rng.usize(16),
    };
    (0..len).map(|_| *rng.pick(&PAL)).collect()
}

fn rand_bytes(rng: &mut Rng, len: usize) -> Vec<u8> {
    (0..len).map(|_| if rng.chance(1, 4) { *rng.pick(&[0u8, 0xff, 0x80, 0x7f]) } else { rng.next_u64() as u8 }).collect()
}

fn rand_leaf(dt: &DataType, rng: &mut Rng) -> Option<ScalarValue> {
    use ScalarValue as S;
    let edges = leaf_edges(dt)?;
    if rng.chance(2, 5) || matches!(dt, DataType::Null | DataType::Boolean) {
        return Some(rng.pick_cloned(&edges));
    }
    let small = rng.chance(1, 3);
    let r = if small { rng.range(-4, 4) } else { rand_i64(rng) };
    Some(match dt {
        DataType::Int8 => S::Int8(Some(r as i8)),
        DataType::Int16 => S::Int16(Some(r as i16)),
        DataType::Int32 => S::Int32(Some(r as i32)),
        DataType::Int64 => S::Int64(Some(r)),
        DataType::UInt8 => S::UInt8(Some(r as u8)),
        DataType::UInt16 => S::UInt16(Some(r as u16)),
        DataType::UInt32 => S::UInt32(Some(r as u32)),
        DataType::UInt64 => S::UInt64(Some(if small { r.unsigned_abs() } else { rng.next_u64() >> rng.below(64) })),
        DataType::Float16 => S::Float16(Some(if small { f16::from_f32(r as f32 * 0.5) } else { f16::from_bits(rng.next_u64() as u16) })),
        DataType::Float32 => S::Float32(Some(if small { r as f32 * 0.25 } else { f32::from_bits(rng.next_u32()) })),
        DataType::Float64 => S::Float64(Some(if small { r as f64 * 0.125 } else { f64::from_bits(rng.next_u64()) })),
        DataType::Decimal32(p, s) => S::Decimal32(Some((r % 10i64.pow(*p as u32)) as i32), *p, *s),
        DataType::Decimal64(p, s) => S::Decimal64(Some(r % 10i64.pow(*p as u32)), *p, *s),
        DataType::Decimal128(p, s) => {
            let wide = ((rand_i64(rng) as i128) << 64) | rng.next_u64() as i128;
            let v = if small { r as i128 } else { wide };
            S::Decimal128(Some(v % 10i128.pow(rng.range(1, *p as i64) as u32)), *p, *s)
        }
        DataType::Decimal256(p, s) => {
            let wide = i256::from_parts(((rng.next_u64() as u128) << 64) | rng.next_u64() as u128, ((rand_i64(rng) as i128) << 64) | rng.next_u64() as i128);
            let v = if small { i256::from_i128(r as i128) } else { wide };
            S::Decimal256(Some(v.wrapping_rem(pow10_i256(rng.range(1, *p as i64) as u32))), *p, *s)
        }
        DataType::Utf8 => S::Utf8(Some(rand_string(rng))),
        DataType::LargeUtf8 => S::LargeUtf8(Some(rand_string(rng))),
        DataType::Utf8View => S::Utf8View(Some(rand_string(rng))),
        DataType::Binary => S::Binary(Some(rand_bytes(rng, (r.unsigned_abs() % 20) as usize))),
        DataType::LargeBinary => S::LargeBinary(Some(rand_bytes(rng, (r.unsigned_abs() % 20) as usize))),
        DataType::BinaryView => S::BinaryView(Some(rand_bytes(rng, (r.unsigned_abs() % 20) as usize))),
        DataType::FixedSizeBinary(n) => S::FixedSizeBinary(*n, Some(rand_bytes(rng, *n as usize))),
        DataType::Date32 => S::Date32(Some(if small { r as i32 } else { rng.range(-800_000, 3_000_000) as i32 })),
        DataType::Date64 => S::Date64(Some(if small { r } else { rng.range(-30_000_000_000_000, 40_000_000_000_000) })),
        DataType::Time32(TimeUnit::Second) => S::Time32Second(Some(rng.range(0, 86_399) as i32)),
        DataType::Time32(TimeUnit::Millisecond) => S::Time32Millisecond(Some(rng.range(0, 86_399_999) as i32)),
        DataType::Time64(TimeUnit::Microsecond) => S::Time64Microsecond(Some(rng.range(0, 86_399_999_999))),
        DataType::Time64(TimeUnit::Nanosecond) => S::Time64Nanosecond(Some(rng.range(0, 86_399_999_999_999))),
        DataType::Timestamp(u, tz) => {
            let v = if rng.chance(2, 3) { rng.range(-3_000_000_000, 5_000_000_000).saturating_mul(unit_factor(u)).saturating_add(rng.range(0, 999)) } else { r };
            ts_scalar(u, Some(v), tz.clone())
        }
        DataType::Duration(u) => dur_scalar(u, Some(r)),
        DataType::Interval(IntervalUnit::YearMonth) => S::IntervalYearMonth(Some(r as i32)),
        DataType::Interval(IntervalUnit::DayTime) => {
            S::IntervalDayTime(Some(IntervalDayTime::new(rng.range(-3, 3) as i32, if small { r as i32 } else { rand_i64(rng) as i32 })))
        }
        DataType::Interval(IntervalUnit::MonthDayNano) => S::IntervalMonthDayNano(Some(IntervalMonthDayNano::new(
            rng.range(-2, 2) as i32,
            if rng.bool() { rng.range(-2, 2) as i32 } else { rand_i64(rng) as i32 },
            r,
        ))),
        _ => return None,
    })
}

fn typed_null(dt: &DataType) -> Result<ScalarValue, String> {
    ScalarValue::try_new_null(dt).map_err(|e| format!("try_new_null({dt}): {e}"))
}

/// Array holding `vals` (all of type `dt`), built with the engine's own `iter_to_array`.
fn child_array(dt: &DataType, vals: Vec<ScalarValue>) -> Result<ArrayRef, String> {
    if vals.is_empty() {
        return Ok(new_empty_array(dt));
    }
    let arr = ScalarValue::iter_to_array(vals).map_err(|e| format!("iter_to_array({dt}): {e}"))?;
    if arr.data_type() != dt {
        return Err(format!("iter_to_array produced {} for values of {dt}", arr.data_type()));
    }
    Ok(arr)
}

fn gen_values(dt: &DataType, n: usize, rng: &mut Rng, null_pct: u64) -> Result<Vec<ScalarValue>, String> {
    (0..n).map(|_| gen_value(dt, rng, null_pct)).collect()
}

/// A random scalar of exactly data type `dt`; NULL with probability `null_pct`%.
fn gen_value(dt: &DataType, rng: &mut Rng, null_pct: u64) -> Result<ScalarValue, String> {
    if null_pct > 0 && rng.chance(null_pct, 100) {
        return typed_null(dt);
    }
    if let Some(v) = rand_leaf(dt, rng) {
        return Ok(v);
    }
    let elem_nulls = |f: &FieldRef| if f.is_nullable() { 25 } else { 0 };
    let e = |x: arrow::error::ArrowError| format!("build {}: {x}", type_class(dt));
    Ok(match dt {
        DataType::List(f) => {
            let k = rng.usize(4);
            let values = child_array(f.data_type(), gen_values(f.data_type(), k, rng, elem_nulls(f))?)?;
            ScalarValue::List(Arc::new(ListArray::try_new(f.clone(), OffsetBuffer::from_lengths([k]), values, None).map_err(e)?))
        }
        DataType::LargeList(f) => {
            let k = rng.usize(4);
            let values = child_array(f.data_type(), gen_values(f.data_type(), k, rng, elem_nulls(f))?)?;
            ScalarValue::LargeList(Arc::new(LargeListArray::try_new(f.clone(), OffsetBuffer::from_lengths([k]), values, None).map_err(e)?))
        }
        DataType::FixedSizeList(f, n) => {
            let values = child_array(f.data_type(), gen_values(f.data_type(), *n as usize, rng, elem_nulls(f))?)?;
            ScalarValue::FixedSizeList(Arc::new(FixedSizeListArray::try_new_with_length(f.clone(), *n, values, None, 1).map_err(e)?))
        }
        DataType::ListView(f) => {
            // sometimes leave an unused leading element in the child so that the offset is non-zero
            let k = rng.usize(4);
            let lead = rng.usize(2);
            let values = child_array(f.data_type(), gen_values(f.data_type(), k + lead, rng, elem_nulls(f))?)?;
            let (o, s) = (ScalarBuffer::from(vec![lead as i32]), ScalarBuffer::from(vec![k as i32]));
            ScalarValue::ListView(Arc::new(ListViewArray::try_new(f.clone(), o, s, values, None).map_err(e)?))
        }
        DataType::LargeListView(f) => {
            let k = rng.usize(4);
            let lead = rng.usize(2);
            let values = child_array(f.data_type(), gen_values(f.data_type(), k + lead, rng, elem_nulls(f))?)?;
            let (o, s) = (ScalarBuffer::from(vec![lead as i64]), ScalarBuffer::from(vec![k as i64]));
            ScalarValue::LargeListView(Arc::new(LargeListViewArray::try_new(f.clone(), o, s, values, None).map_err(e)?))
        }
        DataType::Struct(fields) => {
            let mut arrays = vec![];
            for f in fields.iter() {
                let v = gen_value(f.data_type(), rng, elem_nulls(f))?;
                arrays.push(v.to_array_of_size(1).map_err(|x| format!("to_array_of_size(1) of struct child: {x}"))?);
            }
            ScalarValue::Struct(Arc::new(StructArray::try_new_with_length(fields.clone(), arrays, None, 1).map_err(e)?))
        }
        DataType::Map(entries, sorted) => {
            let DataType::Struct(kv) = entries.data_type() else { return Err("map entries are not a struct".into()) };
            let k = rng.usize(4);
            let keys = child_array(kv[0].data_type(), gen_values(kv[0].data_type(), k, rng, 0)?)?;
            let vals = child_array(kv[1].data_type(), gen_values(kv[1].data_type(), k, rng, elem_nulls(&kv[1]))?)?;
            let st = StructArray::try_new_with_length(kv.clone(), vec![keys, vals], None, k).map_err(e)?;
            ScalarValue::Map(Arc::new(MapArray::try_new(entries.clone(), OffsetBuffer::from_lengths([k]), st, None, *sorted).map_err(e)?))
        }
        DataType::Union(fields, mode) => {
            let members: Vec<(i8, FieldRef)> = fields.iter().map(|(i, f)| (i, f.clone())).collect();
            let (id, f) = rng.pick_cloned(&members);
            ScalarValue::Union(Some((id, Box::new(gen_value(f.data_type(), rng, 20)?))), fields.clone(), *mode)
        }
        DataType::Dictionary(k, v) => ScalarValue::Dictionary(k.clone(), Box::new(gen_value(v, rng, 0)?)),
        DataType::RunEndEncoded(re, vf) => ScalarValue::RunEndEncoded(re.clone(), vf.clone(), Box::new(gen_value(vf.data_type(), rng, 15)?)),
        other => return Err(format!("no generator for {other}")),
    })
}

// ---------------------------------------------------------------------------------------
// Monitor context
// ---------------------------------------------------------------------------------------

const L_RT: usize = 1;
const L_ITER: usize = 2;
const L_HASH: usize = 3;
const L_ORD: usize = 4;
const L_SORT: usize = 5;
const L_CAST: usize = 6;

struct Cx<'a> {
    rep: &'a Report,
    /// bit per law: corrupt every 5th *observed* value of that law before the oracle sees it
    selftest: u32,
    st_ctr: [AtomicU64; 8],
    cast_pairs: Mutex<BTreeSet<String>>,
    cast_targets: Vec<DataType>,
    /// first input seen per panic / skip class
    examples: Mutex<BTreeMap<String, Json>>,
    /// witnesses forwarded per signature (all occurrences are counted under `violation/<signature>`)
    forwarded: Mutex<BTreeMap<String, u32>>,
    /// `--stage miri` only (see `agree`)
    nan_lenient: bool,
}

thread_local! {
    /// law whose observation was corrupted by the self-test in the case currently executing on this thread
    static CORRUPTED: std::cell::Cell<usize> = const { std::cell::Cell::new(0) };
}

const LAW_NAMES: [&str; 7] = ["", "rt", "iter", "hash", "ord", "sort", "cast"];

impl Cx<'_> {
    fn corrupt_now(&self, law: usize) -> bool {
        let hit = self.selftest & (1 << law) != 0 && self.st_ctr[law].fetch_add(1, AO::Relaxed) % 5 == 4;
        if hit {
            CORRUPTED.with(|c| c.set(law));
            self.rep.count(&format!("selftest_corrupted/{}", LAW_NAMES[law]), 1);
        }
        hit
    }

    fn panic(&self, law: &str, what: &str, msg: &str, input: &dyn Fn() -> Json) {
        self.rep.count(&format!("panic/{law}/{what}"), 1);
        // strip the registry prefix and digits so that one code location is one class
        let loc = msg.rsplit_once(" @ ").map(|(_, l)| l.rsplit('/').take(3).collect::<Vec<_>>().into_iter().rev().collect::<Vec<_>>().join("/")).unwrap_or_default();
        let text: String = msg.split(" @ ").next().unwrap_or("").chars().filter(|c| !c.is_ascii_digit()).take(90).collect();
        let class = format!("{law}/{what}: {text} @ {loc}");
        self.rep.seen("panic_classes", &class);
        self.example(&class, &|| json!({"panic": msg, "input": input()}));
    }

    /// A panic of a `ScalarValue` API itself on a valid input: recorded and reported as a violation.
    fn crash(&self, api: &str, what: &str, msg: &str, input: &dyn Fn() -> Json) {
        self.panic(api, what, msg, input);
        let sig_api = api.rsplit(':').next().unwrap_or(api);
        let sig_api = match sig_api {
            "to_array_of_size" | "try_from_array" => "rt",
            "iter_to_array" => "iter",
            "compare_rows" => "ord",
            other => other,
        };
        self.violation(&format!("panic/{sig_api}/{what}"), json!({"law": "no-panic", "api": api, "panic": msg, "input": input(),
            "expected": "no panic: the input is a valid scalar / valid scalars of one data type"}));
    }

    fn skip(&self, what: &str, err: &str, input: &dyn Fn() -> Json) {
        let key = format!("{what}: {}", err_class(err));
        self.rep.skip(&key);
        self.example(&format!("skip {key}"), &|| json!({"error": err.chars().take(300).collect::<String>(), "input": input()}));
    }

    fn example(&self, key: &str, make: &dyn Fn() -> Json) {
        let mut g = self.examples.lock().unwrap_or_else(|e| e.into_inner());
        if g.len() < 200 && !g.contains_key(key) {
            g.insert(key.to_string(), make());
        }
    }

    fn violation(&self, sig: &str, witness: Json) {
        let law = CORRUPTED.with(|c| c.get());
        if law != 0 {
            self.rep.count(&format!("selftest_detected/{}", LAW_NAMES[law]), 1);
        }
        self.rep.count(&format!("violation/{sig}"), 1);
        // Report keeps at most 25 witnesses: forward two per signature so that every signature is represented
        let mut g = self.forwarded.lock().unwrap_or_else(|e| e.into_inner());
        let n = g.entry(sig.to_string()).or_insert(0);
        *n += 1;
        if *n <= 2 {
            self.rep.violation(sig, witness);
        }
    }
}

/// "Arrow error: Cast error" style prefix of an error text (no values).
fn err_class(e: &str) -> String {
    let mut parts = e.splitn(3, ':');
    let a = parts.next().unwrap_or("").trim();
    let b = parts.next().unwrap_or("").trim();
    let b: String = b.chars().take(40).filter(|c| !c.is_ascii_digit()).collect();
    if a.starts_with("Arrow error") { format!("{a}: {b}") } else { a.chars().take(60).collect() }
}

enum Out<T> {
    Ok(T),
    Err(String),
    Panic(String),
}

fn run<T>(f: impl FnOnce() -> datafusion_common::Result<T>) -> Out<T> {
    match guard(f) {
        Ok(Ok(v)) => Out::Ok(v),
        Ok(Err(e)) => Out::Err(e.to_string()),
        Err(p) => Out::Panic(p),
    }
}

fn hash_of(s: &ScalarValue) -> Result<u64, String> {
    guard(|| {
        let mut h = DefaultHasher::new();
        s.hash(&mut h);
        h.finish()
    })
}

/// `a == b` as the engine defines it, plus identity of the data type (time zone, precision/scale,
/// fixed sizes and field definitions are part of the scalar but not all of them take part in `==`).
fn same(a: &ScalarValue, b: &ScalarValue) -> Result<bool, String> {
    guard(|| a == b && a.data_type() == b.data_type())
}

fn dbg(s: &ScalarValue) -> String {
    let raw = match s {
        ScalarValue::Date32(Some(v)) => Some(*v as i64),
        ScalarValue::Date64(Some(v))
        | ScalarValue::TimestampSecond(Some(v), _)
        | ScalarValue::TimestampMillisecond(Some(v), _)
        | ScalarValue::TimestampMicrosecond(Some(v), _)
        | ScalarValue::TimestampNanosecond(Some(v), _) => Some(*v),
        _ => None,
    };
    let t = match raw {
        Some(r) => format!("{} [raw {r}]", debug_text(s)),
        None => debug_text(s),
    };
    if t.len() > 600 { format!("{}…", t.chars().take(600).collect::<String>()) } else { t }
}

/// `{:?}` of a scalar; formatting nested arrays can itself panic inside arrow (zero-width types)
fn debug_text(s: &ScalarValue) -> String {
    guard(|| format!("{s:?}")).unwrap_or_else(|p| format!("<Debug panicked: {}> of {}", p.chars().take(120).collect::<String>(), s.data_type()))
}

fn sfp(law: usize, s: &ScalarValue) -> u64 {
    fp_mix(law as u64, fp_str(&format!("{}/{}", debug_text(s), s.data_type())))
}

/// A value that differs from `s` (self-test corruption of an observed scalar).
fn other_than(s: &ScalarValue) -> ScalarValue {
    match ScalarValue::try_new_null(&s.data_type()) {
        Ok(n) if !s.is_null() => n,
        _ => ScalarValue::Int64(Some(0xC34)),
    }
}

// ---------------------------------------------------------------------------------------
// Law rt: scalar -> array of n rows -> scalar
// ---------------------------------------------------------------------------------------

const SIZES: [usize; 4] = [0, 1, 2, 17];

fn law_roundtrip(cx: &Cx, s: &ScalarValue, origin: &str) {
    let var = variant(s);
    let dt = s.data_type();
    let rep = cx.rep;
    rep.count(&format!("constructed/{var}"), 1);
    rep.seen("data_type_classes", &type_class(&dt));
    let mut compared = 0u64;
    let inp = |n: usize| json!({"scalar": dbg(s), "data_type": dt.to_string(), "n": n, "origin": origin});
    for n in SIZES {
        let arr = match run(|| s.to_array_of_size(n)) {
            Out::Ok(a) => a,
            Out::Err(e) => {
                cx.skip(&format!("to_array_of_size({})/{var}", if n == 0 { "0" } else { "n" }), &e, &|| inp(n));
                continue;
            }
            Out::Panic(p) => {
                cx.crash("rt:to_array_of_size", var, &p, &|| inp(n));
                continue;
            }
        };
        if arr.len() != n {
            cx.violation(
                &format!("roundtrip-len/{var}"),
                json!({"law": "rt", "origin": origin, "scalar": dbg(s), "data_type": dt.to_string(), "n": n,
                       "observed": {"array_len": arr.len()}, "expected": {"array_len": n}}),
            );
            continue;
        }
        if arr.data_type() != &dt {
            rep.count(&format!("rt_array_type_differs/{var}"), 1);
        }
        for i in 0..n {
            let back = match run(|| ScalarValue::try_from_array(&arr, i)) {
                Out::Ok(b) => b,
                Out::Err(e) => {
                    cx.skip(&format!("try_from_array/{var}"), &e, &|| inp(n));
                    break;
                }
                Out::Panic(p) => {
                    cx.crash("rt:try_from_array", var, &p, &|| inp(n));
                    break;
                }
            };
            let back = if cx.corrupt_now(L_RT) { other_than(&back) } else { back };
            match same(&back, s) {
                Ok(true) => {
                    compared += 1;
                    if i == n - 1 {
                        check_hash_pair(cx, s, &back, "roundtrip");
                    }
                }
                Ok(false) => {
                    cx.violation(
                        &format!("roundtrip/{var}"),
                        json!({"law": "rt", "origin": origin, "scalar": dbg(s), "data_type": dt.to_string(), "n": n, "index": i,
                               "observed": {"scalar": dbg(&back), "data_type": back.data_type().to_string(), "array_type": arr.data_type().to_string()},
                               "expected": "ScalarValue::try_from_array(&s.to_array_of_size(n)?, index)? == s with the same data type"}),
                    );
                    break;
                }
                Err(p) => {
                    cx.crash("rt:eq", var, &p, &|| inp(n));
                    break;
                }
            }
        }
    }
    if compared > 0 {
        rep.count(&format!("roundtrip_ok/{var}"), 1);
        rep.count("rt_positions_compared", compared);
    }
    rep.case(sfp(L_RT, s), !s.is_null());
}

// ---------------------------------------------------------------------------------------
// Law iter: scalars -> one array -> scalars
// ---------------------------------------------------------------------------------------

fn law_iter(cx: &Cx, scalars: &[ScalarValue]) {
    let rep = cx.rep;
    let var = variant(&scalars[0]);
    let mut fp = L_ITER as u64;
    for s in scalars {
        fp = fp_mix(fp, sfp(L_ITER, s));
    }
    let nontrivial = scalars.len() >= 2 && scalars.iter().any(|s| !s.is_null());
    rep.case(fp, nontrivial);
    let inp = || json!({"data_type": scalars[0].data_type().to_string(), "scalars": scalars.iter().map(dbg).collect::<Vec<_>>()});
    let arr = match run(|| ScalarValue::iter_to_array(scalars.to_vec())) {
        Out::Ok(a) => a,
        Out::Err(e) => {
            cx.skip(&format!("iter_to_array/{var}"), &e, &inp);
            if scalars.iter().all(|s| matches!(run(|| s.to_array_of_size(1)), Out::Ok(_))) {
                rep.count(&format!("iter_fails_but_to_array_works/{var}"), 1);
            }
            return;
        }
        Out::Panic(p) => {
            cx.crash("iter:iter_to_array", var, &p, &inp);
            return;
        }
    };
    let witness = |observed: Json| {
        json!({"law": "iter", "data_type": scalars[0].data_type().to_string(),
               "scalars": scalars.iter().map(dbg).collect::<Vec<_>>(), "observed": observed,
               "expected": "try_from_array(iter_to_array(scalars), i) == scalars[i]"})
    };
    if arr.len() != scalars.len() {
        cx.violation(&format!("iter-len/{var}"), witness(json!({"array_len": arr.len()})));
        return;
    }
    for (i, s) in scalars.iter().enumerate() {
        let back = match run(|| ScalarValue::try_from_array(&arr, i)) {
            Out::Ok(b) => b,
            Out::Err(e) => {
                cx.skip(&format!("try_from_array/{var}"), &e, &inp);
                return;
            }
            Out::Panic(p) => {
                cx.crash("iter:try_from_array", var, &p, &inp);
                return;
            }
        };
        let back = if cx.corrupt_now(L_ITER) { other_than(&back) } else { back };
        match same(&back, s) {
            Ok(true) => {}
            Ok(false) => {
                cx.violation(
                    &format!("iter-roundtrip/{var}"),
                    witness(json!({"index": i, "scalar": dbg(&back), "data_type": back.data_type().to_string(), "array_type": arr.data_type().to_string()})),
                );
                return;
            }
            Err(p) => {
                cx.crash("iter:eq", var, &p, &inp);
                return;
            }
        }
    }
    rep.count(&format!("iter_ok/{var}"), 1);
}

// ---------------------------------------------------------------------------------------
// Law hash: equal scalars hash equally
// ---------------------------------------------------------------------------------------

fn check_hash_pair(cx: &Cx, a: &ScalarValue, b: &ScalarValue, how: &str) {
    let var = variant(a);
    let inp = || json!({"how": how, "data_type": a.data_type().to_string(), "a": dbg(a), "b": dbg(b)});
    match guard(|| a == b) {
        Ok(true) => {}
        Ok(false) => {
            cx.rep.count(&format!("hash_pair_not_equal/{how}"), 1);
            return;
        }
        Err(p) => {
            cx.crash("hash:eq", var, &p, &inp);
            return;
        }
    }
    match (hash_of(a), hash_of(b)) {
        (Ok(ha), Ok(hb)) => {
            let hb = if cx.corrupt_now(L_HASH) { hb ^ 0x5555 } else { hb };
            cx.rep.count(&format!("hash_equal_pairs/{how}"), 1);
            if ha != hb {
                cx.violation(
                    &format!("hash/{how}/{var}"),
                    json!({"law": "hash", "how": how, "a": dbg(a), "b": dbg(b), "data_type": a.data_type().to_string(),
                           "observed": {"a_eq_b": true, "hash_a": ha, "hash_b": hb}, "expected": "a == b implies hash(a) == hash(b)"}),
                );
            }
        }
        (Err(p), _) | (_, Err(p)) => {
            // `impl Hash for ScalarValue` documents: panics if row hashes cannot be created
            cx.panic("hash:hash", var, &p, &inp);
        }
    }
}

fn outer_array(s: &ScalarValue) -> Option<ArrayRef> {
    Some(match s {
        ScalarValue::List(a) => a.clone() as ArrayRef,
        ScalarValue::LargeList(a) => a.clone() as ArrayRef,
        ScalarValue::FixedSizeList(a) => a.clone() as ArrayRef,
        ScalarValue::ListView(a) => a.clone() as ArrayRef,
        ScalarValue::LargeListView(a) => a.clone() as ArrayRef,
        ScalarValue::Struct(a) => a.clone() as ArrayRef,
        ScalarValue::Map(a) => a.clone() as ArrayRef,
        _ => return None,
    })
}

/// Wrap a one-row nested array in the same variant as `like`.
fn rewrap(like: &ScalarValue, arr: &ArrayRef) -> Option<ScalarValue> {
    if arr.len() != 1 || arr.data_type() != &like.data_type() {
        return None;
    }
    Some(match like {
        ScalarValue::List(_) => ScalarValue::List(Arc::new(arr.as_list::<i32>().clone())),
        ScalarValue::LargeList(_) => ScalarValue::LargeList(Arc::new(arr.as_list::<i64>().clone())),
        ScalarValue::FixedSizeList(_) => ScalarValue::FixedSizeList(Arc::new(arr.as_fixed_size_list().clone())),
        ScalarValue::ListView(_) => ScalarValue::ListView(Arc::new(arr.as_list_view::<i32>().clone())),
        ScalarValue::LargeListView(_) => ScalarValue::LargeListView(Arc::new(arr.as_list_view::<i64>().clone())),
        ScalarValue::Struct(_) => ScalarValue::Struct(Arc::new(arr.as_struct().clone())),
        ScalarValue::Map(_) => ScalarValue::Map(Arc::new(arr.as_map().clone())),
        _ => return None,
    })
}

/// Same logical content as `v`, but the slots that are NULL hold other underlying values.
fn with_null_garbage(v: &ArrayRef, rng: &mut Rng) -> Option<ArrayRef> {
    let nulls = v.nulls()?.clone();
    if nulls.null_count() == 0 {
        return None;
    }
    let garbage = child_array(v.data_type(), gen_values(v.data_type(), v.len(), rng, 0).ok()?).ok()?;
    let mask = arrow::compute::is_not_null(v).ok()?;
    let z = arrow::compute::kernels::zip::zip(&mask, v, &garbage).ok()?;
    let data = z.to_data().into_builder().nulls(Some(nulls)).build().ok()?;
    Some(make_array(data))
}

/// Re-encode a Dictionary<Int32, _> array with an unused leading dictionary entry.
fn dict_reencoded(v: &ArrayRef) -> Option<ArrayRef> {
    let DataType::Dictionary(k, _) = v.data_type() else { return None };
    if **k != DataType::Int32 {
        return None;
    }
    let d = v.as_dictionary::<Int32Type>();
    if d.values().is_empty() {
        return None;
    }
    let junk = d.values().slice(d.values().len() - 1, 1);
    let values = concat(&[junk.as_ref(), d.values().as_ref()]).ok()?;
    let keys: Int32Array = d.keys().iter().map(|k| k.map(|k| k + 1)).collect();
    Some(Arc::new(DictionaryArray::<Int32Type>::try_new(keys, values).ok()?))
}

/// Physically different, logically equal representations of a nested scalar.
fn alternates(s: &ScalarValue, rng: &mut Rng) -> Vec<(&'static str, ScalarValue)> {
    let mut out = vec![];
    let Some(arr) = outer_array(s) else { return out };
    let dt = s.data_type();
    // (a) the row sits in the middle of a longer array: non-zero offsets everywhere
    if let Ok(other) = gen_value(&dt, rng, 0) {
        if let Some(o) = outer_array(&other) {
            if let Ok(big) = concat(&[o.as_ref(), arr.as_ref(), arr.as_ref()]) {
                if let Some(a) = rewrap(s, &big.slice(1, 1)) {
                    out.push(("sliced", a));
                }
            }
        }
    }
    // (b) explicit all-valid validity buffer
    if arr.nulls().is_none() {
        if let Ok(d) = arr.to_data().into_builder().nulls(Some(NullBuffer::new_valid(1))).build() {
            if let Some(a) = rewrap(s, &make_array(d)) {
                out.push(("validity-all-set", a));
            }
        }
    }
    // (c)-(f): list children
    macro_rules! list_alts {
        ($l:expr, $O:ty, $f:expr) => {{
            let l = $l;
            let v = l.value(0);
            let lens = OffsetBuffer::<$O>::from_lengths([v.len()]);
            let mut push = |how: &'static str, child: ArrayRef| {
                if let Ok(nl) = GenericListArray::<$O>::try_new($f.clone(), lens.clone(), child, l.nulls().cloned()) {
                    if let Some(a) = rewrap(s, &(Arc::new(nl) as ArrayRef)) {
                        out.push((how, a));
                    }
                }
            };
            if !v.is_empty() {
                if let Ok(dbl) = concat(&[v.as_ref(), v.as_ref()]) {
                    push("child-offset", dbl.slice(v.len(), v.len()));
                }
            }
            if let Some(g) = with_null_garbage(&v, rng) {
                push("null-garbage", g);
            }
            if let Some(d) = dict_reencoded(&v) {
                push("dict-reencoded", d);
            }
            if v.data_type() == &DataType::Utf8View {
                let mut b = StringViewBuilder::new().with_fixed_block_size(16);
                b.append_value("junk-junk-junk-junk-junk");
                for x in v.as_string_view().iter() {
                    b.append_option(x);
                }
                push("view-buffers", Arc::new(b.finish().slice(1, v.len())));
            }
            if l.is_null(0) {
                // a NULL list whose offsets nevertheless span two child values
                if let Ok(vals) = gen_values($f.data_type(), 2, rng, 0) {
                    if let Ok(child) = child_array($f.data_type(), vals) {
                        if let Ok(nl) = GenericListArray::<$O>::try_new($f.clone(), OffsetBuffer::<$O>::from_lengths([2]), child, Some(NullBuffer::new_null(1))) {
                            if let Some(a) = rewrap(s, &(Arc::new(nl) as ArrayRef)) {
                                out.push(("null-list-range", a));
                            }
                        }
                    }
                }
            }
        }};
    }
    match (s, &dt) {
        (ScalarValue::List(l), DataType::List(f)) => list_alts!(l.as_ref(), i32, f),
        (ScalarValue::LargeList(l), DataType::LargeList(f)) => list_alts!(l.as_ref(), i64, f),
        (ScalarValue::FixedSizeList(l), DataType::FixedSizeList(f, n)) => {
            if let Some(g) = with_null_garbage(&l.value(0), rng) {
                if let Ok(nl) = FixedSizeListArray::try_new_with_length(f.clone(), *n, g, l.nulls().cloned(), 1) {
                    if let Some(a) = rewrap(s, &(Arc::new(nl) as ArrayRef)) {
                        out.push(("null-garbage", a));
                    }
                }
            }
        }
        (ScalarValue::Struct(st), DataType::Struct(fields)) => {
            let mut cols = st.columns().to_vec();
            let mut changed = false;
            for c in cols.iter_mut() {
                if let Some(g) = with_null_garbage(c, rng) {
                    *c = g;
                    changed = true;
                }
            }
            if st.is_null(0) && !fields.is_empty() {
                // a NULL struct whose children hold arbitrary values
                let mut gc = vec![];
                for f in fields.iter() {
                    match gen_value(f.data_type(), rng, 0).ok().and_then(|v| v.to_array_of_size(1).ok()) {
                        Some(a) => gc.push(a),
                        None => break,
                    }
                }
                if gc.len() == fields.len() {
                    cols = gc;
                    changed = true;
                }
            }
            if changed {
                if let Ok(ns) = StructArray::try_new_with_length(fields.clone(), cols, st.nulls().cloned(), 1) {
                    if let Some(a) = rewrap(s, &(Arc::new(ns) as ArrayRef)) {
                        out.push(("null-garbage", a));
                    }
                }
            }
        }
        _ => {}
    }
    out
}

fn law_hash(cx: &Cx, s: &ScalarValue, rng: &mut Rng) {
    let rep = cx.rep;
    rep.case(sfp(L_HASH, s), !s.is_null());
    check_hash_pair(cx, s, &s.clone(), "clone");
    // nested: physically different representations (these are valid scalars: round-trip them too)
    let alts = match guard(|| alternates(s, rng)) {
        Ok(a) => a,
        Err(p) => {
            cx.panic("hash:alternates(harness)", variant(s), &p, &|| json!({"scalar": dbg(s), "data_type": s.data_type().to_string()}));
            vec![]
        }
    };
    for (how, alt) in alts {
        rep.count(&format!("alt_built/{how}"), 1);
        check_hash_pair(cx, s, &alt, how);
        law_roundtrip(cx, &alt, how);
    }
    // leaf: cast to another type and back
    if outer_array(s).is_none() {
        let dt = s.data_type();
        for _ in 0..4 {
            let t = rng.pick_cloned(&cx.cast_targets);
            if t == dt || !can_cast_types(&dt, &t) || !can_cast_types(&t, &dt) {
                continue;
            }
            if let Ok(Ok(back)) = guard(|| s.cast_to(&t).and_then(|c| c.cast_to(&dt))) {
                if back.data_type() == dt {
                    check_hash_pair(cx, s, &back, "cast-back");
                }
            }
            break;
        }
    }
}

// ---------------------------------------------------------------------------------------
// Law ord: total order consistent with == ; law sort: agreement with arrow's sort
// ---------------------------------------------------------------------------------------

const ASC_NULLS_FIRST: SortOptions = SortOptions { descending: false, nulls_first: true };

fn ord_name(o: Option<Ordering>) -> &'static str {
    match o {
        Some(Ordering::Less) => "Less",
        Some(Ordering::Equal) => "Equal",
        Some(Ordering::Greater) => "Greater",
        None => "None",
    }
}

/// partial_cmp as observed (self-test may flip it)
fn observed_cmp(cx: &Cx, a: &ScalarValue, b: &ScalarValue) -> Option<Ordering> {
    let o = a.partial_cmp(b);
    if cx.corrupt_now(L_ORD) {
        return match o {
            Some(Ordering::Equal) => Some(Ordering::Less),
            Some(x) => Some(x.reverse()),
            None => Some(Ordering::Equal),
        };
    }
    o
}

/// All order laws on every pair / triple drawn from `vals` (one data type). Returns false after a violation.
fn check_order(cx: &Cx, vals: &[ScalarValue]) -> bool {
    let rep = cx.rep;
    let var = variant(&vals[0]);
    let n = vals.len();
    let mut m = vec![Ordering::Equal; n * n];
    let fail = |sig: &str, idx: &[usize], observed: Json, expected: &str| {
        cx.violation(
            &format!("{sig}/{var}"),
            json!({"law": "ord", "data_type": vals[0].data_type().to_string(),
                   "values": idx.iter().map(|i| dbg(&vals[*i])).collect::<Vec<_>>(), "observed": observed, "expected": expected}),
        );
        false
    };
    for i in 0..n {
        for j in 0..n {
            match observed_cmp(cx, &vals[i], &vals[j]) {
                Some(o) => m[i * n + j] = o,
                None => return fail("order-not-total", &[i, j], json!({"partial_cmp(a,b)": "None"}), "Some(_) for two values of one data type"),
            }
        }
    }
    for i in 0..n {
        for j in 0..n {
            let (ab, ba) = (m[i * n + j], m[j * n + i]);
            if ab != ba.reverse() {
                return fail(
                    "order-antisymmetry",
                    &[i, j],
                    json!({"partial_cmp(a,b)": ord_name(Some(ab)), "partial_cmp(b,a)": ord_name(Some(ba))}),
                    "partial_cmp(a,b) == partial_cmp(b,a).reverse()",
                );
            }
            let eq = vals[i] == vals[j];
            if (ab == Ordering::Equal) != eq {
                return fail("order-vs-eq", &[i, j], json!({"partial_cmp(a,b)": ord_name(Some(ab)), "a==b": eq}), "partial_cmp == Equal iff a == b");
            }
            if eq && i < j {
                check_hash_pair(cx, &vals[i], &vals[j], "ord-pair");
            }
        }
    }
    let mut triples = 0u64;
    for i in 0..n {
        for j in 0..n {
            if m[i * n + j] == Ordering::Greater {
                continue;
            }
            for k in 0..n {
                if m[j * n + k] == Ordering::Greater {
                    continue;
                }
                triples += 1;
                // a <= b and b <= c  =>  a <= c, strictly if one of the premises is strict
                let strict = m[i * n + j] == Ordering::Less || m[j * n + k] == Ordering::Less;
                let ac = m[i * n + k];
                if ac == Ordering::Greater || (strict && ac != Ordering::Less) {
                    return fail(
                        "order-transitivity",
                        &[i, j, k],
                        json!({"cmp(a,b)": ord_name(Some(m[i * n + j])), "cmp(b,c)": ord_name(Some(m[j * n + k])), "cmp(a,c)": ord_name(Some(ac))}),
                        "a<=b and b<=c imply a<=c (strict if a premise is strict)",
                    );
                }
            }
        }
    }
    rep.count("ord_pairs_checked", (n * n) as u64);
    rep.count("ord_triples_checked", triples);
    true
}

fn law_order(cx: &Cx, vals: &[ScalarValue]) {
    let mut fp = L_ORD as u64;
    for s in vals {
        fp = fp_mix(fp, sfp(L_ORD, s));
    }
    let distinct = vals.iter().any(|v| v != &vals[0]);
    cx.rep.case(fp, distinct);
    match guard(|| check_order(cx, vals)) {
        Ok(true) => cx.rep.count(&format!("ord_ok/{}", type_class(&vals[0].data_type())), 1),
        Ok(false) => {}
        Err(p) => cx.crash("ord", variant(&vals[0]), &p, &|| json!({"values": vals.iter().map(dbg).collect::<Vec<_>>()})),
    }
}

fn law_sort(cx: &Cx, vals: &[ScalarValue]) {
    let rep = cx.rep;
    let var = variant(&vals[0]);
    let dt = vals[0].data_type();
    let mut fp = L_SORT as u64;
    for s in vals {
        fp = fp_mix(fp, sfp(L_SORT, s));
    }
    rep.case(fp, vals.iter().any(|v| v != &vals[0]));
    let inp = || json!({"data_type": vals[0].data_type().to_string(), "values": vals.iter().map(dbg).collect::<Vec<_>>()});
    let arr = match run(|| ScalarValue::iter_to_array(vals.to_vec())) {
        Out::Ok(a) if a.len() == vals.len() && a.data_type() == &dt => a,
        Out::Ok(_) => return rep.skip("sort: iter_to_array gave another shape (see law iter)"),
        Out::Err(e) => return cx.skip(&format!("sort:iter_to_array/{var}"), &e, &inp),
        Out::Panic(p) => return cx.crash("sort:iter_to_array", var, &p, &inp),
    };
    let witness = |what: &str, idx: &[usize], observed: Json| {
        json!({"law": "sort", "reference": what, "data_type": dt.to_string(), "values": idx.iter().map(|i| dbg(&vals[*i])).collect::<Vec<_>>(),
               "all_values": vals.iter().map(dbg).collect::<Vec<_>>(), "observed": observed,
               "expected": "ScalarValue::partial_cmp agrees with the ascending NULLS FIRST order of the array"})
    };
    let flip = |o: Option<Ordering>| if cx.corrupt_now(L_SORT) { o.map(|x| if x == Ordering::Equal { Ordering::Greater } else { x.reverse() }) } else { o };
    // 1. the sort kernel: scalars in sorted order must be non-decreasing
    match guard(|| sort_to_indices(&arr, Some(ASC_NULLS_FIRST), None)) {
        Ok(Ok(idx)) => {
            let idx: Vec<usize> = idx.values().iter().map(|i| *i as usize).collect();
            for w in idx.windows(2) {
                let o = flip(vals[w[0]].partial_cmp(&vals[w[1]]));
                if !matches!(o, Some(Ordering::Less | Ordering::Equal)) {
                    cx.violation(&format!("order-vs-sort/{var}"), witness("sort_to_indices", w, json!({"sorted_adjacent_partial_cmp": ord_name(o)})));
                    return;
                }
            }
            rep.count("sort_kernel_checked", 1);
        }
        Ok(Err(e)) => cx.skip(&format!("sort_to_indices/{}", type_class(&dt)), &e.to_string(), &inp),
        Err(p) => cx.panic("sort:sort_to_indices", var, &p, &inp),
    }
    // 2. the dynamic comparator, 3. the row format, 4. the engine's compare_rows
    let cmp = match guard(|| make_comparator(&arr, &arr, ASC_NULLS_FIRST)) {
        Ok(Ok(c)) => Some(c),
        Ok(Err(e)) => {
            cx.skip(&format!("make_comparator/{}", type_class(&dt)), &e.to_string(), &inp);
            None
        }
        Err(p) => {
            cx.panic("sort:make_comparator", var, &p, &inp);
            None
        }
    };
    let rows = match guard(|| {
        let conv = RowConverter::new(vec![SortField::new_with_options(dt.clone(), ASC_NULLS_FIRST)])?;
        conv.convert_columns(&[arr.clone()])
    }) {
        Ok(Ok(r)) => Some(r),
        Ok(Err(e)) => {
            cx.skip(&format!("row_format/{}", type_class(&dt)), &e.to_string(), &inp);
            None
        }
        Err(p) => {
            cx.panic("sort:row_format", var, &p, &inp);
            None
        }
    };
    for i in 0..vals.len() {
        for j in 0..vals.len() {
            let o = flip(vals[i].partial_cmp(&vals[j]));
            if let Some(c) = &cmp {
                let r = c(i, j);
                if o != Some(r) {
                    cx.violation(&format!("order-vs-comparator/{var}"), witness("make_comparator", &[i, j], json!({"partial_cmp": ord_name(o), "arrow": ord_name(Some(r))})));
                    return;
                }
            }
            if let Some(rows) = &rows {
                let r = rows.row(i).cmp(&rows.row(j));
                if o != Some(r) {
                    cx.violation(&format!("order-vs-rowformat/{var}"), witness("arrow::row", &[i, j], json!({"partial_cmp": ord_name(o), "arrow": ord_name(Some(r))})));
                    return;
                }
            }
            match guard(|| compare_rows(std::slice::from_ref(&vals[i]), std::slice::from_ref(&vals[j]), &[ASC_NULLS_FIRST])) {
                Ok(Ok(r)) => {
                    if o != Some(r) {
                        cx.violation(&format!("order-vs-compare_rows/{var}"), witness("utils::compare_rows", &[i, j], json!({"partial_cmp": ord_name(o), "compare_rows": ord_name(Some(r))})));
                        return;
                    }
                }
                Ok(Err(e)) => cx.skip(&format!("compare_rows/{var}"), &e.to_string(), &inp),
                Err(p) => cx.crash("sort:compare_rows", var, &p, &inp),
            }
        }
    }
    if cmp.is_some() {
        rep.count("sort_comparator_checked", 1);
    }
    if rows.is_some() {
        rep.count("sort_rowformat_checked", 1);
    }
    rep.count(&format!("sort_ok/{}", type_class(&dt)), 1);
}

// ---------------------------------------------------------------------------------------
// Law cast: scalar cast == cast of the one-row array
// ---------------------------------------------------------------------------------------

fn cast_targets() -> Vec<DataType> {
    use DataType::*;
    let mut v = vec![
        Null, Boolean, Int8, Int16, Int32, Int64, UInt8, UInt16, UInt32, UInt64, Float16, Float32, Float64,
        Decimal32(9, 2), Decimal32(5, 0), Decimal64(18, 4), Decimal64(10, 0), Decimal128(38, 10), Decimal128(10, 2),
        Decimal128(20, 0), Decimal128(3, -2), Decimal256(76, 20), Decimal256(40, 5),
        Utf8, LargeUtf8, Utf8View, Binary, LargeBinary, BinaryView, FixedSizeBinary(4), FixedSizeBinary(16),
        Date32, Date64, Time32(TimeUnit::Second), Time32(TimeUnit::Millisecond), Time64(TimeUnit::Microsecond), Time64(TimeUnit::Nanosecond),
        Interval(IntervalUnit::YearMonth), Interval(IntervalUnit::DayTime), Interval(IntervalUnit::MonthDayNano),
        dict_of(Int32, Utf8), dict_of(Int8, Int64), dict_of(UInt16, LargeUtf8),
        List(item(Int32)), List(item(Utf8)), LargeList(item(Int64)), FixedSizeList(item(Int32), 1), FixedSizeList(item(Utf8), 2),
        ListView(item(Int32)), LargeListView(item(Utf8)),
        struct_of(vec![fld("a", Int32, true), fld("b", Utf8, true)]),
        struct_of(vec![fld("b", Utf8View, true), fld("a", Int64, true), fld("c", Float32, true)]),
        ree_of(Int32, Utf8), map_of(Utf8, Int64, false),
    ];
    for u in UNITS {
        v.push(Duration(u));
        for tz in tzs() {
            v.push(Timestamp(u, tz));
        }
    }
    v
}

fn castable(from: &DataType, to: &DataType) -> bool {
    can_cast_types(from, to) || requires_nested_struct_cast(from, to)
}

fn out_json(o: &Out<ScalarValue>) -> Json {
    match o {
        Out::Ok(v) => json!({"ok": dbg(v), "data_type": v.data_type().to_string()}),
        Out::Err(e) => json!({"err": e.chars().take(300).collect::<String>()}),
        Out::Panic(p) => json!({"panic": p.chars().take(300).collect::<String>()}),
    }
}

/// Ok(true): agree, Ok(false): both fail, Err(kind): disagree
fn agree(a: &Out<ScalarValue>, b: &Out<ScalarValue>, nan_lenient: bool) -> Result<bool, &'static str> {
    match (a, b) {
        (Out::Ok(x), Out::Ok(y)) => match same(x, y) {
            Ok(true) => Ok(true),
            // Miri makes the payload/sign of a NaN produced by a float conversion non-deterministic, and
            // ScalarValue `==` compares float bits: under Miri fall back to the printed value
            _ if nan_lenient && x.data_type() == y.data_type() && debug_text(x) == debug_text(y) && debug_text(x).contains("NaN") => Ok(true),
            _ => Err("cast-value-mismatch"),
        },
        (Out::Err(_), Out::Err(_)) | (Out::Panic(_), Out::Panic(_)) => Ok(false),
        _ => Err("cast-failure-mismatch"),
    }
}

fn law_cast(cx: &Cx, s: &ScalarValue, t: &DataType, safe: bool) {
    let rep = cx.rep;
    let from = s.data_type();
    let opts = CastOptions { safe, ..DEFAULT_CAST_OPTIONS };
    let pair = format!("{}->{}", type_class(&from), type_class(t)).replace(",tz", "");
    rep.case(fp_mix(sfp(L_CAST, s), fp_str(&format!("{t}/{safe}"))), !s.is_null());
    cx.cast_pairs.lock().unwrap_or_else(|e| e.into_inner()).insert(pair.clone());
    rep.count(if safe { "cast_safe" } else { "cast_unsafe" }, 1);

    let scalar_side = run(|| s.cast_to_with_options(t, &opts));
    let scalar_side = match scalar_side {
        Out::Ok(v) if cx.corrupt_now(L_CAST) => Out::Ok(other_than(&v)),
        Out::Err(_) if cx.corrupt_now(L_CAST) => Out::Ok(ScalarValue::Int64(Some(0xC34))),
        o => o,
    };
    // the engine's array cast (what CastExpr evaluates for a column)
    let engine_side = run(|| {
        let arr = s.to_array_of_size(1)?;
        let c = ColumnarValue::Array(arr).cast_to(t, Some(&opts))?;
        ScalarValue::try_from_array(&c.into_array(1)?, 0)
    });
    // the bare arrow kernel, observed only
    let arrow_side = run(|| {
        let arr = s.to_array_of_size(1)?;
        let c = cast_with_options(&arr, t, &opts)?;
        ScalarValue::try_from_array(&c, 0)
    });
    let witness = |other: &str, o: &Out<ScalarValue>| {
        json!({"law": "cast", "scalar": dbg(s), "from": from.to_string(), "to": t.to_string(), "safe": safe,
               "observed": {"scalar.cast_to_with_options": out_json(&scalar_side), other: out_json(o)},
               "expected": "same value and data type, or failure on both sides"})
    };
    for (o, name) in [(&scalar_side, "scalar"), (&engine_side, "engine-array"), (&arrow_side, "arrow-array")] {
        if let Out::Panic(p) = o {
            cx.panic(&format!("cast:{name}"), &pair, p, &|| json!({"scalar": dbg(s), "from": from.to_string(), "to": t.to_string(), "safe": safe}));
        }
    }
    match agree(&scalar_side, &engine_side, cx.nan_lenient) {
        Ok(true) => rep.count("cast_both_ok", 1),
        Ok(false) => rep.count("cast_both_fail", 1),
        Err(kind) => cx.violation(&format!("{kind}/{pair}"), witness("ColumnarValue::Array.cast_to", &engine_side)),
    }
    if agree(&scalar_side, &arrow_side, cx.nan_lenient).is_err() {
        // not a verdict: DataFusion wraps the kernel with extra checks on both of its own paths
        rep.count("cast_scalar_differs_from_bare_arrow_kernel", 1);
        rep.seen("cast_bare_arrow_differs_pairs", &format!("{pair} safe={safe}"));
        if rep.want_sample() {
            rep.sample(witness("arrow::compute::cast_with_options (informational)", &arrow_side));
        }
    }
    if let Out::Ok(v) = &scalar_side {
        if &v.data_type() != t {
            rep.count("cast_result_type_differs_from_target", 1);
        }
    }
    // cast_to(t) is cast_to_with_options(t, DEFAULT_CAST_OPTIONS)
    if !safe {
        let plain = run(|| s.cast_to(t));
        let plain = if cx.corrupt_now(L_CAST) { Out::Err("selftest".into()) } else { plain };
        let again = run(|| s.cast_to_with_options(t, &DEFAULT_CAST_OPTIONS));
        if let Err(kind) = agree(&plain, &again, cx.nan_lenient) {
            cx.violation(
                &format!("{kind}/cast_to-vs-default-options/{pair}"),
                json!({"law": "cast", "scalar": dbg(s), "from": from.to_string(), "to": t.to_string(),
                       "observed": {"cast_to": out_json(&plain), "cast_to_with_options(DEFAULT_CAST_OPTIONS)": out_json(&again)},
                       "expected": "identical"}),
            );
        }
    }
}

// ---------------------------------------------------------------------------------------
// Systematic (seed independent) inputs
// ---------------------------------------------------------------------------------------

/// Non-null values of `dt`: edges for leaves, fixed-seed generated values for nested types.
fn systematic_values(dt: &DataType, type_idx: usize, cap: usize) -> Vec<ScalarValue> {
    if let Some(e) = leaf_edges(dt) {
        return e.into_iter().take(cap).collect();
    }
    let mut out: Vec<ScalarValue> = vec![];
    let mut texts: Vec<String> = vec![];
    for k in 0..(cap.min(8) as u64 * 2) {
        let mut rng = Rng::derive(0xC34C34, &[type_idx as u64, k]);
        if let Ok(v) = gen_value(dt, &mut rng, 0) {
            // (not `==`: comparing nested scalars is itself under test and may panic)
            let t = debug_text(&v);
            if !texts.contains(&t) {
                texts.push(t);
                out.push(v);
            }
        }
        if out.len() >= cap.min(8) {
            break;
        }
    }
    out
}

/// Scalars built through the public convenience constructors.
fn constructor_scalars() -> Vec<ScalarValue> {
    use ScalarValue as S;
    let i = |v: i32| S::Int32(Some(v));
    let mut v = vec![
        S::List(S::new_list(&[i(1), S::Int32(None), i(3)], &DataType::Int32, true)),
        S::List(S::new_list(&[], &DataType::Utf8, true)),
        S::List(S::new_list_nullable(&[S::from("a"), S::Utf8(None)], &DataType::Utf8)),
        S::List(S::new_list_from_iter(vec![i(7), i(8)].into_iter(), &DataType::Int32, false)),
        S::new_null_list(DataType::Int32, true, 1),
        S::LargeList(S::new_large_list(&[S::Float64(Some(f64::NAN)), S::Float64(Some(-0.0))], &DataType::Float64)),
        S::LargeList(S::new_large_list(&[], &DataType::Int8)),
        // list of list, list of struct
        S::List(S::new_list(
            &[S::List(S::new_list(&[i(1), i(2)], &DataType::Int32, true)), S::new_null_list(DataType::Int32, true, 1), S::List(S::new_list(&[], &DataType::Int32, true))],
            &DataType::List(item(DataType::Int32)),
            true,
        )),
        S::from(vec![("a", S::from(1i32)), ("b", S::from("x"))]),
        ScalarStructBuilder::new_null(vec![Field::new("a", DataType::Int32, false), Field::new("b", DataType::Utf8, true)]),
        S::new_utf8("plain"),
        S::new_utf8view("a view value longer than twelve bytes"),
        S::new_utf8view("short"),
        S::new_interval_ym(1, 2),
        S::new_interval_dt(3, -4),
        S::new_interval_mdn(-1, 2, 3),
        S::new_timestamp::<TimestampSecondType>(Some(1), Some("UTC".into())),
        S::new_timestamp::<TimestampMillisecondType>(None, Some("+05:30".into())),
        S::new_timestamp::<TimestampMicrosecondType>(Some(-1), None),
        S::new_timestamp::<TimestampNanosecondType>(Some(i64::MAX), Some("America/New_York".into())),
        S::from(true),
        S::from(1.5f64),
        S::from("from-str"),
        S::from(Some("opt")),
        S::from(Option::<&str>::None),
    ];
    let results: Vec<datafusion_common::Result<S>> = vec![
        S::try_new_decimal128(-12345, 10, 2),
        S::new_primitive::<Int32Type>(Some(5), &DataType::Int32),
        S::new_primitive::<Decimal128Type>(Some(99), &DataType::Decimal128(5, 1)),
        S::new_primitive::<TimestampNanosecondType>(Some(9), &DataType::Timestamp(TimeUnit::Nanosecond, Some("UTC".into()))),
        S::new_primitive::<Date32Type>(None, &DataType::Date32),
        ScalarStructBuilder::new().build(),
        ScalarStructBuilder::new().with_scalar(Field::new("a", DataType::Int32, true), S::Int32(None)).with_name_and_scalar("b", S::from("y")).build(),
        ScalarStructBuilder::new()
            .with_scalar(Field::new("l", DataType::List(item(DataType::Int32)), true), S::List(S::new_list(&[i(1)], &DataType::Int32, true)))
            .with_array(Field::new("t", DataType::Timestamp(TimeUnit::Second, Some("UTC".into())), true), Arc::new(TimestampSecondArray::from(vec![Some(5)]).with_timezone("UTC")))
            .build(),
    ];
    v.extend(results.into_iter().flatten());
    v
}

// ---------------------------------------------------------------------------------------
// Cases
// ---------------------------------------------------------------------------------------

enum Case {
    Scalar(ScalarValue, &'static str),
    RandScalar(u64),
    Iter(Vec<ScalarValue>),
    RandIter(u64),
    Order(Vec<ScalarValue>),
    /// different values of one (nested) type: `==` must not panic, and if it says equal the hashes must agree
    Pairs(Vec<ScalarValue>),
    RandTriple(u64),
    RandSort(u64),
    Cast(ScalarValue, DataType, bool),
    RandCast(u64),
}

fn stage_code(stage: &str) -> u64 {
    match stage {
        "" => 0,
        "miri" => 1,
        "tsan" => 2,
        "memcheck" => 3,
        _ => 9,
    }
}

fn exec(cx: &Cx, args: &Args, case: Case) {
    CORRUPTED.with(|c| c.set(0));
    let st = stage_code(&args.stage);
    let rng_for = |phase: u64, i: u64| Rng::derive(args.seed, &[34, st, phase, i]);
    let gen_fail = |e: String| cx.rep.skip(&format!("generator: {}", err_class(&e)));
    match case {
        Case::Scalar(s, origin) => {
            law_roundtrip(cx, &s, origin);
            let mut rng = Rng::derive(0xC34C35, &[sfp(0, &s)]);
            law_hash(cx, &s, &mut rng);
        }
        Case::RandScalar(i) => {
            let mut rng = rng_for(1, i);
            let dt = gen_type(&mut rng, 3);
            match gen_value(&dt, &mut rng, 10) {
                Ok(s) => {
                    law_roundtrip(cx, &s, "random");
                    if outer_array(&s).is_some() || rng.chance(1, 4) {
                        law_hash(cx, &s, &mut rng);
                    }
                }
                Err(e) => gen_fail(e),
            }
        }
        Case::Iter(v) => law_iter(cx, &v),
        Case::RandIter(i) => {
            let mut rng = rng_for(2, i);
            let dt = gen_type(&mut rng, 2);
            let n = 1 + rng.usize(8);
            match gen_values(&dt, n, &mut rng, 30) {
                Ok(v) => law_iter(cx, &v),
                Err(e) => gen_fail(e),
            }
        }
        Case::Order(v) => {
            law_order(cx, &v);
            law_sort(cx, &v);
        }
        Case::Pairs(v) => {
            let mut fp = L_HASH as u64;
            for s in &v {
                fp = fp_mix(fp, sfp(L_HASH, s));
            }
            cx.rep.case(fp, v.len() >= 2);
            for i in 0..v.len() {
                for j in (i + 1)..v.len() {
                    check_hash_pair(cx, &v[i], &v[j], "distinct-pair");
                    check_hash_pair(cx, &v[j], &v[i], "distinct-pair");
                }
            }
        }
        Case::RandTriple(i) => {
            let mut rng = rng_for(3, i);
            let dt = gen_leaf_type(&mut rng);
            if let Ok(mut v) = gen_values(&dt, 3, &mut rng, 15) {
                // make equal pairs likely enough to exercise the == / hash consistency
                if rng.chance(1, 4) {
                    v[1] = v[0].clone();
                }
                if rng.chance(1, 8) {
                    v[2] = v[1].clone();
                }
                law_order(cx, &v);
            }
        }
        Case::RandSort(i) => {
            let mut rng = rng_for(4, i);
            let dt = gen_leaf_type(&mut rng);
            let n = 2 + rng.usize(23);
            if let Ok(mut v) = gen_values(&dt, n, &mut rng, 15) {
                for _ in 0..rng.usize(4) {
                    let (a, b) = (rng.usize(n), rng.usize(n));
                    v[a] = v[b].clone();
                }
                law_sort(cx, &v);
            }
        }
        Case::Cast(s, t, safe) => law_cast(cx, &s, &t, safe),
        Case::RandCast(i) => {
            let mut rng = rng_for(5, i);
            let dt = if rng.chance(7, 10) { gen_leaf_type(&mut rng) } else { gen_type(&mut rng, 2) };
            let s = match gen_value(&dt, &mut rng, 10) {
                Ok(s) => s,
                Err(e) => return gen_fail(e),
            };
            for _ in 0..8 {
                let t = rng.pick_cloned(&cx.cast_targets);
                if (t != dt || rng.chance(1, 20)) && castable(&dt, &t) {
                    return law_cast(cx, &s, &t, rng.bool());
                }
            }
            cx.rep.skip("cast: no castable target drawn");
        }
    }
}

fn systematic_cases(div: u64, targets: &[DataType]) -> Vec<Case> {
    // Miri interprets ~1 case per second: keep one data type per type class, one value + NULL each
    let tiny = div >= 100;
    let cap = if tiny { 1 } else if div > 1 { 2 } else { usize::MAX };
    let mut cases = vec![];
    let leaf = leaf_types();
    let mut all: Vec<(bool, DataType)> = leaf.iter().map(|t| (true, t.clone())).collect();
    all.extend(nested_types().into_iter().map(|t| (false, t)));
    if tiny {
        let mut seen = BTreeSet::new();
        all.retain(|(_, t)| seen.insert(type_class(t)));
    }
    let mut pair_idx = 0usize;
    for (ti, (is_leaf, dt)) in all.iter().enumerate() {
        let vals = systematic_values(dt, ti, cap);
        let null = typed_null(dt).ok();
        // rt + hash
        for v in vals.iter().chain(null.iter()) {
            cases.push(Case::Scalar(v.clone(), "systematic"));
        }
        // iter: values and typed NULLs mixed
        let mut mixed: Vec<ScalarValue> = vec![];
        for (k, v) in vals.iter().take(6).enumerate() {
            if k % 2 == 0 {
                mixed.extend(null.clone());
            }
            mixed.push(v.clone());
        }
        mixed.extend(null.clone());
        if !mixed.is_empty() {
            cases.push(Case::Iter(mixed));
            if !tiny {
                cases.push(Case::Iter(vec![null.clone().unwrap_or(ScalarValue::Null); 2]));
            }
        }
        // ord + sort: the statement's type classes only; other types: `==`/hash on different values
        let mut v: Vec<ScalarValue> = if *is_leaf && div > 1 { systematic_values(dt, ti, 4) } else { vals.clone() };
        v.extend(null.clone());
        cases.push(if *is_leaf { Case::Order(v) } else { Case::Pairs(v) });
        // casts over the lattice
        for t in targets {
            if t == dt || !castable(dt, t) || vals.is_empty() {
                continue;
            }
            pair_idx += 1;
            if div > 1 && pair_idx as u64 % div != 0 {
                continue;
            }
            let special = matches!(dt, DataType::Date32 | DataType::Date64 | DataType::Timestamp(..)) && matches!(t, DataType::Timestamp(..));
            if special {
                for v in &vals {
                    cases.push(Case::Cast(v.clone(), t.clone(), false));
                    cases.push(Case::Cast(v.clone(), t.clone(), true));
                }
            } else {
                for k in 0..3usize.min(vals.len()) {
                    let v = &vals[(pair_idx * 7 + k * 3) % vals.len()];
                    cases.push(Case::Cast(v.clone(), t.clone(), (pair_idx + k) % 2 == 0));
                }
            }
            if let Some(n) = &null {
                if pair_idx % 3 == 0 {
                    cases.push(Case::Cast(n.clone(), t.clone(), pair_idx % 2 == 0));
                }
            }
        }
    }
    if tiny {
        return cases;
    }
    for s in constructor_scalars() {
        cases.push(Case::Scalar(s, "constructor"));
    }
    cases
}

// ---------------------------------------------------------------------------------------
// Driver
// ---------------------------------------------------------------------------------------

fn selftest_mask(args: &Args) -> u32 {
    match args.opt_str("selftest") {
        None | Some("0") => 0,
        Some("rt") => 1 << L_RT,
        Some("iter") => 1 << L_ITER,
        Some("hash") => 1 << L_HASH,
        Some("ord") => 1 << L_ORD,
        Some("sort") => 1 << L_SORT,
        Some("cast") => 1 << L_CAST,
        Some(_) => !0,
    }
}

fn run_check(args: &Args) -> i32 {
    let rep = Report::new("C34", "exploration", args);
    rep.set_rule(
        "case = one (law, input): rt/hash: a scalar (all of n in {0,1,2,17}); iter/sort: a vector of scalars of one data type; \
         ord: a vector/triple of one data type; cast: (scalar, target type, safe). Systematic part: every ScalarValue variant x edge \
         values x typed NULL, every leaf type for ord/sort, every castable (type, target) pair; then a seeded random tail over random \
         (nested) data types. Distinct = fingerprint of law + Debug text + data type (+ target/safe); non-trivial = non-NULL scalar \
         (rt/hash/cast), >= 2 values with a non-NULL (iter), >= 2 different values (ord/sort).",
    );
    rep.assume("arrow's array constructors, concat/zip/slice and array equality are correct (used to build inputs and alternate layouts)");
    rep.assume("arrow's sort_to_indices / make_comparator / row format are the engine's ascending NULLS FIRST sort");
    rep.assume("the engine's array cast is ColumnarValue::Array(..).cast_to (what CastExpr evaluates); the bare arrow kernel is only observed");
    rep.assume("ScalarValue == additionally requires equal data_type() for the round-trip and cast laws (== ignores time zone and FixedSizeBinary width)");

    let div: u64 = match args.stage.as_str() {
        "miri" => 100,
        "" => 1,
        _ => 10,
    };
    let cx = Cx {
        rep: &rep,
        selftest: selftest_mask(args),
        st_ctr: Default::default(),
        cast_pairs: Mutex::new(BTreeSet::new()),
        cast_targets: cast_targets(),
        examples: Mutex::new(BTreeMap::new()),
        forwarded: Mutex::new(BTreeMap::new()),
        nan_lenient: args.stage == "miri",
    };

    // documented constructor contract: try_new_null(dt) is a NULL of exactly dt
    for dt in leaf_types().into_iter().chain(nested_types()) {
        match run(|| ScalarValue::try_new_null(&dt)) {
            Out::Ok(n) => {
                if !n.is_null() || n.data_type() != dt {
                    rep.count("try_new_null_not_null_or_other_type", 1);
                    rep.seen("try_new_null_odd", &format!("{dt}: is_null={} data_type={}", n.is_null(), n.data_type()));
                }
            }
            Out::Err(e) => cx.skip("try_new_null", &e, &|| json!({"data_type": dt.to_string()})),
            Out::Panic(p) => cx.crash("try_new_null", &type_class(&dt), &p, &|| json!({"data_type": dt.to_string()})),
        }
    }

    // 1. systematic part
    // `--opt nosys=1` (debugging aid): run the random tail only
    let sys = if args.opt_u64("nosys", 0) == 1 { vec![] } else { systematic_cases(div, &cx.cast_targets) };
    rep.extra("systematic_cases", json!(sys.len()));
    vcommon::par::run(args.workers, sys.into_iter(), |c| exec(&cx, args, c));

    // 2. seeded random tail
    // (Miri: the tail is divided by 1000, not 100 — measured ~1 s per case under the interpreter)
    let tdiv = if div >= 100 { div * 10 } else { div };
    // under Miri the tier does not scale the tail (more Miri seeds do not add schedules here either)
    let bound = |name: &str, q: u64, t: u64| if div >= 100 { args.opt_u64(name, q) } else { args.bound(name, q, t) };
    let n_scalars = bound("scalars", 40_000, 2_000_000) / tdiv;
    let n_iters = bound("iters", 8_000, 400_000) / tdiv;
    let n_triples = bound("triples", 10_000, 500_000) / tdiv;
    let n_sorts = bound("sorts", 2_000, 100_000) / tdiv;
    let n_casts = bound("casts", 20_000, 1_000_000) / tdiv;
    // the soft budget only protects the native tiers; sanitizer stages are bounded by counts
    let budget = if div > 1 { f64::MAX } else { args.tier.pick(50.0, 1100.0) };
    let tail = (0..n_scalars)
        .map(Case::RandScalar)
        .chain((0..n_iters).map(Case::RandIter))
        .chain((0..n_triples).map(Case::RandTriple))
        .chain((0..n_sorts).map(Case::RandSort))
        .chain((0..n_casts).map(Case::RandCast));
    let cut = AtomicU64::new(0);
    vcommon::par::run(args.workers, tail, |c| {
        if rep.within_budget(budget) {
            exec(&cx, args, c)
        } else {
            cut.fetch_add(1, AO::Relaxed);
        }
    });
    rep.extra("random_tail", json!({"scalars": n_scalars, "iters": n_iters, "triples": n_triples, "sorts": n_sorts, "casts": n_casts,
                                     "cut_by_budget": cut.load(AO::Relaxed)}));

    // 3. coverage
    let table: vcommon::serde_json::Map<String, Json> = ALL_VARIANTS
        .iter()
        .map(|v| (v.to_string(), json!({"constructed": rep.get_count(&format!("constructed/{v}")), "roundtrip_ok": rep.get_count(&format!("roundtrip_ok/{v}")),
                                        "iter_ok": rep.get_count(&format!("iter_ok/{v}"))})))
        .collect();
    rep.extra("variant_table", Json::Object(table));
    let missing: Vec<&str> = ALL_VARIANTS.iter().copied().filter(|v| rep.get_count(&format!("constructed/{v}")) == 0).collect();
    rep.obligation("every-variant-constructed", missing.is_empty(), &format!("variants never constructed: {missing:?}"));
    let no_rt: Vec<&str> = ALL_VARIANTS.iter().copied().filter(|v| rep.get_count(&format!("roundtrip_ok/{v}")) == 0).collect();
    rep.obligation("every-variant-round-tripped", no_rt.is_empty(), &format!("variants without a compared round trip: {no_rt:?}"));
    let no_iter: Vec<&str> = ALL_VARIANTS.iter().copied().filter(|v| rep.get_count(&format!("iter_ok/{v}")) == 0).collect();
    rep.extra("variants_without_iter_to_array_roundtrip", json!(no_iter));
    let classes: BTreeSet<String> = leaf_types().iter().map(type_class).collect();
    let no_ord: Vec<&String> = classes.iter().filter(|c| rep.get_count(&format!("ord_ok/{c}")) == 0 || rep.get_count(&format!("sort_ok/{c}")) == 0).collect();
    rep.obligation("ordering-types-covered", no_ord.is_empty() || cx.selftest != 0, &format!("leaf type classes without a passed ord+sort case: {no_ord:?}"));
    let pairs = cx.cast_pairs.lock().unwrap_or_else(|e| e.into_inner()).len();
    rep.extra("cast_pairs_distinct", json!(pairs));
    rep.extra("panic_and_skip_examples", json!(*cx.examples.lock().unwrap_or_else(|e| e.into_inner())));
    let want_pairs = if div == 1 { 1_000 } else if div < 100 { 100 } else { 20 };
    rep.obligation("cast-pairs", pairs >= want_pairs, &format!("{pairs} distinct (from,to) type-class pairs, want >= {want_pairs}"));
    let equal_pairs: u64 = ["clone", "roundtrip", "sliced", "child-offset", "null-garbage", "cast-back", "ord-pair"].iter().map(|h| rep.get_count(&format!("hash_equal_pairs/{h}"))).sum();
    rep.obligation("hash-equal-pairs", equal_pairs > 0 && rep.get_count("hash_equal_pairs/sliced") > 0, &format!("{equal_pairs} equal pairs hashed"));
    rep.obligation("sort-references", rep.get_count("sort_kernel_checked") > 0 && rep.get_count("sort_comparator_checked") > 0, "sort kernel and comparator both exercised");
    if cx.selftest != 0 {
        // the oracle of every corrupted law must have noticed
        for law in [L_RT, L_ITER, L_HASH, L_ORD, L_SORT, L_CAST] {
            if cx.selftest & (1 << law) != 0 && rep.get_count(&format!("selftest_detected/{}", LAW_NAMES[law])) == 0 {
                println!("SELFTEST-MISSED property=C34 law={}", LAW_NAMES[law]);
                rep.obligation(&format!("selftest-{}", LAW_NAMES[law]), false, "corrupted observations of this law raised no violation");
            }
        }
    }
    rep.finish()
}

fn main() {
    let args = Args::parse();
    if args.opt_str("loud").is_none() {
        vcommon::par::quiet_panics();
    }
    std::process::exit(run_check(&args));
}
