//! C42: tree traversal / rewriting follow their recursion contract.
//!
//! A reference recursion (`RefWalk`, written from the documentation of `TreeNode`,
//! `TreeNodeRecursion` and `Transformed` in datafusion/common/src/tree_node.rs, as a small state
//! machine - it shares no combinator with the implementation) is run next to the real API on the
//! same tree with the same callback decisions; the order of callback invocations, the rewritten
//! tree, the `transformed` flag and the returned `TreeNodeRecursion` are compared.
//!
//! Part 1: harness tree types that implement `TreeNode` through the building blocks offered by the
//!         module (Vec container, tuple/Option/Box containers, `ConcreteTreeNode`, `DynTreeNode`):
//!         ALL ordered trees <= 5 nodes x ALL decision vectors (enumerated lazily: vectors that differ
//!         only at callbacks the contract never invokes are one class), random trees up to 12 nodes.
//! Part 2: containers through `map_elements` / `apply_elements`.
//! Part 3: the real implementors (Expr, LogicalPlan incl. the *_with_subqueries family,
//!         Arc<dyn PhysicalExpr>, Arc<dyn ExecutionPlan>, ExprContext, PlanContext) on random trees,
//!         decisions keyed by a fingerprint of the node handed to the callback.

use datafusion_common::tree_node::{
    ConcreteTreeNode, DynTreeNode, Transformed, TreeNode, TreeNodeContainer, TreeNodeRecursion,
    TreeNodeRefContainer, TreeNodeRewriter, TreeNodeVisitor,
};
use datafusion_common::{DataFusionError, Result as DfResult};
use std::cell::RefCell;
use std::collections::{BTreeMap, HashMap, HashSet};
use std::marker::PhantomData;
use std::sync::atomic::{AtomicU64, Ordering};
use std::sync::{Arc, Mutex};
use vcommon::{fp_mix, fp_str, json, Args, Json, Report, Rng};

#[path = "c42/impls.rs"]
mod impls;

// ---------------------------------------------------------------------------------------
// Decisions
// ---------------------------------------------------------------------------------------

pub const DOWN: u8 = 0;
pub const UP: u8 = 1;

#[derive(Clone, Copy, PartialEq, Eq, Debug)]
pub enum Rec {
    Continue,
    Jump,
    Stop,
}

#[derive(Clone, Copy, PartialEq, Eq, Debug)]
pub enum Chg {
    Keep,
    /// same children, different own label, reported as transformed
    Relabel,
    /// replaced by a fresh leaf, reported as transformed
    Leaf,
    /// node returned as is but reported as transformed
    YesSame,
}

#[derive(Clone, Copy, PartialEq, Eq, Debug)]
pub struct Dec {
    pub rec: Rec,
    pub err: bool,
    pub chg: Chg,
    pub found: bool,
}

const fn dec(rec: Rec, chg: Chg) -> Dec {
    Dec { rec, err: false, chg, found: false }
}
const ERR: Dec = Dec { rec: Rec::Continue, err: true, chg: Chg::Keep, found: false };

/// per-callback options of the transforming APIs (exhaustive part)
static T_OPTS: [Dec; 7] = [
    dec(Rec::Continue, Chg::Keep),
    dec(Rec::Continue, Chg::Relabel),
    dec(Rec::Jump, Chg::Keep),
    dec(Rec::Jump, Chg::Relabel),
    dec(Rec::Stop, Chg::Keep),
    dec(Rec::Stop, Chg::Relabel),
    ERR,
];
/// per-callback options of the inspecting APIs
static I_OPTS: [Dec; 4] = [dec(Rec::Continue, Chg::Keep), dec(Rec::Jump, Chg::Keep), dec(Rec::Stop, Chg::Keep), ERR];
/// per-callback options of `exists`
static E_OPTS: [Dec; 3] =
    [dec(Rec::Continue, Chg::Keep), Dec { rec: Rec::Stop, err: false, chg: Chg::Keep, found: true }, ERR];

#[derive(Clone, Copy, PartialEq, Eq, Debug, Hash)]
pub enum Api {
    Apply,
    Visit,
    Exists,
    TransformDown,
    TransformUp,
    Transform,
    TransformDownUp,
    Rewrite,
    MapChildren,
    ApplyChildren,
}

pub const ALL_APIS: [Api; 10] = [
    Api::Apply,
    Api::Visit,
    Api::Exists,
    Api::TransformDown,
    Api::TransformUp,
    Api::Transform,
    Api::TransformDownUp,
    Api::Rewrite,
    Api::MapChildren,
    Api::ApplyChildren,
];

#[derive(Clone, Copy, PartialEq, Eq, Debug)]
pub enum Class {
    Transform,
    Inspect,
    Exists,
}

impl Api {
    pub fn name(&self) -> &'static str {
        match self {
            Api::Apply => "apply",
            Api::Visit => "visit",
            Api::Exists => "exists",
            Api::TransformDown => "transform_down",
            Api::TransformUp => "transform_up",
            Api::Transform => "transform",
            Api::TransformDownUp => "transform_down_up",
            Api::Rewrite => "rewrite",
            Api::MapChildren => "map_children",
            Api::ApplyChildren => "apply_children",
        }
    }
    pub fn class(&self) -> Class {
        match self {
            Api::Apply | Api::Visit | Api::ApplyChildren => Class::Inspect,
            Api::Exists => Class::Exists,
            _ => Class::Transform,
        }
    }
    fn opts(&self) -> &'static [Dec] {
        match self.class() {
            Class::Transform => &T_OPTS,
            Class::Inspect => &I_OPTS,
            Class::Exists => &E_OPTS,
        }
    }
    /// (has f_down, has f_up) for the recursive APIs
    fn phases(&self) -> (bool, bool) {
        match self {
            Api::Apply | Api::Exists | Api::TransformDown => (true, false),
            Api::TransformUp | Api::Transform => (false, true),
            Api::Visit | Api::TransformDownUp | Api::Rewrite => (true, true),
            Api::MapChildren | Api::ApplyChildren => (true, false),
        }
    }
}

pub enum Policy {
    /// decisions are read from `script` in invocation order (extended with option 0 when it runs
    /// out); `table` records (phase, key, option) of every invocation
    Script { opts: &'static [Dec], script: Vec<u8>, pos: usize, table: Vec<(u8, u64, u8)> },
    /// decisions looked up by (phase, key); a callback the table does not know gets option 0
    Table { opts: &'static [Dec], table: Vec<(u8, u64, u8)> },
    /// decisions are a pure function of (seed, phase, key)
    Hash { seed: u64, class: Class },
}

impl Policy {
    fn decide(&mut self, phase: u8, key: u64) -> Dec {
        match self {
            Policy::Script { opts, script, pos, table } => {
                if *pos >= script.len() {
                    script.push(0);
                }
                let o = script[*pos];
                *pos += 1;
                table.push((phase, key, o));
                opts[o as usize]
            }
            Policy::Table { opts, table } => {
                let o = table.iter().find(|(p, k, _)| *p == phase && *k == key).map(|x| x.2).unwrap_or(0);
                opts[o as usize]
            }
            Policy::Hash { seed, class } => hash_dec(*seed, *class, phase, key),
        }
    }
}

fn hash_dec(seed: u64, class: Class, phase: u8, key: u64) -> Dec {
    let h = fp_mix(fp_mix(seed, key), phase as u64 + 1);
    // the "temperament" of a case comes from its seed, the individual decision from the node
    let p_stop = [0u64, 2, 5, 10][(seed & 3) as usize];
    let p_err = [0u64, 0, 1, 3][((seed >> 2) & 3) as usize];
    let p_jump = [5u64, 15, 30, 50][((seed >> 4) & 3) as usize];
    let p_chg = [0u64, 20, 40, 70][((seed >> 6) & 3) as usize];
    let (r1, r2, r3) = (h % 100, (h >> 20) % 100, (h >> 40) % 100);
    if r1 < p_err {
        return ERR;
    }
    if class == Class::Exists {
        return if r2 < 8 { E_OPTS[1] } else { E_OPTS[0] };
    }
    let rec = if r1 < p_err + p_stop {
        Rec::Stop
    } else if r1 < p_err + p_stop + p_jump {
        Rec::Jump
    } else {
        Rec::Continue
    };
    let chg = if class == Class::Inspect || r2 >= p_chg {
        Chg::Keep
    } else if r3 < 50 {
        Chg::Relabel
    } else if r3 < 80 {
        Chg::Leaf
    } else {
        Chg::YesSame
    };
    dec(rec, chg)
}

// ---------------------------------------------------------------------------------------
// What a tree type must offer to the oracle
// ---------------------------------------------------------------------------------------

pub trait Subject: Sized {
    /// fingerprint of the node as handed to a callback (decision key and log entry)
    fn key(&self) -> u64;
    fn show(&self) -> String;
    fn dup(&self) -> Self;
    fn same(&self, o: &Self) -> bool;
    /// the children in the documented order - written by hand, not through `TreeNode`
    fn kids(&self) -> Vec<Self>;
    /// the same node with its children replaced (same number, same order)
    fn rebuild(self, kids: Vec<Self>) -> Self;
    /// the same node with the same children but a different own label (None: not possible)
    fn relabel(self) -> Result<Self, Self>;
    fn fresh_leaf(&self, salt: u64) -> Self;
    /// Triage aid, NOT part of the contract: names a known way in which this implementor loses a
    /// pending up-jump after child `after_kid` of `n_kids` (see `RefWalk::quirk`).
    /// The second component is the number of following children the implementor is known to skip
    /// together with the lost jump.
    fn known_jump_loss(&self, _after_kid: usize, _n_kids: usize) -> Option<(&'static str, usize)> {
        None
    }
}

pub struct Ret<N> {
    pub node: N,
    pub chg: bool,
    pub rec: Result<Rec, ()>,
    pub found: bool,
}

/// The callback shared by the reference and the real API: logs the invocation, asks the policy.
pub struct Ctl {
    pub policy: Policy,
    pub log: Vec<(u8, u64)>,
    pub decs: Vec<Dec>,
}

impl Ctl {
    pub fn new(policy: Policy) -> Ctl {
        Ctl { policy, log: Vec::with_capacity(16), decs: Vec::with_capacity(16) }
    }
    pub fn peek_key(&mut self, phase: u8, key: u64) -> Dec {
        self.log.push((phase, key));
        let d = self.policy.decide(phase, key);
        self.decs.push(d);
        d
    }
    pub fn on<N: Subject>(&mut self, phase: u8, node: N) -> Ret<N> {
        let key = node.key();
        let d = self.peek_key(phase, key);
        let (node, chg) = match d.chg {
            Chg::Keep => (node, false),
            Chg::YesSame => (node, true),
            Chg::Relabel => match node.relabel() {
                Ok(n) => (n, true),
                Err(n) => (n.fresh_leaf(fp_mix(key, phase as u64)), true),
            },
            Chg::Leaf => (node.fresh_leaf(fp_mix(key, phase as u64)), true),
        };
        Ret { node, chg, rec: if d.err { Err(()) } else { Ok(d.rec) }, found: d.found }
    }
}

pub struct Outcome<N> {
    pub log: Vec<(u8, u64)>,
    pub decs: Vec<Dec>,
    pub err: bool,
    pub tree: Option<N>,
    pub flag: bool,
    pub rec: Rec,
    pub found: bool,
}

impl<N: Subject> Outcome<N> {
    pub fn to_json(&self) -> Json {
        json!({
            "calls": self.log.iter().zip(self.decs.iter()).map(|((p, k), d)| format!("{}({:x}) -> {:?}{}{}", if *p == DOWN { "f_down" } else { "f_up" }, k, d.rec, if d.err { "/Err" } else { "" }, if d.chg != Chg::Keep { format!("/{:?}", d.chg) } else { String::new() })).collect::<Vec<_>>(),
            "returned_err": self.err,
            "tree": self.tree.as_ref().map(|t| t.show()),
            "transformed": self.flag,
            "tnr": format!("{:?}", self.rec),
            "found": self.found,
        })
    }
}

// ---------------------------------------------------------------------------------------
// The reference recursion (from the documentation only)
//
//  * f_down is invoked before any child of the node, f_up after all children (pre / post order,
//    children left to right).
//  * Continue: go on with the next node.
//  * Jump returned by f_down: the children of the node are not visited; in a combined traversal
//    the walk continues with f_up of that same node, in a top-down traversal with the next node.
//  * Jump returned by f_up: the f_up calls of the ancestors are bypassed until an ancestor has a
//    child that is not visited yet; the walk resumes normally with that child ("till the next
//    leaf" for bottom-up, "the next f_down" for combined traversals).
//  * Stop: no callback is invoked any more; Err: ditto, and the API returns the error.
//  * `transformed` = OR of all flags the callbacks reported; `tnr` says how the walk ended.
//  * map_children / apply_children / containers: the elements are siblings - Continue and Jump
//    go on with the next sibling, Stop ends; the result carries the last invocation's decision
//    (Continue when nothing was invoked).
// ---------------------------------------------------------------------------------------

#[derive(Clone, Copy, PartialEq, Eq)]
enum Mode {
    Normal,
    JumpUp,
    Stopped,
    Failed,
}

pub struct RefWalk<'c> {
    ctl: &'c mut Ctl,
    has_down: bool,
    has_up: bool,
    mode: Mode,
    flag: bool,
    found: bool,
    /// false: the contract. true: the contract plus the known jump losses of the implementor; only
    /// used to give an already detected violation a stable root-cause signature.
    quirk: bool,
    quirks_used: Vec<&'static str>,
}

impl<'c> RefWalk<'c> {
    fn halted(&self) -> bool {
        matches!(self.mode, Mode::Stopped | Mode::Failed)
    }

    fn walk<N: Subject>(&mut self, mut node: N) -> N {
        let mut descend = true;
        if self.has_down {
            let r = self.ctl.on(DOWN, node);
            node = r.node;
            self.flag |= r.chg;
            self.found |= r.found;
            match r.rec {
                Err(()) => {
                    self.mode = Mode::Failed;
                    return node;
                }
                Ok(Rec::Stop) => {
                    self.mode = Mode::Stopped;
                    return node;
                }
                Ok(Rec::Jump) => descend = false,
                Ok(Rec::Continue) => {}
            }
        }
        if descend {
            let kids = node.kids();
            if !kids.is_empty() {
                let n = kids.len();
                let mut out = Vec::with_capacity(n);
                let mut skip = 0usize;
                for (i, k) in kids.into_iter().enumerate() {
                    if self.halted() {
                        out.push(k);
                    } else if skip > 0 {
                        skip -= 1;
                        out.push(k);
                    } else {
                        // an unvisited child: a pending up-jump ends here
                        self.mode = Mode::Normal;
                        out.push(self.walk(k));
                        if self.quirk && self.mode == Mode::JumpUp {
                            if let Some((q, s)) = node.known_jump_loss(i, n) {
                                self.mode = Mode::Normal;
                                self.quirks_used.push(q);
                                skip = s;
                            }
                        }
                    }
                }
                node = node.rebuild(out);
            }
        }
        if self.mode != Mode::Normal || !self.has_up {
            return node;
        }
        let r = self.ctl.on(UP, node);
        self.flag |= r.chg;
        self.mode = match r.rec {
            Err(()) => Mode::Failed,
            Ok(Rec::Continue) => Mode::Normal,
            Ok(Rec::Jump) => Mode::JumpUp,
            Ok(Rec::Stop) => Mode::Stopped,
        };
        r.node
    }

    /// f on every child, sibling rule
    fn children_only<N: Subject>(&mut self, node: N) -> (N, Rec) {
        let kids = node.kids();
        if kids.is_empty() {
            return (node, Rec::Continue);
        }
        let (out, last) = self.siblings(kids, Some(&node));
        (node.rebuild(out), last)
    }

    fn siblings<N: Subject>(&mut self, elems: Vec<N>, parent: Option<&N>) -> (Vec<N>, Rec) {
        let mut last = Rec::Continue;
        let n = elems.len();
        let mut out = Vec::with_capacity(n);
        let mut skip = 0usize;
        for (i, k) in elems.into_iter().enumerate() {
            if self.halted() {
                out.push(k);
                continue;
            }
            if skip > 0 {
                skip -= 1;
                out.push(k);
                continue;
            }
            let r = self.ctl.on(DOWN, k);
            self.flag |= r.chg;
            match r.rec {
                Err(()) => self.mode = Mode::Failed,
                Ok(x) => {
                    last = x;
                    if x == Rec::Stop {
                        self.mode = Mode::Stopped;
                    }
                    if self.quirk && x == Rec::Jump {
                        if let Some((q, s)) = parent.and_then(|p| p.known_jump_loss(i, n)) {
                            last = Rec::Continue;
                            self.quirks_used.push(q);
                            skip = s;
                        }
                    }
                }
            }
            out.push(r.node);
        }
        (out, last)
    }
}

pub fn reference<N: Subject>(api: Api, node: N, policy: Policy) -> (Outcome<N>, Policy) {
    let (o, p, _) = reference_q(api, node, policy, false);
    (o, p)
}

pub fn reference_q<N: Subject>(api: Api, node: N, policy: Policy, quirk: bool) -> (Outcome<N>, Policy, Vec<&'static str>) {
    let mut ctl = Ctl::new(policy);
    let (has_down, has_up) = api.phases();
    let mut w = RefWalk { ctl: &mut ctl, has_down, has_up, mode: Mode::Normal, flag: false, found: false, quirk, quirks_used: vec![] };
    let (tree, rec) = match api {
        Api::MapChildren | Api::ApplyChildren => {
            let (t, r) = w.children_only(node);
            (t, r)
        }
        _ => {
            let t = w.walk(node);
            let r = match w.mode {
                Mode::Normal | Mode::Failed => Rec::Continue,
                Mode::JumpUp => Rec::Jump,
                Mode::Stopped => Rec::Stop,
            };
            (t, r)
        }
    };
    let (err, flag, found) = (w.mode == Mode::Failed, w.flag, w.found);
    let quirks = std::mem::take(&mut w.quirks_used);
    let transforming = api.class() == Class::Transform;
    let out = Outcome {
        log: ctl.log,
        decs: ctl.decs,
        err,
        tree: if transforming && !err { Some(tree) } else { None },
        flag: flag && !err,
        rec: if err || api == Api::Exists { Rec::Continue } else { rec },
        found: found && !err,
    };
    (out, ctl.policy, quirks)
}

// ---------------------------------------------------------------------------------------
// The real API, driven by the same callback
// ---------------------------------------------------------------------------------------

pub fn to_tnr(r: Rec) -> TreeNodeRecursion {
    match r {
        Rec::Continue => TreeNodeRecursion::Continue,
        Rec::Jump => TreeNodeRecursion::Jump,
        Rec::Stop => TreeNodeRecursion::Stop,
    }
}
pub fn from_tnr(r: TreeNodeRecursion) -> Rec {
    match r {
        TreeNodeRecursion::Continue => Rec::Continue,
        TreeNodeRecursion::Jump => Rec::Jump,
        TreeNodeRecursion::Stop => Rec::Stop,
    }
}
pub fn cb_err() -> DataFusionError {
    DataFusionError::Internal("c42 callback error".into())
}

pub fn cb<N: Subject>(ctl: &RefCell<Ctl>, phase: u8, n: N) -> DfResult<Transformed<N>> {
    let r = ctl.borrow_mut().on(phase, n);
    match r.rec {
        Err(()) => Err(cb_err()),
        Ok(rec) => Ok(Transformed::new(r.node, r.chg, to_tnr(rec))),
    }
}
pub fn pk(ctl: &RefCell<Ctl>, phase: u8, key: u64) -> DfResult<TreeNodeRecursion> {
    let d = ctl.borrow_mut().peek_key(phase, key);
    if d.err { Err(cb_err()) } else { Ok(to_tnr(d.rec)) }
}
pub fn pk_found(ctl: &RefCell<Ctl>, key: u64) -> DfResult<bool> {
    let d = ctl.borrow_mut().peek_key(DOWN, key);
    if d.err { Err(cb_err()) } else { Ok(d.found) }
}

struct Vis<'c, N> {
    ctl: &'c RefCell<Ctl>,
    _p: PhantomData<N>,
}
impl<'n, 'c, N: Subject + TreeNode + 'n> TreeNodeVisitor<'n> for Vis<'c, N> {
    type Node = N;
    fn f_down(&mut self, node: &'n N) -> DfResult<TreeNodeRecursion> {
        pk(self.ctl, DOWN, node.key())
    }
    fn f_up(&mut self, node: &'n N) -> DfResult<TreeNodeRecursion> {
        pk(self.ctl, UP, node.key())
    }
}
struct Rw<'c, N> {
    ctl: &'c RefCell<Ctl>,
    _p: PhantomData<N>,
}
impl<'c, N: Subject + TreeNode> TreeNodeRewriter for Rw<'c, N> {
    type Node = N;
    fn f_down(&mut self, node: N) -> DfResult<Transformed<N>> {
        cb(self.ctl, DOWN, node)
    }
    fn f_up(&mut self, node: N) -> DfResult<Transformed<N>> {
        cb(self.ctl, UP, node)
    }
}

pub type RealRes<N> = DfResult<(Option<N>, bool, Rec, bool)>;

pub fn finish_real<N>(res: RealRes<N>, ctl: RefCell<Ctl>, api_is_exists: bool) -> Outcome<N> {
    let ctl = ctl.into_inner();
    match res {
        Ok((tree, flag, rec, found)) => Outcome {
            log: ctl.log,
            decs: ctl.decs,
            err: false,
            tree,
            flag,
            rec: if api_is_exists { Rec::Continue } else { rec },
            found,
        },
        Err(_) => {
            Outcome { log: ctl.log, decs: ctl.decs, err: true, tree: None, flag: false, rec: Rec::Continue, found: false }
        }
    }
}

pub fn real<N: Subject + TreeNode>(api: Api, node: N, policy: Policy) -> Outcome<N> {
    let ctl = RefCell::new(Ctl::new(policy));
    let tr = |t: Transformed<N>| (Some(t.data), t.transformed, from_tnr(t.tnr), false);
    let ins = |t: TreeNodeRecursion| (None, false, from_tnr(t), false);
    let res: RealRes<N> = match api {
        Api::Apply => node.apply(|n| pk(&ctl, DOWN, n.key())).map(ins),
        Api::Visit => node.visit(&mut Vis { ctl: &ctl, _p: PhantomData }).map(ins),
        Api::Exists => node.exists(|n| pk_found(&ctl, n.key())).map(|f| (None, false, Rec::Continue, f)),
        Api::TransformDown => node.transform_down(|n| cb(&ctl, DOWN, n)).map(tr),
        Api::TransformUp => node.transform_up(|n| cb(&ctl, UP, n)).map(tr),
        Api::Transform => node.transform(|n| cb(&ctl, UP, n)).map(tr),
        Api::TransformDownUp => node.transform_down_up(|n| cb(&ctl, DOWN, n), |n| cb(&ctl, UP, n)).map(tr),
        Api::Rewrite => node.rewrite(&mut Rw { ctl: &ctl, _p: PhantomData }).map(tr),
        Api::MapChildren => node.map_children(|n| cb(&ctl, DOWN, n)).map(tr),
        Api::ApplyChildren => node.apply_children(|n| pk(&ctl, DOWN, n.key())).map(ins),
    };
    finish_real(res, ctl, api == Api::Exists)
}

/// first aspect in which the observation differs from the contract
pub fn diff<N: Subject>(exp: &Outcome<N>, got: &Outcome<N>) -> Option<&'static str> {
    diff_opt(exp, got, false)
}

/// `ignore_rec`: the API does not document the `TreeNodeRecursion` it returns
pub fn diff_opt<N: Subject>(exp: &Outcome<N>, got: &Outcome<N>, ignore_rec: bool) -> Option<&'static str> {
    if exp.log != got.log {
        return Some("visit-sequence");
    }
    if exp.err != got.err {
        return Some("error");
    }
    if exp.err {
        return None;
    }
    match (&exp.tree, &got.tree) {
        (Some(a), Some(b)) if !a.same(b) => return Some("tree"),
        (Some(_), None) | (None, Some(_)) => return Some("tree"),
        _ => {}
    }
    if exp.flag != got.flag {
        return Some("flag");
    }
    if exp.rec != got.rec && !ignore_rec {
        return Some("tnr");
    }
    if exp.found != got.found {
        return Some("found");
    }
    None
}

/// root-cause signature: a tuple / Vec of containers whose LAST container is empty (None, empty
/// Vec) answers Continue and thereby forgets a Jump returned for the last element before it
pub const EMPTY_TRAILING: &str = "jump-lost-behind-empty-trailing-container";

static SELFTEST: AtomicU64 = AtomicU64::new(0);
static CORRUPT_TICK: AtomicU64 = AtomicU64::new(0);

/// `--opt selftest=1`: damage the *observed* outcome of every 97th run before the oracle sees it
pub fn maybe_corrupt<N>(got: &mut Outcome<N>) {
    if SELFTEST.load(Ordering::Relaxed) == 0 {
        return;
    }
    if CORRUPT_TICK.fetch_add(1, Ordering::Relaxed) % 97 != 96 {
        return;
    }
    if got.log.len() > 1 {
        got.log.pop();
        got.decs.pop();
    } else {
        got.flag = !got.flag;
    }
}

/// Compare the observation with the contract. A mismatch is a violation; when the observation
/// is exactly what the contract plus a *known* jump loss of the implementor predicts, the violation
/// gets that root cause as its signature instead of `<aspect>/<api>/<type>`.
pub fn judge<N: Subject>(rep: &Report, api: Api, api_name: &str, ty: &str, input: &N, exp: &Outcome<N>, got: &Outcome<N>, replay: impl FnOnce() -> Policy) {
    judge_opt(rep, api, api_name, ty, input, exp, got, replay, false)
}

#[allow(clippy::too_many_arguments)]
pub fn judge_opt<N: Subject>(rep: &Report, api: Api, api_name: &str, ty: &str, input: &N, exp: &Outcome<N>, got: &Outcome<N>, replay: impl FnOnce() -> Policy, ignore_rec: bool) {
    let Some(kind) = diff_opt(exp, got, ignore_rec) else { return };
    let (exp_q, _, quirks) = reference_q(api, input.dup(), replay(), true);
    let sig = match quirks.first() {
        Some(q) if diff_opt(&exp_q, got, ignore_rec).is_none() => q.to_string(),
        _ => format!("{kind}/{api_name}/{ty}"),
    };
    let witness = json!({"type": ty, "api": api_name, "input_tree": input.show(), "expected_by_contract": exp.to_json(), "observed": got.to_json()});
    record_violation(rep, &sig, ty, api_name, witness);
}

/// smallest witness per (signature, type): (size, witness)
static WITNESSES: Mutex<BTreeMap<String, (usize, Json)>> = Mutex::new(BTreeMap::new());

/// Every violation is counted; the first five of a signature are handed to the report (it keeps
/// no more anyway), and the smallest witness per signature and type is kept for the evidence.
pub fn record_violation(rep: &Report, sig: &str, ty: &str, api_name: &str, witness: Json) {
    rep.count(&format!("violations/{sig}"), 1);
    rep.count(&format!("violations_by_type/{sig}/{ty}/{api_name}"), 1);
    // witnesses in which the invoked callbacks differ are preferred over "returned value only"
    let same_calls = witness.get("expected_by_contract").and_then(|e| e.get("calls")) == witness.get("observed").and_then(|e| e.get("calls"));
    let size = witness.to_string().len() + if same_calls { 1 << 30 } else { 0 };
    {
        let mut w = WITNESSES.lock().unwrap_or_else(|e| e.into_inner());
        let e = w.entry(format!("{sig} @ {ty}")).or_insert((usize::MAX, Json::Null));
        if size < e.0 {
            *e = (size, witness.clone());
        }
    }
    if rep.get_count(&format!("violations/{sig}")) <= 5 {
        rep.violation(sig, witness);
    }
}

/// run reference and real API with the same hash policy; returns (nontrivial, calls)
pub fn compare_hashed<N: Subject + TreeNode>(rep: &Report, ty: &str, api: Api, node: N, seed: u64) -> (bool, usize) {
    let input = node.dup();
    let class = api.class();
    let (exp, _) = reference(api, node.dup(), Policy::Hash { seed, class });
    let got = vcommon::par::guard(|| real(api, node, Policy::Hash { seed, class }));
    let mut got = match got {
        Ok(g) => g,
        Err(p) => {
            record_violation(rep, &format!("panic/{}/{ty}", api.name()), ty, api.name(), json!({"type": ty, "api": api.name(), "input_tree": input.show(), "policy_seed": seed, "panic": p, "expected_by_contract": exp.to_json()}));
            return (false, 0);
        }
    };
    maybe_corrupt(&mut got);
    judge(rep, api, api.name(), ty, &input, &exp, &got, || Policy::Hash { seed, class });
    let nontrivial = exp.decs.iter().any(|d| d.rec != Rec::Continue || d.chg != Chg::Keep || d.err || d.found) && exp.log.len() > 1;
    (nontrivial, exp.log.len())
}

// ---------------------------------------------------------------------------------------
// Harness tree types
// ---------------------------------------------------------------------------------------

#[derive(Clone, Debug, PartialEq, Eq, Hash)]
pub struct Shape {
    kids: Vec<Shape>,
}

impl Shape {
    fn nodes(&self) -> usize {
        1 + self.kids.iter().map(|k| k.nodes()).sum::<usize>()
    }
    fn show(&self) -> String {
        format!("({})", self.kids.iter().map(|k| k.show()).collect::<String>())
    }
}

/// all ordered forests with `n` nodes in total
fn forests(n: usize) -> Vec<Vec<Shape>> {
    if n == 0 {
        return vec![vec![]];
    }
    let mut out = vec![];
    for first in 1..=n {
        for t in trees(first) {
            for rest in forests(n - first) {
                let mut f = vec![t.clone()];
                f.extend(rest);
                out.push(f);
            }
        }
    }
    out
}
/// all ordered rooted trees with `n` nodes
fn trees(n: usize) -> Vec<Shape> {
    forests(n - 1).into_iter().map(|kids| Shape { kids }).collect()
}

fn random_shape(rng: &mut Rng, n: usize) -> Shape {
    // random recursive tree: node i hangs below a random earlier node; sometimes prefer the last
    // node (deep) or the root (wide)
    let mut parent = vec![0usize; n];
    let style = rng.below(3);
    for i in 1..n {
        parent[i] = match style {
            0 => rng.usize(i),
            1 => {
                if rng.chance(2, 3) {
                    i - 1
                } else {
                    rng.usize(i)
                }
            }
            _ => {
                if rng.chance(1, 2) {
                    0
                } else {
                    rng.usize(i)
                }
            }
        };
    }
    fn build(i: usize, parent: &[usize]) -> Shape {
        Shape { kids: (i + 1..parent.len()).filter(|&j| parent[j] == i).map(|j| build(j, parent)).collect() }
    }
    build(0, &parent)
}

pub trait Harness: Subject + TreeNode {
    const NAME: &'static str;
    fn build(shape: &Shape, next: &mut u32) -> Self;
}

fn hkey(id: u32, label: u32) -> u64 {
    id as u64 | ((label as u64) << 32)
}
fn leaf_id(salt: u64) -> u32 {
    10_000 + (salt % 1_000_000) as u32
}

macro_rules! self_container {
    ($t:ty) => {
        impl<'a> TreeNodeContainer<'a, Self> for $t {
            fn apply_elements<F: FnMut(&'a Self) -> DfResult<TreeNodeRecursion>>(&'a self, mut f: F) -> DfResult<TreeNodeRecursion> {
                f(self)
            }
            fn map_elements<F: FnMut(Self) -> DfResult<Transformed<Self>>>(self, mut f: F) -> DfResult<Transformed<Self>> {
                f(self)
            }
        }
    };
}

// --- VNode: children in a Vec, TreeNode through the Vec container -----------------------

#[derive(Clone, Debug, PartialEq, Default)]
pub struct VNode {
    id: u32,
    label: u32,
    kids: Vec<VNode>,
}
self_container!(VNode);
impl TreeNode for VNode {
    fn apply_children<'n, F: FnMut(&'n Self) -> DfResult<TreeNodeRecursion>>(&'n self, f: F) -> DfResult<TreeNodeRecursion> {
        self.kids.apply_elements(f)
    }
    fn map_children<F: FnMut(Self) -> DfResult<Transformed<Self>>>(self, f: F) -> DfResult<Transformed<Self>> {
        let VNode { id, label, kids } = self;
        Ok(kids.map_elements(f)?.update_data(|kids| VNode { id, label, kids }))
    }
}
impl Subject for VNode {
    fn key(&self) -> u64 {
        hkey(self.id, self.label)
    }
    fn show(&self) -> String {
        format!("{}:{}({})", self.id, self.label, self.kids.iter().map(|k| k.show()).collect::<Vec<_>>().join(" "))
    }
    fn dup(&self) -> Self {
        self.clone()
    }
    fn same(&self, o: &Self) -> bool {
        self == o
    }
    fn kids(&self) -> Vec<Self> {
        self.kids.clone()
    }
    fn rebuild(mut self, kids: Vec<Self>) -> Self {
        self.kids = kids;
        self
    }
    fn relabel(mut self) -> Result<Self, Self> {
        self.label += 1000;
        Ok(self)
    }
    fn fresh_leaf(&self, salt: u64) -> Self {
        VNode { id: leaf_id(salt), label: 0, kids: vec![] }
    }
}
impl Harness for VNode {
    const NAME: &'static str = "VecNode";
    fn build(shape: &Shape, next: &mut u32) -> Self {
        let id = *next;
        *next += 1;
        VNode { id, label: 0, kids: shape.kids.iter().map(|k| Self::build(k, next)).collect() }
    }
}

// --- CNode: ConcreteTreeNode blanket implementation --------------------------------------

#[derive(Clone, Debug, PartialEq)]
pub struct CNode {
    id: u32,
    label: u32,
    kids: Vec<CNode>,
}
impl ConcreteTreeNode for CNode {
    fn children(&self) -> &[Self] {
        &self.kids
    }
    fn take_children(mut self) -> (Self, Vec<Self>) {
        let k = std::mem::take(&mut self.kids);
        (self, k)
    }
    fn with_new_children(mut self, children: Vec<Self>) -> DfResult<Self> {
        self.kids = children;
        Ok(self)
    }
}
impl Subject for CNode {
    fn key(&self) -> u64 {
        hkey(self.id, self.label)
    }
    fn show(&self) -> String {
        format!("{}:{}({})", self.id, self.label, self.kids.iter().map(|k| k.show()).collect::<Vec<_>>().join(" "))
    }
    fn dup(&self) -> Self {
        self.clone()
    }
    fn same(&self, o: &Self) -> bool {
        self == o
    }
    fn kids(&self) -> Vec<Self> {
        self.kids.clone()
    }
    fn rebuild(mut self, kids: Vec<Self>) -> Self {
        self.kids = kids;
        self
    }
    fn relabel(mut self) -> Result<Self, Self> {
        self.label += 1000;
        Ok(self)
    }
    fn fresh_leaf(&self, salt: u64) -> Self {
        CNode { id: leaf_id(salt), label: 0, kids: vec![] }
    }
}
impl Harness for CNode {
    const NAME: &'static str = "ConcreteNode";
    fn build(shape: &Shape, next: &mut u32) -> Self {
        let id = *next;
        *next += 1;
        CNode { id, label: 0, kids: shape.kids.iter().map(|k| Self::build(k, next)).collect() }
    }
}

// --- DNode: Arc<T: DynTreeNode> blanket implementation -----------------------------------

#[derive(Debug, PartialEq)]
pub struct DNode {
    id: u32,
    label: u32,
    kids: Vec<Arc<DNode>>,
}
impl DynTreeNode for DNode {
    fn arc_children(&self) -> Vec<&Arc<Self>> {
        self.kids.iter().collect()
    }
    fn with_new_arc_children(&self, _arc_self: Arc<Self>, new_children: Vec<Arc<Self>>) -> DfResult<Arc<Self>> {
        Ok(Arc::new(DNode { id: self.id, label: self.label, kids: new_children }))
    }
}
impl Subject for Arc<DNode> {
    fn key(&self) -> u64 {
        hkey(self.id, self.label)
    }
    fn show(&self) -> String {
        format!("{}:{}({})", self.id, self.label, self.kids.iter().map(|k| k.show()).collect::<Vec<_>>().join(" "))
    }
    fn dup(&self) -> Self {
        Arc::clone(self)
    }
    fn same(&self, o: &Self) -> bool {
        self == o
    }
    fn kids(&self) -> Vec<Self> {
        self.kids.clone()
    }
    fn rebuild(self, kids: Vec<Self>) -> Self {
        Arc::new(DNode { id: self.id, label: self.label, kids })
    }
    fn relabel(self) -> Result<Self, Self> {
        Ok(Arc::new(DNode { id: self.id, label: self.label + 1000, kids: self.kids.clone() }))
    }
    fn fresh_leaf(&self, salt: u64) -> Self {
        Arc::new(DNode { id: leaf_id(salt), label: 0, kids: vec![] })
    }
}
impl Harness for Arc<DNode> {
    const NAME: &'static str = "ArcDynNode";
    fn build(shape: &Shape, next: &mut u32) -> Self {
        let id = *next;
        *next += 1;
        Arc::new(DNode { id, label: 0, kids: shape.kids.iter().map(|k| Self::build(k, next)).collect() })
    }
}

// --- TNode: (Option<Box<_>>, Vec<_>, Option<Box<_>>) like Expr::Case ---------------------

#[derive(Clone, Debug, PartialEq, Default)]
pub struct TNode {
    id: u32,
    label: u32,
    first: Option<Box<TNode>>,
    mid: Vec<TNode>,
    last: Option<Box<TNode>>,
}
self_container!(TNode);
impl TreeNode for TNode {
    fn apply_children<'n, F: FnMut(&'n Self) -> DfResult<TreeNodeRecursion>>(&'n self, f: F) -> DfResult<TreeNodeRecursion> {
        (&self.first, &self.mid, &self.last).apply_ref_elements(f)
    }
    fn map_children<F: FnMut(Self) -> DfResult<Transformed<Self>>>(self, f: F) -> DfResult<Transformed<Self>> {
        let TNode { id, label, first, mid, last } = self;
        Ok((first, mid, last).map_elements(f)?.update_data(|(first, mid, last)| TNode { id, label, first, mid, last }))
    }
}
impl TNode {
    fn from_kids(id: u32, label: u32, mut kids: Vec<TNode>) -> TNode {
        // 1 child: first; 2: first + last; more: first, mid.., last
        let first = if kids.is_empty() { None } else { Some(Box::new(kids.remove(0))) };
        let last = if kids.is_empty() { None } else { kids.pop().map(Box::new) };
        TNode { id, label, first, mid: kids, last }
    }
}
impl Subject for TNode {
    fn key(&self) -> u64 {
        hkey(self.id, self.label)
    }
    fn show(&self) -> String {
        format!("{}:{}({})", self.id, self.label, self.kids().iter().map(|k| k.show()).collect::<Vec<_>>().join(" "))
    }
    fn dup(&self) -> Self {
        self.clone()
    }
    fn same(&self, o: &Self) -> bool {
        self == o
    }
    fn kids(&self) -> Vec<Self> {
        let mut v = vec![];
        if let Some(f) = &self.first {
            v.push((**f).clone());
        }
        v.extend(self.mid.iter().cloned());
        if let Some(l) = &self.last {
            v.push((**l).clone());
        }
        v
    }
    fn rebuild(self, kids: Vec<Self>) -> Self {
        TNode::from_kids(self.id, self.label, kids)
    }
    fn relabel(mut self) -> Result<Self, Self> {
        self.label += 1000;
        Ok(self)
    }
    fn fresh_leaf(&self, salt: u64) -> Self {
        TNode { id: leaf_id(salt), ..Default::default() }
    }
    fn known_jump_loss(&self, after_kid: usize, n_kids: usize) -> Option<(&'static str, usize)> {
        // (first, mid, last): with a single child `mid` and `last` are empty containers behind it
        (after_kid + 1 == n_kids && self.last.is_none()).then_some((EMPTY_TRAILING, 0))
    }
}
impl Harness for TNode {
    const NAME: &'static str = "TupleOptBoxNode";
    fn build(shape: &Shape, next: &mut u32) -> Self {
        let id = *next;
        *next += 1;
        let kids = shape.kids.iter().map(|k| Self::build(k, next)).collect();
        TNode::from_kids(id, 0, kids)
    }
}

// ---------------------------------------------------------------------------------------
// Exhaustive enumeration (lazy over decision vectors)
// ---------------------------------------------------------------------------------------

#[derive(Default)]
struct ItemStats {
    runs: u64,
    paths: HashSet<u64>,
    max_calls: usize,
}

/// advance `script` to the lexicographic successor among scripts that keep `fixed` leading entries
fn next_script(script: &mut Vec<u8>, fixed: usize, nopt: u8) -> bool {
    while script.len() > fixed {
        let last = script.pop().unwrap();
        if last + 1 < nopt {
            script.push(last + 1);
            return true;
        }
    }
    false
}

/// Enumerate every decision script with the given prefix for one (tree, api); `run` executes one
/// script (reference with a Script policy -> table -> real with a Table policy).
fn enumerate_scripts(api: Api, prefix: &[u8], mut run: impl FnMut(Vec<u8>) -> Vec<(u8, u64, u8)>, stats: &mut ItemStats, path_seed: u64) {
    let opts = api.opts();
    let nopt = opts.len() as u8;
    let mut script: Vec<u8> = prefix.to_vec();
    loop {
        let table = run(script.clone());
        let used = table.len();
        if used < prefix.len() {
            // the run never asked for the tail of the prefix: it is represented by the all-zero tail
            if prefix[used..].iter().any(|x| *x != 0) {
                return;
            }
        }
        stats.runs += 1;
        stats.max_calls = stats.max_calls.max(used);
        // control path: which callbacks were invoked and what they answered (changes ignored)
        let mut p = path_seed;
        let mut interesting = false;
        for (ph, k, o) in &table {
            let d = opts[*o as usize];
            interesting |= d.rec != Rec::Continue || d.err || d.chg != Chg::Keep || d.found;
            p = fp_mix(p, fp_mix(*ph as u64, fp_mix(*k & 0xffff_ffff, d.rec as u64 * 2 + d.err as u64)));
        }
        if interesting && used > 1 {
            stats.paths.insert(p);
        }
        if used < prefix.len() {
            return;
        }
        script = table.iter().map(|x| x.2).collect();
        if !next_script(&mut script, prefix.len(), nopt) {
            return;
        }
    }
}

fn exhaust_item<H: Harness>(rep: &Report, shape: &Shape, shape_idx: usize, api: Api, prefix: &[u8]) {
    let mut stats = ItemStats::default();
    let path_seed = fp_mix(fp_str(H::NAME), fp_mix(shape_idx as u64, api as u64));
    let opts = api.opts();
    enumerate_scripts(
        api,
        prefix,
        |script| {
            let tree = H::build(shape, &mut 0);
            let (exp, pol) = reference(api, tree.dup(), Policy::Script { opts, script, pos: 0, table: vec![] });
            let table = match pol {
                Policy::Script { table, .. } => table,
                _ => unreachable!(),
            };
            let input = tree.dup();
            let got = vcommon::par::guard(|| real(api, tree, Policy::Table { opts, table: table.clone() }));
            match got {
                Ok(mut got) => {
                    maybe_corrupt(&mut got);
                    judge(rep, api, api.name(), H::NAME, &input, &exp, &got, || Policy::Table { opts, table: table.clone() });
                }
                Err(p) => record_violation(rep, &format!("panic/{}/{}", api.name(), H::NAME), H::NAME, api.name(), json!({"type": H::NAME, "api": api.name(), "input_tree": input.show(), "panic": p, "expected_by_contract": exp.to_json()})),
            }
            table
        },
        &mut stats,
        path_seed,
    );
    rep.cases(stats.runs);
    for p in &stats.paths {
        rep.nontrivial(*p);
    }
    rep.count(&format!("exhaustive/{}/{}", H::NAME, api.name()), stats.runs);
    rep.count(&format!("exhaustive_by_nodes/{}", shape.nodes()), stats.runs);
    rep.max("max_callbacks_in_one_run", stats.max_calls as u64);
}

#[derive(Clone)]
struct ExItem {
    ty: usize,
    shape_idx: usize,
    api: Api,
    prefix: Vec<u8>,
}

fn run_exhaustive(rep: &Report, args: &Args, max_nodes: [usize; 4]) -> Vec<Shape> {
    let mut shapes = vec![];
    for n in 1..=*max_nodes.iter().max().unwrap() {
        shapes.extend(trees(n));
    }
    let mut items = vec![];
    for ty in 0..4 {
        for (si, s) in shapes.iter().enumerate() {
            if s.nodes() > max_nodes[ty] {
                continue;
            }
            for api in ALL_APIS {
                let n = api.opts().len() as u8;
                let two_phase = api.phases() == (true, true);
                if s.nodes() >= 4 && two_phase {
                    for a in 0..n {
                        for b in 0..n {
                            items.push(ExItem { ty, shape_idx: si, api, prefix: vec![a, b] });
                        }
                    }
                } else {
                    items.push(ExItem { ty, shape_idx: si, api, prefix: vec![] });
                }
            }
        }
    }
    // big items first
    items.sort_by_key(|i| std::cmp::Reverse((shapes[i.shape_idx].nodes(), i.prefix.len())));
    let shapes_ref = &shapes;
    vcommon::par::run(args.workers, items.into_iter(), |it: ExItem| {
        let s = &shapes_ref[it.shape_idx];
        match it.ty {
            0 => exhaust_item::<VNode>(rep, s, it.shape_idx, it.api, &it.prefix),
            1 => exhaust_item::<CNode>(rep, s, it.shape_idx, it.api, &it.prefix),
            2 => exhaust_item::<Arc<DNode>>(rep, s, it.shape_idx, it.api, &it.prefix),
            _ => exhaust_item::<TNode>(rep, s, it.shape_idx, it.api, &it.prefix),
        }
    });
    shapes
}

// ---------------------------------------------------------------------------------------
// Random harness trees (6..12 nodes; leaf replacement and yes-without-change included)
// ---------------------------------------------------------------------------------------

fn random_harness_case<H: Harness>(rep: &Report, shape: &Shape, api: Api, pseed: u64) {
    let tree = H::build(shape, &mut 0);
    let (nontrivial, calls) = compare_hashed(rep, H::NAME, api, tree, pseed);
    rep.case(fp_mix(fp_mix(fp_str(H::NAME), fp_str(&shape.show())), fp_mix(api as u64, pseed)), nontrivial);
    rep.count(&format!("random/{}/{}", H::NAME, api.name()), 1);
    rep.max("max_callbacks_in_one_run", calls as u64);
}

fn run_random_harness(rep: &Report, args: &Args, n: u64, stage: u64, max_nodes: usize) {
    let seed = args.seed;
    vcommon::par::run(args.workers, 0..n, |i| {
        let mut rng = Rng::derive(seed, &[42, stage, 1, i]);
        let nodes = 6.min(max_nodes) + rng.usize(max_nodes - 6.min(max_nodes) + 1);
        let shape = random_shape(&mut rng, nodes);
        let api = ALL_APIS[(i % 10) as usize];
        let pseed = rng.next_u64();
        match (i / 10) % 4 {
            0 => random_harness_case::<VNode>(rep, &shape, api, pseed),
            1 => random_harness_case::<CNode>(rep, &shape, api, pseed),
            2 => random_harness_case::<Arc<DNode>>(rep, &shape, api, pseed),
            _ => random_harness_case::<TNode>(rep, &shape, api, pseed),
        }
    });
}

// ---------------------------------------------------------------------------------------
// Containers through map_elements / apply_elements
// ---------------------------------------------------------------------------------------

fn leafv(id: u32) -> VNode {
    VNode { id, label: 0, kids: vec![] }
}

/// One container case: `flat` lists the elements in the documented (field / iteration) order.
fn container_case<C>(rep: &Report, name: &str, c: C, flat: &dyn Fn(&C) -> Vec<VNode>, by_key: bool, trailing_empty: bool)
where
    C: for<'a> TreeNodeContainer<'a, VNode> + Clone,
{
    let elems = flat(&c);
    for api in [Api::MapChildren, Api::ApplyChildren] {
        let mut stats = ItemStats::default();
        let label = if api == Api::MapChildren { "map_elements" } else { "apply_elements" };
        enumerate_scripts(
            api,
            &[],
            |script| {
                // reference: the elements are siblings below an imaginary parent
                let parent = VNode { id: 9999, label: 0, kids: elems.clone() };
                let (exp, pol) = reference(api, parent, Policy::Script { opts: api.opts(), script, pos: 0, table: vec![] });
                let table = match pol {
                    Policy::Script { table, .. } => table,
                    _ => unreachable!(),
                };
                let ctl = RefCell::new(Ctl::new(Policy::Table { opts: api.opts(), table: table.clone() }));
                let c2 = c.clone();
                let res: RealRes<VNode> = if api == Api::MapChildren {
                    c2.map_elements(|n| cb(&ctl, DOWN, n)).map(|t| {
                        let mut k = flat(&t.data);
                        if by_key {
                            k.sort_by_key(|n| n.id);
                        }
                        (Some(VNode { id: 9999, label: 0, kids: k }), t.transformed, from_tnr(t.tnr), false)
                    })
                } else {
                    c2.apply_elements(|n| pk(&ctl, DOWN, n.key())).map(|t| (None, false, from_tnr(t), false))
                };
                let mut got = finish_real(res, ctl, false);
                maybe_corrupt(&mut got);
                let mut exp = exp;
                if by_key {
                    if let Some(t) = exp.tree.as_mut() {
                        t.kids.sort_by_key(|n| n.id);
                    }
                }
                if trailing_empty && exp.rec == Rec::Jump && got.rec == Rec::Continue && !exp.err {
                    // What a tuple / Vec of containers answers when its last container is empty is
                    // not documented (only iterators: "Continue if the iterator is empty"), so the
                    // container level does not assert it; the tree APIs built on it do (EMPTY_TRAILING).
                    rep.count("info/container_answers_continue_behind_empty_tail", 1);
                    got.rec = exp.rec;
                }
                if let Some(kind) = diff(&exp, &got) {
                    let sig = format!("{kind}/{label}/{name}");
                    record_violation(rep, &sig, name, label, json!({"container": name, "api": label, "elements": elems.iter().map(|e| e.show()).collect::<Vec<_>>(), "expected_by_contract": exp.to_json(), "observed": got.to_json()}));
                }
                table
            },
            &mut stats,
            fp_mix(fp_str(name), api as u64),
        );
        rep.cases(stats.runs);
        for p in &stats.paths {
            rep.nontrivial(*p);
        }
        rep.count(&format!("container/{name}/{label}"), stats.runs);
    }
}

fn run_containers(rep: &Report, reduced: bool) {
    let b = |id: u32| Box::new(leafv(id));
    let maxlen = if reduced { 2 } else { 4 };
    for len in 0..=maxlen {
        let v: Vec<VNode> = (1..=len).map(leafv).collect();
        container_case(rep, &format!("Vec[{len}]"), v, &|c| c.clone(), false, false);
    }
    container_case(rep, "Option::None", None::<VNode>, &|c| c.iter().cloned().collect(), false, false);
    container_case(rep, "Option::Some", Some(leafv(1)), &|c| c.iter().cloned().collect(), false, false);
    container_case(rep, "Box", b(1), &|c| vec![(**c).clone()], false, false);
    container_case(rep, "Arc", Arc::new(leafv(1)), &|c| vec![(**c).clone()], false, false);
    container_case(rep, "Tuple2", (leafv(1), leafv(2)), &|c| vec![c.0.clone(), c.1.clone()], false, false);
    container_case(rep, "Tuple2(Box,Vec)", (b(1), vec![leafv(2), leafv(3)]), &|c| {
        let mut v = vec![(*c.0).clone()];
        v.extend(c.1.iter().cloned());
        v
    }, false, false);
    container_case(rep, "Tuple2(Box,Vec[0])", (b(1), Vec::<VNode>::new()), &|c| {
        let mut v = vec![(*c.0).clone()];
        v.extend(c.1.iter().cloned());
        v
    }, false, true);
    type CaseLike = (Option<Box<VNode>>, Vec<(Box<VNode>, Box<VNode>)>, Option<Box<VNode>>);
    let flat_case = |c: &CaseLike| {
        let mut v = vec![];
        if let Some(x) = &c.0 {
            v.push((**x).clone());
        }
        for (w, t) in &c.1 {
            v.push((**w).clone());
            v.push((**t).clone());
        }
        if let Some(x) = &c.2 {
            v.push((**x).clone());
        }
        v
    };
    let full: CaseLike = (Some(b(1)), vec![(b(2), b(3))], Some(b(4)));
    container_case(rep, "Tuple3(Some,Vec<(Box,Box)>,Some)", full, &flat_case, false, false);
    let no_else: CaseLike = (None, vec![(b(2), b(3))], None);
    container_case(rep, "Tuple3(None,Vec<(Box,Box)>,None)", no_else, &flat_case, false, true);
    type WinLike = (Vec<VNode>, Vec<VNode>, Vec<VNode>, Option<Box<VNode>>);
    let flat_win = |c: &WinLike| {
        let mut v: Vec<VNode> = c.0.iter().chain(c.1.iter()).chain(c.2.iter()).cloned().collect();
        if let Some(x) = &c.3 {
            v.push((**x).clone());
        }
        v
    };
    container_case(rep, "Tuple4(Vec,Vec,Vec,Some)", (vec![leafv(1)], vec![leafv(2)], vec![leafv(3)], Some(b(4))) as WinLike, &flat_win, false, false);
    container_case(rep, "Tuple4(Vec,Vec[0],Vec[0],None)", (vec![leafv(1), leafv(2)], vec![], vec![], None) as WinLike, &flat_win, false, true);
    container_case(rep, "Vec<Vec>", vec![vec![leafv(1)], vec![], vec![leafv(2), leafv(3)]], &|c: &Vec<Vec<VNode>>| c.iter().flatten().cloned().collect(), false, false);
    container_case(rep, "Vec<Vec>[..,[]]", vec![vec![leafv(1), leafv(2)], vec![]], &|c: &Vec<Vec<VNode>>| c.iter().flatten().cloned().collect(), false, true);
    if !reduced {
        let mut m: HashMap<u32, VNode> = HashMap::new();
        for i in 1..=4 {
            m.insert(i * 7, leafv(i));
        }
        // a clone iterates in the same order as the original
        container_case(rep, "HashMap[4]", m, &|c| c.values().cloned().collect(), true, false);
    }
}

// ---------------------------------------------------------------------------------------
// main
// ---------------------------------------------------------------------------------------

fn main() {
    let args = Args::parse();
    vcommon::par::quiet_panics();
    std::process::exit(run(&args));
}

fn run(args: &Args) -> i32 {
    let rep = Report::new("C42", "exploration", args);
    SELFTEST.store(args.opt_u64("selftest", 0), Ordering::Relaxed);
    let miri = args.stage == "miri";
    let stage_no = if miri { 1 } else { 0 };
    rep.set_rule("exhaustive part: every ordered tree up to the node bound x every decision vector over {Continue,Jump,Stop,Err} x {unchanged,relabelled} per callback, enumerated lazily (vectors that differ only at callbacks the contract never invokes are one class and counted once), for 10 APIs x 4 harness implementations; a run is distinct by (implementation, tree, api, invoked callbacks and their recursion answers) and non-trivial when some callback answered other than Continue/unchanged and more than one callback ran. Random part: seeded trees of 6..12 nodes / random real expression and plan trees, decisions = hash(case seed, node fingerprint, phase) incl. replacement by a fresh leaf and yes-without-change");
    rep.assume("callbacks honour their own contract: a node returned with transformed=false is the node that was passed in");
    rep.assume("the hand-written children accessors of the oracle (Subject::kids / rebuild) state the documented children order of Expr and LogicalPlan; for Arc<dyn PhysicalExpr> / Arc<dyn ExecutionPlan> the documented order is children()");

    // the node bound of the exhaustive part: 5 nodes in the quick tier, 6 in the thorough tier for
    // all four harness implementations (Miri: see below)
    let max_nodes: [usize; 4] = if miri {
        // Miri interprets ~40 runs per second: 3 nodes (~15k runs) by default, `--opt exh_nodes=4`
        // (~350k runs, hours) for a long stage
        let m = args.opt_u64("exh_nodes", 3) as usize;
        [m, 2, 2, m]
    } else {
        let v = args.bound("exh_nodes", 5, 6) as usize;
        let o = args.bound("exh_nodes_other", 5, 6) as usize;
        [v, o, o, o]
    };
    // `--opt part=impl` / `part=harness` restrict a run to one half (triage aid; coverage obligations
    // of the other half then make the run inconclusive)
    let part = args.opt_str("part").unwrap_or("all").to_string();
    let max_nodes = if part == "impl" { [1, 1, 1, 1] } else { max_nodes };
    let progress = |what: &str| {
        if miri {
            eprintln!("c42[miri] {what} at {:.0}s", rep.elapsed_s());
        }
    };
    progress("start");
    let shapes = run_exhaustive(&rep, args, max_nodes);
    progress("exhaustive part done");
    rep.extra("exhaustive_max_nodes", json!({"VecNode": max_nodes[0], "ConcreteNode": max_nodes[1], "ArcDynNode": max_nodes[2], "TupleOptBoxNode": max_nodes[3]}));
    rep.extra("exhaustive_tree_shapes", json!(shapes.len()));
    rep.set_exhaustive(true);
    if part != "impl" {
        run_containers(&rep, miri);
        let n_rand = if miri { args.opt_u64("random", 60) } else { args.bound("random", 200_000, 6_000_000) };
        progress("containers done");
        run_random_harness(&rep, args, n_rand, stage_no, if miri { 8 } else { 12 });
        progress("random harness trees done");
    }
    if part != "harness" {
        let n_impl = if miri { args.opt_u64("impl_cases", 70) } else { args.bound("impl_cases", 140_000, 4_200_000) };
        impls::run_implementors(&rep, args, n_impl);
        progress("implementors done");
    }

    // coverage obligations
    for ty in ["VecNode", "ConcreteNode", "ArcDynNode", "TupleOptBoxNode"] {
        let missing: Vec<&str> = ALL_APIS.iter().filter(|a| rep.get_count(&format!("exhaustive/{ty}/{}", a.name())) == 0).map(|a| a.name()).collect();
        rep.obligation(&format!("exhaustive-all-apis/{ty}"), missing.is_empty(), &format!("every API has an exhaustive run; missing: {missing:?}"));
    }
    impls::obligations(&rep, miri);
    let w = WITNESSES.lock().unwrap_or_else(|e| e.into_inner());
    if !w.is_empty() {
        rep.extra("smallest_witness_per_signature_and_type", Json::Object(w.iter().map(|(k, v)| (k.clone(), v.1.clone())).collect()));
    }
    drop(w);
    rep.finish()
}
