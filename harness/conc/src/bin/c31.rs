//! C31, sanitizer stages (TSan / Miri) of part (b): the object-level generation-window workload of
//! `DynamicFilterPhysicalExpr::current()` on the slim dependency set. The workload source is shared
//! with the engine-level check (`dfv/src/bin/c31/objlevel.rs`); see there for the oracle.

#[path = "../../../dfv/src/bin/c31/objlevel.rs"]
mod objlevel;

use std::sync::Mutex;
use vcommon::{Args, Report};

fn run(args: &Args) -> i32 {
    let rep = Report::new("C31", "exploration", args);
    rep.set_rule("one evaluation = one current() call on the original filter or a with_new_children clone while writer threads publish `a@0 > k`; distinct = generation observed");
    rep.assume("updates are serialised by the harness, so the literal of the published expression equals the number of updates applied");
    let selftest = args.opt_u64("selftest", 0) == 1;
    let reduce = match args.stage.as_str() {
        "miri" => 100,
        "tsan" => 10,
        _ => 1,
    };
    let rounds = (args.bound("obj_rounds", 260, 4000) / reduce).max(4);
    let cfg = objlevel::ObjCfg { updates: if args.stage == "miri" { 6 } else { args.bound("obj_updates", 40, 60) }, readers: if args.stage == "miri" { 2 } else { 3 }, selftest };
    let out = Mutex::new(objlevel::ObjOut::default());
    vcommon::par::run(if reduce > 1 { 1 } else { (args.workers / 4).max(1) }, 0..rounds, |r| {
        objlevel::one_round(args.seed, r, &cfg, &out);
    });
    let o = out.into_inner().unwrap();
    rep.cases(o.reads);
    for g in &o.generations_seen {
        rep.nontrivial(vcommon::fp_mix(0xB0B, *g));
    }
    rep.count("object_level:reads", o.reads);
    rep.count("object_level:rounds", o.rounds);
    rep.count("object_level:reads_at_initial_generation", o.reads_initial);
    rep.count("object_level:reads_at_intermediate_generations", o.reads_mid);
    rep.count("object_level:reads_at_final_generation", o.reads_final);
    rep.count("object_level:reads_through_remapped_clones", o.reads_remapped);
    rep.count("object_level:reads_after_mark_complete", o.reads_after_complete);
    rep.count("object_level:distinct_generations_observed", o.generations_seen.len() as u64);
    rep.obligation("object-level: reads at >= 3 distinct generations incl. the initial one", o.generations_seen.len() >= 3 && o.generations_seen.contains(&0) && o.rounds_with_3_generations_incl_initial > 0, "current() must be observed before, during and after updates");
    rep.obligation("object-level: remapped clones read", o.reads_remapped > 0, "with_new_children clones must be read");
    for (sig, w) in o.violations {
        rep.violation(&format!("object-level/{sig}"), w);
    }
    rep.finish()
}

fn main() {
    let args = Args::parse();
    std::process::exit(run(&args));
}
