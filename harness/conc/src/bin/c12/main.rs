//! C12 — row hashes depend only on the logical row value.
//!
//! The same logical rows are built in their canonical encoding (fresh, offset 0, compact) and in
//! physically different encodings of the *same data type*; `create_hashes` (fast and quality
//! state), `create_hashes_with_hasher`, `with_hashes` and `with_hashes_with_hasher` must return
//! the canonical encoding's hash vector. Equal `ScalarValue`s must have equal `Hash`.

mod val;

use arrow::array::{Array, ArrayRef, AsArray};
use arrow::datatypes::{DataType, Field, Fields, IntervalUnit, TimeUnit, UnionMode};
use datafusion_common::hash_utils::{create_hashes, create_hashes_with_hasher, with_hashes, with_hashes_with_hasher, QualityRandomState, RandomState};
use datafusion_common::ScalarValue;
use std::collections::BTreeSet;
use std::hash::{BuildHasher, BuildHasherDefault, Hash, Hasher};
use std::sync::Arc;
use val::{column_vals, domain, fold_zero_deep, fp_val, gen_rows, list_field, map_type, ree_type, union_type, vjson, Builder, DomOpts, Val, KNOBS};
use vcommon::{fp_mix, fp_str, json, Args, Json, Report, Rng};

fn main() {
    let args = Args::parse();
    if args.opt_u64("loud", 0) == 0 {
        vcommon::par::quiet_panics();
    }
    std::process::exit(run(&args));
}

// ---------------------------------------------------------------------------------------
// type catalogue
// ---------------------------------------------------------------------------------------

fn ts(u: TimeUnit, tz: Option<&str>) -> DataType {
    DataType::Timestamp(u, tz.map(|s| s.into()))
}

fn dict(k: DataType, v: DataType) -> DataType {
    DataType::Dictionary(Box::new(k), Box::new(v))
}

fn strukt(fs: Vec<DataType>) -> DataType {
    DataType::Struct(Fields::from(fs.into_iter().enumerate().map(|(i, d)| Field::new(format!("f{i}"), d, true)).collect::<Vec<_>>()))
}

fn list(d: DataType) -> DataType {
    DataType::List(list_field(d))
}

/// (family, type): the family is the row label of the evidence matrix
fn catalogue(miri: bool) -> Vec<(&'static str, DataType)> {
    use DataType::*;
    let mut t: Vec<(&'static str, DataType)> = vec![];
    let prim: Vec<DataType> = vec![
        Int8,
        Int16,
        Int32,
        Int64,
        UInt8,
        UInt16,
        UInt32,
        UInt64,
        Float16,
        Float32,
        Float64,
        Decimal32(9, 2),
        Decimal64(18, 4),
        Decimal128(20, 3),
        Decimal256(40, 5),
        Date32,
        Date64,
        Time32(TimeUnit::Second),
        Time32(TimeUnit::Millisecond),
        Time64(TimeUnit::Microsecond),
        Time64(TimeUnit::Nanosecond),
        ts(TimeUnit::Second, None),
        ts(TimeUnit::Millisecond, None),
        ts(TimeUnit::Microsecond, Some("+02:00")),
        ts(TimeUnit::Nanosecond, Some("UTC")),
        Duration(TimeUnit::Second),
        Duration(TimeUnit::Millisecond),
        Duration(TimeUnit::Microsecond),
        Duration(TimeUnit::Nanosecond),
        Interval(IntervalUnit::YearMonth),
        Interval(IntervalUnit::DayTime),
        Interval(IntervalUnit::MonthDayNano),
    ];
    if miri {
        for d in [Int8, Int64, Float32, Decimal128(20, 3), Interval(IntervalUnit::MonthDayNano)] {
            t.push(("primitive", d));
        }
    } else {
        for d in prim {
            t.push(("primitive", d));
        }
    }
    t.push(("boolean", Boolean));
    t.push(("null", Null));
    t.push(("bytes", Utf8));
    t.push(("bytes", LargeUtf8));
    t.push(("bytes", Binary));
    t.push(("bytes", LargeBinary));
    t.push(("view", Utf8View));
    t.push(("view", BinaryView));
    t.push(("fixed-size-binary", FixedSizeBinary(4)));
    if !miri {
        t.push(("fixed-size-binary", FixedSizeBinary(16)));
    }
    t.push(("dictionary", dict(Int8, Utf8)));
    t.push(("dictionary", dict(Int32, Utf8View)));
    t.push(("dictionary", dict(UInt16, Int64)));
    if !miri {
        t.push(("dictionary", dict(Int16, LargeUtf8)));
        t.push(("dictionary", dict(Int64, Float64)));
        t.push(("dictionary", dict(UInt8, Binary)));
        t.push(("dictionary", dict(UInt32, Boolean)));
        t.push(("dictionary", dict(UInt64, Decimal128(20, 3))));
        t.push(("dictionary", dict(Int32, list(Int32))));
        t.push(("dictionary", dict(Int32, strukt(vec![Int32, Utf8]))));
    }
    t.push(("run-end-encoded", ree_type(Int32, Utf8)));
    t.push(("run-end-encoded", ree_type(Int16, Int64)));
    if !miri {
        t.push(("run-end-encoded", ree_type(Int64, Float64)));
        t.push(("run-end-encoded", ree_type(Int32, Utf8View)));
        t.push(("run-end-encoded", ree_type(Int32, dict(Int8, Utf8))));
        t.push(("run-end-encoded", ree_type(Int32, list(Int32))));
    }
    t.push(("list", list(Int32)));
    t.push(("list", list(Utf8View)));
    t.push(("large-list", LargeList(list_field(Utf8))));
    t.push(("list-view", ListView(list_field(Int32))));
    t.push(("fixed-size-list", FixedSizeList(list_field(Int32), 3)));
    if !miri {
        t.push(("list", list(Utf8)));
        t.push(("list", list(Float64)));
        t.push(("list", list(dict(Int32, Utf8))));
        t.push(("list", list(strukt(vec![Int32, Utf8]))));
        t.push(("list", list(list(Int32))));
        t.push(("large-list", LargeList(list_field(Int64))));
        t.push(("large-list", LargeList(list_field(Utf8View))));
        t.push(("list-view", ListView(list_field(Utf8))));
        t.push(("list-view", LargeListView(list_field(Int16))));
        t.push(("fixed-size-list", FixedSizeList(list_field(Utf8), 2)));
        t.push(("fixed-size-list", FixedSizeList(list_field(Float32), 2)));
    }
    t.push(("struct", strukt(vec![Int32, Utf8])));
    t.push(("struct", strukt(vec![Utf8View, Float64, Boolean])));
    if !miri {
        t.push(("struct", strukt(vec![list(Int32), Int64])));
        t.push(("struct", strukt(vec![strukt(vec![Int8, Utf8]), dict(Int32, Utf8)])));
    }
    t.push(("map", map_type(Utf8, Int32)));
    if !miri {
        t.push(("map", map_type(Int32, Utf8View)));
        t.push(("map", map_type(Utf8, list(Int32))));
    }
    t.push(("union-sparse", union_type(vec![Int32, Utf8], UnionMode::Sparse)));
    t.push(("union-sparse", union_type(vec![Int32, Utf8, Float64], UnionMode::Sparse)));
    t.push(("union-dense", union_type(vec![Int32, Utf8], UnionMode::Dense)));
    if !miri {
        t.push(("union-dense", union_type(vec![Int64, Utf8View, Boolean], UnionMode::Dense)));
    }
    t
}

/// two levels of the type's nesting, e.g. `run-end-encoded<dictionary>`: names the kernel pair in a signature
fn shape(dt: &DataType) -> String {
    fn kind(dt: &DataType) -> &'static str {
        match dt {
            DataType::Dictionary(_, _) => "dictionary",
            DataType::RunEndEncoded(_, _) => "run-end-encoded",
            DataType::List(_) => "list",
            DataType::LargeList(_) => "large-list",
            DataType::ListView(_) | DataType::LargeListView(_) => "list-view",
            DataType::FixedSizeList(_, _) => "fixed-size-list",
            DataType::Struct(_) => "struct",
            DataType::Map(_, _) => "map",
            DataType::Union(_, UnionMode::Sparse) => "union-sparse",
            DataType::Union(_, UnionMode::Dense) => "union-dense",
            DataType::Utf8 | DataType::LargeUtf8 | DataType::Binary | DataType::LargeBinary => "bytes",
            DataType::Utf8View | DataType::BinaryView => "view",
            DataType::FixedSizeBinary(_) => "fixed-size-binary",
            DataType::Boolean => "boolean",
            DataType::Null => "null",
            DataType::Float16 | DataType::Float32 | DataType::Float64 => "float",
            _ => "primitive",
        }
    }
    let children: Vec<&DataType> = match dt {
        DataType::Dictionary(_, v) => vec![v.as_ref()],
        DataType::RunEndEncoded(_, v) => vec![v.data_type()],
        DataType::List(f) | DataType::LargeList(f) | DataType::ListView(f) | DataType::LargeListView(f) | DataType::FixedSizeList(f, _) => vec![f.data_type()],
        _ => vec![],
    };
    match children.first() {
        Some(c) => format!("{}<{}>", kind(dt), kind(c)),
        None => kind(dt).to_string(),
    }
}

// ---------------------------------------------------------------------------------------
// one case
// ---------------------------------------------------------------------------------------

struct Column {
    family: &'static str,
    dt: DataType,
    vals: Vec<Val>,
    canon: ArrayRef,
    enc: ArrayRef,
    applied: BTreeSet<&'static str>,
}

#[derive(Clone)]
struct CaseSpec {
    /// indices into the catalogue
    types: Vec<usize>,
    /// knobs enabled for the encoded columns
    knobs: Vec<&'static str>,
    forced: bool,
    index: u64,
    max_rows: usize,
}

fn hasher_apis() -> Vec<&'static str> {
    vec![
        "create_hashes/fast-seed0",
        "create_hashes/fast-seedN",
        "create_hashes/quality",
        "create_hashes_with_hasher/foldhash",
        "create_hashes_with_hasher/siphash",
    ]
}

fn hash_with(api: &str, cols: &[ArrayRef], n: usize, seed_n: u64) -> Result<Vec<u64>, String> {
    let mut h = vec![0u64; n];
    let r = match api {
        "create_hashes/fast-seed0" => create_hashes(cols, &RandomState::with_seed(0), &mut h).map(|_| ()),
        "create_hashes/fast-seedN" => create_hashes(cols, &RandomState::with_seed(seed_n), &mut h).map(|_| ()),
        "create_hashes/quality" => create_hashes(cols, &QualityRandomState::with_seed(seed_n), &mut h).map(|_| ()),
        "create_hashes_with_hasher/foldhash" => create_hashes_with_hasher(cols, &RandomState::with_seed(seed_n), &mut h).map(|_| ()),
        "create_hashes_with_hasher/siphash" => create_hashes_with_hasher(cols, &BuildHasherDefault::<std::collections::hash_map::DefaultHasher>::default(), &mut h).map(|_| ()),
        _ => unreachable!(),
    };
    r.map_err(|e| e.to_string())?;
    Ok(h)
}

/// the buffered entry point that belongs to `api`
fn buffered_with(api: &str, cols: &[ArrayRef], seed_n: u64) -> Result<Vec<u64>, String> {
    let r = match api {
        "create_hashes/fast-seed0" => with_hashes(cols, &RandomState::with_seed(0), |h| Ok(h.to_vec())),
        "create_hashes/fast-seedN" => with_hashes(cols, &RandomState::with_seed(seed_n), |h| Ok(h.to_vec())),
        "create_hashes/quality" => with_hashes(cols, &QualityRandomState::with_seed(seed_n), |h| Ok(h.to_vec())),
        "create_hashes_with_hasher/foldhash" => with_hashes_with_hasher(cols, &RandomState::with_seed(seed_n), |h| Ok(h.to_vec())),
        "create_hashes_with_hasher/siphash" => with_hashes_with_hasher(cols, &BuildHasherDefault::<std::collections::hash_map::DefaultHasher>::default(), |h| Ok(h.to_vec())),
        _ => unreachable!(),
    };
    r.map_err(|e| e.to_string())
}

fn describe(c: &Column) -> Json {
    let mut phys = format!("{:?}", c.enc.to_data());
    if phys.len() > 3000 {
        phys.truncate(3000);
        phys.push_str("...");
    }
    json!({
        "type": c.dt.to_string(),
        "logical_rows": c.vals.iter().map(vjson).collect::<Vec<_>>(),
        "physical_transforms_applied": c.applied.iter().collect::<Vec<_>>(),
        "encoded_array_data": phys,
    })
}

struct CaseOut {
    fp: u64,
    nontrivial: bool,
    rows: usize,
    cols: Vec<(&'static str, String, BTreeSet<&'static str>)>,
    comparisons: u64,
    violations: Vec<(String, Json)>,
    harness_error: Option<String>,
    unsupported: Option<String>,
    dict_vs_plain: Option<bool>,
}

fn run_case(cat: &[(&'static str, DataType)], spec: &CaseSpec, seed: u64, stage_tag: u64, selftest: u64) -> CaseOut {
    let mut rng = Rng::derive(seed, &[12, stage_tag, spec.index]);
    let n = if spec.forced {
        // systematic pairs: enough rows, repeats and NULLs for the transform to have something to act on
        4 + rng.usize(spec.max_rows.saturating_sub(3).max(1))
    } else {
        match rng.below(12) {
            0 => 0,
            1 => 1,
            2..=6 => 1 + rng.usize(spec.max_rows.min(9)),
            _ => 1 + rng.usize(spec.max_rows),
        }
    };
    let seed_n = rng.next_u64();
    let mut cols: Vec<Column> = vec![];
    for (ci, ti) in spec.types.iter().enumerate() {
        let (family, dt) = &cat[*ti];
        let dom = domain(dt, DomOpts { neg_zero: false, nan2: true, huge: false }, 4 + rng.usize(9), &mut rng);
        let null_of_8 = if spec.forced { *rng.pick(&[2u64, 3]) } else { *rng.pick(&[0u64, 0, 2, 5, 8]) };
        let runny = spec.forced || matches!(dt, DataType::RunEndEncoded(_, _)) || rng.chance(1, 4);
        let vals = gen_rows(dt, &dom, n, null_of_8, runny, &mut rng);
        let canon = Builder::canonical(&mut rng).build(dt, &vals, true);
        // in multi-column cases some columns stay canonical so that the combine step sees mixtures
        let keep_canonical = spec.types.len() > 1 && !spec.forced && rng.chance(1, 4) && ci > 0;
        let (enc, applied) = if keep_canonical {
            (canon.clone(), BTreeSet::new())
        } else {
            let mut b = Builder::with_knobs(&mut rng, &spec.knobs, spec.forced);
            let a = b.build(dt, &vals, true);
            (a, b.applied.clone())
        };
        cols.push(Column { family, dt: dt.clone(), vals, canon, enc, applied });
    }
    let mut out = CaseOut {
        fp: 0,
        nontrivial: false,
        rows: n,
        cols: cols.iter().map(|c| (c.family, c.dt.to_string(), c.applied.clone())).collect(),
        comparisons: 0,
        violations: vec![],
        harness_error: None,
        unsupported: None,
        dict_vs_plain: None,
    };
    let mut fp = fp_str("c12");
    for c in &cols {
        fp = fp_mix(fp, fp_str(&c.dt.to_string()));
        for k in &c.applied {
            fp = fp_mix(fp, fp_str(k));
        }
        for v in &c.vals {
            fp = fp_mix(fp, fp_val(v));
        }
    }
    out.fp = fp;
    out.nontrivial = n > 0 && cols.iter().any(|c| !c.applied.is_empty()) && cols.iter().any(|c| c.vals.iter().any(|v| !matches!(v, Val::Null)));
    // the encodings must decode to the rows they were built from (guards the harness itself)
    for c in &cols {
        for (what, a) in [("canonical", &c.canon), ("encoded", &c.enc)] {
            if a.len() != n || a.data_type() != &c.dt {
                out.harness_error = Some(format!("{what} array of {} has {} rows / type {}", c.dt, a.len(), a.data_type()));
                return out;
            }
            let got: Vec<Val> = column_vals(a.as_ref()).iter().map(|v| fold_zero_deep(&c.dt, v)).collect();
            let want: Vec<Val> = c.vals.iter().map(|v| fold_zero_deep(&c.dt, v)).collect();
            if got != want {
                out.harness_error = Some(format!("{what} encoding of {} (transforms {:?}) does not decode to its logical rows", c.dt, c.applied));
                return out;
            }
        }
    }
    let canon: Vec<ArrayRef> = cols.iter().map(|c| c.canon.clone()).collect();
    let enc: Vec<ArrayRef> = cols.iter().map(|c| c.enc.clone()).collect();
    let family = if cols.len() == 1 { cols[0].family.to_string() } else { format!("{}-columns", cols.len()) };
    let witness = |what: &str, api: &str, row: Option<usize>, expected: &[u64], observed: &[u64]| -> Json {
        json!({
            "what": what,
            "api": api,
            "hash_seed": seed_n,
            "first_differing_row": row,
            "columns": cols.iter().map(describe).collect::<Vec<_>>(),
            "expected_hashes_of_canonical_encoding": expected.iter().map(|h| format!("{h:#018x}")).collect::<Vec<_>>(),
            "observed_hashes": observed.iter().map(|h| format!("{h:#018x}")).collect::<Vec<_>>(),
        })
    };
    // which column's encoding is responsible: all other columns canonical, this one encoded, hashes change
    let culprit = |api: &str, expected: &[u64]| -> String {
        if cols.len() == 1 {
            return format!("{}/single-column", shape(&cols[0].dt));
        }
        for (j, c) in cols.iter().enumerate() {
            let mut mixed = canon.clone();
            mixed[j] = enc[j].clone();
            if let Ok(h) = hash_with(api, &mixed, n, seed_n) {
                if h[..] != expected[..] {
                    return format!("{}/{}", shape(&c.dt), if j == 0 { "first-of-several-columns" } else { "later-column" });
                }
            }
        }
        "only-in-combination".to_string()
    };
    let mut corrupted = false;
    // kind -> (culprit, apis, witness of the first api)
    let mut found: Vec<(String, String, Vec<&'static str>, Json)> = vec![];
    let mut note = |kind: &str, who: String, api: &'static str, w: Json| {
        if let Some(e) = found.iter_mut().find(|e| e.0 == kind && e.1 == who) {
            e.2.push(api);
        } else {
            found.push((kind.to_string(), who, vec![api], w));
        }
    };
    for api in hasher_apis() {
        let expected = match hash_with(api, &canon, n, seed_n) {
            Ok(h) => h,
            Err(e) => {
                out.unsupported = Some(format!("{api}: {}", e.chars().take(90).collect::<String>()));
                continue;
            }
        };
        let mut observed = match hash_with(api, &enc, n, seed_n) {
            Ok(h) => h,
            Err(e) => {
                note("error-on-encoding", family.clone(), api, witness(&format!("the canonical encoding hashes, this encoding returns an error: {e}"), api, None, &expected, &[]));
                continue;
            }
        };
        if selftest == 1 && !corrupted && n > 0 && out.nontrivial {
            observed[n / 2] ^= 1 << 17; // self-test: corrupt the observed hash vector
            corrupted = true;
        }
        out.comparisons += 1;
        if observed != expected {
            let row = (0..n).find(|i| observed[*i] != expected[*i]);
            note("hash-depends-on-encoding", culprit(api, &expected), api, witness("same logical rows, same data types, different row hashes", api, row, &expected, &observed));
            continue;
        }
        // buffered entry point == direct entry point (on the encoded arrays)
        match buffered_with(api, &enc, seed_n) {
            Ok(mut b) => {
                if selftest == 2 && !corrupted && n > 0 {
                    b[0] = b[0].wrapping_add(1);
                    corrupted = true;
                }
                out.comparisons += 1;
                if b != observed {
                    let row = (0..n.min(b.len())).find(|i| b[*i] != observed[*i]);
                    note("buffered-differs-from-direct", family.clone(), api, witness("with_hashes* returned other hashes than create_hashes* for the same arrays", api, row, &observed, &b));
                }
            }
            Err(e) => note("buffered-error", family.clone(), api, witness(&format!("with_hashes* failed where create_hashes* succeeded: {e}"), api, None, &observed, &[])),
        }
        // different batch splits: hash of a slice == slice of the hashes
        if n > 1 {
            let off = rng.usize(n);
            let len = 1 + rng.usize(n - off);
            let sliced: Vec<ArrayRef> = enc.iter().map(|a| a.slice(off, len)).collect();
            match hash_with(api, &sliced, len, seed_n) {
                Ok(h) => {
                    out.comparisons += 1;
                    if h[..] != expected[off..off + len] {
                        let row = (0..len).find(|i| h[*i] != expected[off + *i]).map(|i| i + off);
                        note(
                            "hash-depends-on-batch-split",
                            family.clone(),
                            api,
                            witness(&format!("hashing rows {off}..{} as their own batch gives other hashes than the same rows inside the full batch", off + len), api, row, &expected[off..off + len], &h),
                        );
                    }
                }
                Err(e) => note("error-on-slice", family.clone(), api, witness(&format!("slice {off}+{len} returns an error: {e}"), api, None, &expected, &[])),
            }
        }
    }
    for (kind, who, apis, mut w) in found {
        if let Json::Object(m) = &mut w {
            m.insert("apis_showing_it".into(), json!(apis));
        }
        out.violations.push((format!("{kind}/{who}"), w));
    }
    // informational only: Dictionary<K, V> against plain V (a different data type, not promised by the docs)
    if cols.len() == 1 {
        if let DataType::Dictionary(_, vt) = &cols[0].dt {
            let plain = Builder::canonical(&mut rng).build(vt, &cols[0].vals, true);
            if let (Ok(a), Ok(b)) = (hash_with("create_hashes/fast-seed0", &[plain], n, 0), hash_with("create_hashes/fast-seed0", &canon, n, 0)) {
                out.dict_vs_plain = Some(a == b);
            }
        }
    }
    out
}

// ---------------------------------------------------------------------------------------
// ScalarValue: Eq => equal Hash
// ---------------------------------------------------------------------------------------

fn std_hash(s: &ScalarValue) -> u64 {
    let mut h = std::collections::hash_map::DefaultHasher::new();
    s.hash(&mut h);
    h.finish()
}

fn fold_hash(s: &ScalarValue) -> u64 {
    RandomState::with_seed(7).hash_one(s)
}

/// scalars for row `i` of `a`, built through different routes
fn scalars_of(a: &ArrayRef, i: usize) -> Vec<(&'static str, ScalarValue)> {
    let mut out = vec![];
    let Ok(s) = ScalarValue::try_from_array(a.as_ref(), i) else { return out };
    if let Ok(arr) = s.to_array() {
        if let Ok(rt) = ScalarValue::try_from_array(arr.as_ref(), 0) {
            out.push(("to_array-roundtrip", rt));
        }
    }
    if let Ok(arr) = s.to_array_of_size(3) {
        if let Ok(rt) = ScalarValue::try_from_array(arr.as_ref(), 2) {
            out.push(("to_array_of_size-roundtrip", rt));
        }
    }
    // a length-1 slice of the (physically arbitrary) array wrapped directly
    if !a.is_null(i) {
        let one = a.slice(i, 1);
        match a.data_type() {
            DataType::List(_) => out.push(("slice-as-scalar", ScalarValue::List(Arc::new(one.as_list::<i32>().clone())))),
            DataType::LargeList(_) => out.push(("slice-as-scalar", ScalarValue::LargeList(Arc::new(one.as_list::<i64>().clone())))),
            DataType::FixedSizeList(_, _) => out.push(("slice-as-scalar", ScalarValue::FixedSizeList(Arc::new(one.as_fixed_size_list().clone())))),
            DataType::Struct(_) => out.push(("slice-as-scalar", ScalarValue::Struct(Arc::new(one.as_struct().clone())))),
            DataType::Map(_, _) => out.push(("slice-as-scalar", ScalarValue::Map(Arc::new(one.as_map().clone())))),
            DataType::ListView(_) => out.push(("slice-as-scalar", ScalarValue::ListView(Arc::new(one.as_list_view::<i32>().clone())))),
            _ => {}
        }
    }
    // lossless cast round trips
    let wider = match a.data_type() {
        DataType::Int8 | DataType::Int16 | DataType::Int32 => Some(DataType::Int64),
        DataType::UInt8 | DataType::UInt16 | DataType::UInt32 => Some(DataType::UInt64),
        DataType::Utf8 => Some(DataType::LargeUtf8),
        DataType::Utf8View => Some(DataType::Utf8),
        DataType::Binary => Some(DataType::LargeBinary),
        DataType::Date32 => Some(DataType::Date64),
        _ => None,
    };
    if let Some(w) = wider {
        if let Ok(up) = s.cast_to(&w) {
            if let Ok(back) = up.cast_to(a.data_type()) {
                out.push(("cast-roundtrip", back));
            }
        }
    }
    // the time zone is not part of Eq
    match &s {
        ScalarValue::TimestampSecond(v, _) => out.push(("other-timezone", ScalarValue::TimestampSecond(*v, Some("+09:00".into())))),
        ScalarValue::TimestampMillisecond(v, _) => out.push(("other-timezone", ScalarValue::TimestampMillisecond(*v, Some("+09:00".into())))),
        ScalarValue::TimestampMicrosecond(v, _) => out.push(("other-timezone", ScalarValue::TimestampMicrosecond(*v, None))),
        ScalarValue::TimestampNanosecond(v, _) => out.push(("other-timezone", ScalarValue::TimestampNanosecond(*v, None))),
        ScalarValue::Utf8(Some(x)) => {
            out.push(("from-str", ScalarValue::from(x.as_str())));
            out.push(("new_utf8", ScalarValue::new_utf8(x.clone())));
        }
        ScalarValue::Int32(Some(x)) => {
            if let Ok(p) = ScalarValue::try_from_string(x.to_string(), &DataType::Int32) {
                out.push(("try_from_string", p));
            }
            out.push(("from-native", ScalarValue::from(*x)));
        }
        ScalarValue::Float64(Some(x)) => out.push(("from-native", ScalarValue::from(*x))),
        ScalarValue::Boolean(Some(x)) => out.push(("from-native", ScalarValue::from(*x))),
        _ => {}
    }
    if a.is_null(i) {
        if let Ok(nul) = ScalarValue::try_new_null(a.data_type()) {
            out.push(("try_new_null", nul));
        }
    }
    out.insert(0, ("try_from_array", s));
    out
}

struct ScalarOut {
    fp: u64,
    family: &'static str,
    equal_pairs: u64,
    unequal_pairs: u64,
    routes: BTreeSet<&'static str>,
    violations: Vec<(String, Json)>,
    unsupported: bool,
}

fn run_scalar_case(cat: &[(&'static str, DataType)], ti: usize, index: u64, seed: u64, stage_tag: u64, max_rows: usize, selftest: u64) -> ScalarOut {
    let mut rng = Rng::derive(seed, &[12, stage_tag, 777, index]);
    let (family, dt) = &cat[ti];
    let n = 1 + rng.usize(max_rows.min(8));
    let dom = domain(dt, DomOpts { neg_zero: true, nan2: true, huge: false }, 3 + rng.usize(5), &mut rng);
    let vals = gen_rows(dt, &dom, n, *rng.pick(&[0u64, 2, 4]), true, &mut rng);
    let canon = Builder::canonical(&mut rng).build(dt, &vals, true);
    let knobs: Vec<&'static str> = KNOBS.iter().copied().filter(|k| *k != "neg-zero").collect();
    let mut b = Builder::with_knobs(&mut rng, &knobs, false);
    let enc = b.build(dt, &vals, true);
    let mut out = ScalarOut { fp: fp_mix(fp_str(&dt.to_string()), index), family, equal_pairs: 0, unequal_pairs: 0, routes: BTreeSet::new(), violations: vec![], unsupported: false };
    let mut corrupted = false;
    for i in 0..n {
        let mut all = scalars_of(&canon, i);
        if all.is_empty() {
            out.unsupported = true;
            return out;
        }
        for (r, s) in scalars_of(&enc, i) {
            all.push((if r == "try_from_array" { "try_from_array(other physical encoding)" } else { r }, s));
        }
        for x in 0..all.len() {
            for y in x + 1..all.len() {
                let (ra, a) = &all[x];
                let (rb, bb) = &all[y];
                if a == bb {
                    out.equal_pairs += 1;
                    out.routes.insert(ra);
                    out.routes.insert(rb);
                    let (mut ha, hb) = (std_hash(a), std_hash(bb));
                    if selftest == 3 && !corrupted {
                        ha ^= 1;
                        corrupted = true;
                    }
                    if ha != hb || fold_hash(a) != fold_hash(bb) {
                        out.violations.push((
                            format!("equal-scalars-different-hash/{family}"),
                            json!({
                                "what": "two ScalarValues compare equal but hash differently",
                                "type": dt.to_string(),
                                "logical_value": vjson(&vals[i]),
                                "left": {"built_by": ra, "debug": format!("{a:?}").chars().take(600).collect::<String>(), "std_hash": format!("{ha:#x}")},
                                "right": {"built_by": rb, "debug": format!("{bb:?}").chars().take(600).collect::<String>(), "std_hash": format!("{hb:#x}")},
                            }),
                        ));
                    }
                } else {
                    out.unequal_pairs += 1;
                }
            }
        }
    }
    out
}

// ---------------------------------------------------------------------------------------
// thread-local buffer behaviour of with_hashes
// ---------------------------------------------------------------------------------------

fn buffer_checks(rep: &Report, big: bool) {
    use arrow::array::Int32Array;
    let rs = RandomState::with_seed(3);
    let small: ArrayRef = Arc::new(Int32Array::from(vec![Some(1), None, Some(3)]));
    let direct = |a: &ArrayRef| {
        let mut h = vec![0u64; a.len()];
        create_hashes([a], &rs, &mut h).unwrap();
        h
    };
    // documented: a reentrant call is an error, not a panic, and leaves the buffer usable
    let r = vcommon::par::guard(|| with_hashes([&small], &rs, |_outer| with_hashes([&small], &rs, |inner| Ok(inner.to_vec()))));
    match r {
        Ok(Err(_)) => rep.count("with_hashes_reentrant_call_is_error", 1),
        Ok(Ok(_)) => rep.violation("reentrant-with_hashes-succeeded", json!({"what": "with_hashes documents an error for a reentrant call on the same thread; the nested call returned Ok"})),
        Err(p) => rep.violation("reentrant-with_hashes-panicked", json!({"what": "with_hashes documents an error for a reentrant call; it panicked", "panic": p})),
    }
    let after = with_hashes([&small], &rs, |h| Ok(h.to_vec()));
    if after.as_ref().ok() != Some(&direct(&small)) {
        rep.violation("with_hashes-after-reentrancy", json!({"what": "with_hashes after a rejected reentrant call differs from create_hashes", "observed": format!("{after:?}")}));
    }
    // an error from the callback must not poison the buffer
    let _ = with_hashes([&small], &rs, |_h| -> datafusion_common::Result<()> { Err(datafusion_common::DataFusionError::Execution("callback error".into())) });
    let after = with_hashes([&small], &rs, |h| Ok(h.to_vec()));
    if after.as_ref().ok() != Some(&direct(&small)) {
        rep.violation("with_hashes-after-callback-error", json!({"what": "with_hashes after a failing callback differs from create_hashes", "observed": format!("{after:?}")}));
    }
    rep.count("with_hashes_after_callback_error", 1);
    if big {
        // larger than the retained buffer (524,288 entries): truncated afterwards, next call still right
        let n = 600_000;
        let bigarr: ArrayRef = Arc::new(Int32Array::from_iter_values((0..n as i32).map(|i| i.wrapping_mul(7919))));
        let got = with_hashes([&bigarr], &rs, |h| Ok(h.to_vec()));
        if got.as_ref().ok() != Some(&direct(&bigarr)) {
            rep.violation("with_hashes-oversized", json!({"what": "with_hashes on 600000 rows differs from create_hashes"}));
        }
        for a in [&small, &bigarr, &small] {
            let got = with_hashes([a], &rs, |h| Ok(h.to_vec()));
            if got.as_ref().ok() != Some(&direct(a)) {
                rep.violation("with_hashes-after-oversized", json!({"what": "with_hashes after the buffer was truncated differs from create_hashes", "rows": a.len()}));
            }
        }
        rep.count("with_hashes_oversized_buffer_rounds", 1);
    }
}

// ---------------------------------------------------------------------------------------
// driver
// ---------------------------------------------------------------------------------------

enum Work {
    Hash(CaseSpec),
    Scalar { ti: usize, index: u64 },
}

fn run(args: &Args) -> i32 {
    let rep = Report::new("C12", "exploration", args);
    let miri = args.stage == "miri";
    let selftest = args.opt_u64("selftest", 0);
    rep.set_rule(
        "one case = 1..4 key columns of catalogue types x one set of logical rows x one choice of physical transforms; every hashing API is run on the canonical \
         encoding (oracle) and on the transformed encoding, on the buffered entry point and on a random sub-batch; systematic part: every (type, single transform) pair \
         that the type admits, then a seeded random tail; distinct = fingerprint of (types, transforms that took effect, logical rows); non-trivial = at least one \
         transform took physical effect and at least one row is non-NULL",
    );
    rep.assume("the canonical encoding (fresh arrays, offset 0, compact children, no validity buffer unless a NULL exists, first-seen dictionary, maximal runs) defines the expected hash");
    rep.assume("hash buffers are zero-filled before every call, as every caller in the engine does (NULL rows keep the incoming buffer value by design)");
    rep.assume("-0.0 and +0.0 hash equal at every float leaf (documented in hash_utils.rs `hash_float_value`); NaN payloads are not folded and are kept identical between encodings");
    rep.assume("encodings of different data types (Dictionary<K,V> vs V, Utf8 vs Utf8View, REE vs plain) are not compared: the docs of create_hashes promise nothing there; Dictionary vs plain is recorded as information only");
    rep.assume("create_hashes_with_hasher is only compared with itself (its docs disclaim bit equality with create_hashes)");
    let cat = catalogue(miri);
    let only = args.opt_str("only").map(|s| s.to_string());
    let type_ok = |i: usize| only.as_ref().map(|o| cat[i].1.to_string().contains(o.as_str()) || cat[i].0 == o).unwrap_or(true);
    let max_rows = if miri { 6 } else { 40 };
    let mut work: Vec<Work> = vec![];
    let mut index = 0u64;
    // 1. systematic: every type x every single transform (forced), a few value sets each
    let memcheck = args.stage == "memcheck"; // valgrind: the same workload, about two orders of magnitude smaller
    let value_sets = if miri { 1 } else if memcheck { 2 } else { args.bound("value_sets", 3, 12) };
    for ti in 0..cat.len() {
        if !type_ok(ti) {
            continue;
        }
        for k in KNOBS {
            for _ in 0..value_sets {
                index += 1;
                work.push(Work::Hash(CaseSpec { types: vec![ti], knobs: vec![*k], forced: true, index, max_rows }));
            }
        }
        // the canonical encoding against itself: split / buffered checks on plain arrays
        index += 1;
        work.push(Work::Hash(CaseSpec { types: vec![ti], knobs: vec![], forced: false, index, max_rows }));
    }
    // 2. random tail: 1..4 columns, random transform mixes
    let tail = if miri {
        args.bound("tail", 100, 100)
    } else if memcheck {
        args.bound("tail", 20_000, 60_000)
    } else {
        args.bound("tail", 400_000, 12_000_000)
    };
    let mut trng = Rng::derive(args.seed, &[12, 999]);
    let eligible: Vec<usize> = (0..cat.len()).filter(|i| type_ok(*i)).collect();
    for _ in 0..tail {
        if eligible.is_empty() {
            break;
        }
        index += 1;
        let ncols = 1 + trng.weighted(&[4, 3, 2, 2]);
        let types: Vec<usize> = (0..ncols).map(|_| *trng.pick(&eligible)).collect();
        let knobs: Vec<&'static str> = KNOBS.iter().copied().filter(|_| trng.chance(2, 3)).collect();
        work.push(Work::Hash(CaseSpec { types, knobs, forced: false, index, max_rows }));
    }
    // 3. scalars
    let scalar_rounds = if miri { 1 } else if memcheck { 5 } else { args.bound("scalar_rounds", 30, 1200) };
    for ti in 0..cat.len() {
        if !type_ok(ti) {
            continue;
        }
        for _ in 0..scalar_rounds {
            index += 1;
            work.push(Work::Scalar { ti, index });
        }
    }
    let stage_tag = if miri { 1 } else { 0 };
    let seed = args.seed;
    let workers = if cfg!(miri) { 1 } else { args.workers };
    let reported: std::sync::Mutex<std::collections::BTreeMap<String, u64>> = std::sync::Mutex::new(Default::default());
    let matrix: std::sync::Mutex<std::collections::BTreeMap<String, std::collections::BTreeMap<&'static str, u64>>> = std::sync::Mutex::new(Default::default());
    let report_violation = |sig: String, detail: Json| {
        let nth = {
            let mut g = reported.lock().unwrap();
            let e = g.entry(sig.clone()).or_insert(0);
            *e += 1;
            *e
        };
        rep.count(&format!("violating_cases/{sig}"), 1);
        if nth <= 2 {
            rep.violation(&sig, detail);
        }
    };
    vcommon::par::run(workers, work.into_iter(), |w| match w {
        Work::Hash(spec) => {
            // the systematic part does not depend on the seed
            let case_seed = if spec.forced { 0 } else { seed };
            let r = vcommon::par::guard(|| run_case(&cat, &spec, case_seed, stage_tag, selftest));
            let out = match r {
                Ok(o) => o,
                Err(p) => {
                    let types: Vec<String> = spec.types.iter().map(|t| cat[*t].1.to_string()).collect();
                    if p.contains("harness:") {
                        rep.inconclusive(&format!("harness error building {types:?} with {:?}: {p}", spec.knobs));
                    } else {
                        rep.case(fp_mix(spec.index, 1), true);
                        report_violation(
                            format!("panic/{}", if types.len() == 1 { cat[spec.types[0]].0.to_string() } else { format!("{}-columns", types.len()) }),
                            json!({"what": "hashing panicked", "panic": p, "types": types, "transforms_enabled": spec.knobs, "case_index": spec.index, "seed": case_seed}),
                        );
                    }
                    return;
                }
            };
            if let Some(e) = &out.harness_error {
                rep.inconclusive(&format!("harness error: {e}"));
                return;
            }
            if spec.forced && out.cols.iter().all(|c| c.2.is_empty()) {
                // the transform does not apply to this type / these rows: not a case
                rep.count("systematic_pairs_without_effect", 1);
                return;
            }
            rep.case(out.fp, out.nontrivial);
            rep.count("hash_vector_comparisons", out.comparisons);
            rep.count("rows_hashed", (out.rows * out.cols.len()) as u64);
            rep.count(&format!("cases_with_columns/{}", out.cols.len()), 1);
            if let Some(u) = &out.unsupported {
                rep.skip(&format!("unsupported: {u}"));
            }
            {
                let mut m = matrix.lock().unwrap();
                for (_, ty, applied) in &out.cols {
                    let row = m.entry(ty.clone()).or_default();
                    for k in applied {
                        *row.entry(*k).or_insert(0) += 1;
                    }
                    if applied.is_empty() {
                        *row.entry("(canonical)").or_insert(0) += 1;
                    }
                }
            }
            for (family, ty, applied) in &out.cols {
                rep.seen("type", ty);
                rep.count(&format!("cases/{family}"), 1);
                for k in applied {
                    rep.count(&format!("matrix/{family}/{k}"), 1);
                }
                if applied.is_empty() {
                    rep.count(&format!("matrix/{family}/(canonical)"), 1);
                }
            }
            if let Some(eq) = out.dict_vs_plain {
                rep.count(if eq { "info_dictionary_equals_plain_single_column" } else { "info_dictionary_differs_from_plain_single_column" }, 1);
            }
            if rep.want_sample() && out.nontrivial && out.cols.len() > 1 {
                rep.sample(json!({"columns": out.cols.iter().map(|c| json!({"type": c.1, "transforms": c.2.iter().collect::<Vec<_>>()})).collect::<Vec<_>>(), "rows": out.rows, "comparisons": out.comparisons}));
            }
            for (sig, detail) in out.violations {
                report_violation(sig, detail);
            }
        }
        Work::Scalar { ti, index } => {
            let r = vcommon::par::guard(|| run_scalar_case(&cat, ti, index, seed, stage_tag, max_rows, selftest));
            match r {
                Ok(o) => {
                    if o.unsupported {
                        rep.skip(&format!("ScalarValue::try_from_array unsupported for {}", cat[ti].1));
                        return;
                    }
                    rep.case(o.fp, o.equal_pairs > 0);
                    rep.count("scalar_equal_pairs_hash_compared", o.equal_pairs);
                    rep.count("scalar_unequal_pairs", o.unequal_pairs);
                    rep.count(&format!("scalar_cases/{}", o.family), 1);
                    for r in &o.routes {
                        rep.seen("scalar-construction-route", r);
                    }
                    for (sig, detail) in o.violations {
                        report_violation(sig, detail);
                    }
                }
                Err(p) => {
                    if p.contains("harness:") {
                        rep.inconclusive(&format!("harness error in scalar case for {}: {p}", cat[ti].1));
                    } else {
                        rep.case(fp_mix(index, 2), true);
                        report_violation(format!("scalar-panic/{}", cat[ti].0), json!({"what": "building / comparing / hashing scalars panicked", "panic": p, "type": cat[ti].1.to_string(), "case_index": index}));
                    }
                }
            }
        }
    });
    if only.is_none() {
        let r = vcommon::par::guard(|| buffer_checks(&rep, !miri));
        if let Err(p) = r {
            rep.violation("with_hashes-buffer-panic", json!({"what": "thread-local buffer checks panicked", "panic": p}));
        }
    }
    // coverage obligations: every family met under a transform, every transform took effect somewhere
    if only.is_none() {
        let families: BTreeSet<&str> = cat.iter().map(|c| c.0).collect();
        let missing: Vec<&str> = families
            .iter()
            .copied()
            .filter(|f| *f != "null" && !KNOBS.iter().any(|k| rep.get_count(&format!("matrix/{f}/{k}")) > 0))
            .collect();
        rep.obligation("every-type-family-under-some-transform", missing.is_empty(), &format!("families never physically transformed: {missing:?}"));
        let dead: Vec<&str> = KNOBS.iter().copied().filter(|k| !families.iter().any(|f| rep.get_count(&format!("matrix/{f}/{k}")) > 0)).collect();
        if miri {
            rep.extra("transforms_without_effect_in_this_reduced_run", json!(dead));
        } else {
            rep.obligation("every-transform-took-effect", dead.is_empty(), &format!("transforms that never took effect: {dead:?}"));
        }
        let multi = rep.get_count("cases_with_columns/2") + rep.get_count("cases_with_columns/3") + rep.get_count("cases_with_columns/4");
        rep.obligation("multi-column-combine-exercised", multi > 0, "no case with 2..4 key columns");
        if selftest == 0 {
            rep.obligation("scalar-equal-pairs-observed", rep.get_count("scalar_equal_pairs_hash_compared") > 0, "no pair of equal ScalarValues was built");
        }
    }
    rep.extra("matrix_type_x_transform", json!(*matrix.lock().unwrap()));
    rep.extra("catalogue_types", json!(cat.len()));
    rep.extra("transforms", json!(KNOBS));
    rep.extra("hash_apis", json!(hasher_apis()));
    rep.finish()
}
