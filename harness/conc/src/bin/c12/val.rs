//! Logical value model shared by C12 and C13 (C13 includes this file by `#[path]`).
//!
//! * `Val`      – one logical cell (NULL, bool, integer-like, float bits, bytes, list, struct, union)
//! * `Builder`  – turns a column of `Val`s into an Arrow array of a given `DataType`. With no knob
//!                enabled the result is the canonical encoding (fresh, offset 0, compact). Every
//!                knob is a *physical* variation that must not change the logical rows.
//! * `val_at`   – independent decoder (array, row) -> `Val`, used to validate the builder itself
//!                and to read the arrays the engine hands back.
#![allow(dead_code)]

use arrow::array::types::*;
use arrow::array::*;
use arrow::buffer::{BooleanBuffer, Buffer, NullBuffer, OffsetBuffer, ScalarBuffer};
use arrow::datatypes::*;
use half::f16;
use std::collections::{BTreeSet, HashMap};
use std::sync::Arc;
use vcommon::{json, Json, Rng};

#[derive(Clone, Debug, PartialEq, Eq, Hash, PartialOrd, Ord)]
pub enum Val {
    Null,
    Bool(bool),
    /// every integer-like native (ints, dates, times, timestamps, durations, decimals, packed intervals)
    Int(i128),
    /// raw bits of a float in its own width (zero extended)
    F(u64),
    Bytes(Vec<u8>),
    /// list-likes; a map is a list of `Struct([key, value])`
    List(Vec<Val>),
    Struct(Vec<Val>),
    Union(i8, Box<Val>),
}

impl Val {
    pub fn is_null(&self) -> bool {
        matches!(self, Val::Null)
    }
}

pub fn vjson(v: &Val) -> Json {
    match v {
        Val::Null => Json::Null,
        Val::Bool(b) => json!(b),
        Val::Int(i) => {
            if let Ok(x) = i64::try_from(*i) {
                json!(x)
            } else {
                json!(i.to_string())
            }
        }
        Val::F(b) => json!(format!("fbits:{b:#x}")),
        Val::Bytes(b) => {
            if b.len() > 96 {
                json!(format!("bytes(len={},fp={:x},head={})", b.len(), vcommon::fp_bytes(b), String::from_utf8_lossy(&b[..24])))
            } else if let Ok(s) = std::str::from_utf8(b) {
                if s.chars().all(|c| !c.is_control()) {
                    json!(s)
                } else {
                    json!(format!("hex:{}", hex(b)))
                }
            } else {
                json!(format!("hex:{}", hex(b)))
            }
        }
        Val::List(xs) => Json::Array(xs.iter().map(vjson).collect()),
        Val::Struct(xs) => json!({"struct": xs.iter().map(vjson).collect::<Vec<_>>()}),
        Val::Union(t, x) => json!({"union": t, "v": vjson(x)}),
    }
}

fn hex(b: &[u8]) -> String {
    b.iter().map(|x| format!("{x:02x}")).collect()
}

pub fn row_json(r: &[Val]) -> Json {
    Json::Array(r.iter().map(vjson).collect())
}

pub fn fp_val(v: &Val) -> u64 {
    use std::hash::{Hash, Hasher};
    // FNV over the derived Hash stream: deterministic across runs
    struct H(u64);
    impl Hasher for H {
        fn finish(&self) -> u64 {
            self.0
        }
        fn write(&mut self, bytes: &[u8]) {
            for b in bytes {
                self.0 ^= *b as u64;
                self.0 = self.0.wrapping_mul(0x100000001b3);
            }
        }
    }
    let mut h = H(0xcbf29ce484222325);
    v.hash(&mut h);
    h.finish()
}

// ---------------------------------------------------------------------------------------
// natives
// ---------------------------------------------------------------------------------------

pub trait Nat: ArrowNativeType {
    fn from_val(v: &Val) -> Self;
    fn to_val(self) -> Val;
    /// Some(flipped) when the value is a float zero
    fn flip_zero(self) -> Option<Self> {
        None
    }
}

macro_rules! nat_int {
    ($($t:ty),+) => {$(
        impl Nat for $t {
            fn from_val(v: &Val) -> Self { match v { Val::Int(i) => *i as $t, _ => 0 as $t } }
            fn to_val(self) -> Val { Val::Int(self as i128) }
        }
    )+};
}
nat_int!(i8, i16, i32, i64, i128, u8, u16, u32, u64);

impl Nat for i256 {
    fn from_val(v: &Val) -> Self {
        match v {
            Val::Int(i) => i256::from_i128(*i),
            _ => i256::ZERO,
        }
    }
    fn to_val(self) -> Val {
        Val::Int(self.to_i128().unwrap_or(i128::MIN))
    }
}

macro_rules! nat_float {
    ($(($t:ty, $b:ty)),+) => {$(
        impl Nat for $t {
            fn from_val(v: &Val) -> Self { match v { Val::F(b) => <$t>::from_bits(*b as $b), _ => <$t>::from_bits(0) } }
            fn to_val(self) -> Val { Val::F(self.to_bits() as u64) }
            fn flip_zero(self) -> Option<Self> {
                let bits = self.to_bits();
                if bits << 1 == 0 { Some(<$t>::from_bits(bits ^ (1 << (<$b>::BITS - 1)))) } else { None }
            }
        }
    )+};
}
nat_float!((f16, u16), (f32, u32), (f64, u64));

impl Nat for IntervalDayTime {
    fn from_val(v: &Val) -> Self {
        match v {
            Val::Int(i) => IntervalDayTime { days: (*i >> 32) as i32, milliseconds: *i as i32 },
            _ => IntervalDayTime { days: 0, milliseconds: 0 },
        }
    }
    fn to_val(self) -> Val {
        Val::Int(((self.days as i128) << 32) | (self.milliseconds as u32 as i128))
    }
}

impl Nat for IntervalMonthDayNano {
    fn from_val(v: &Val) -> Self {
        match v {
            Val::Int(i) => IntervalMonthDayNano { months: (*i >> 96) as i32, days: (*i >> 64) as i32, nanoseconds: *i as i64 },
            _ => IntervalMonthDayNano { months: 0, days: 0, nanoseconds: 0 },
        }
    }
    fn to_val(self) -> Val {
        Val::Int(((self.months as i128) << 96) | ((self.days as u32 as i128) << 64) | (self.nanoseconds as u64 as i128))
    }
}

/// the bit pattern of -0.0 for a float type
pub fn neg_zero_bits(dt: &DataType) -> Option<u64> {
    match dt {
        DataType::Float16 => Some(0x8000),
        DataType::Float32 => Some(0x8000_0000),
        DataType::Float64 => Some(0x8000_0000_0000_0000),
        _ => None,
    }
}

/// Fold -0.0 into +0.0 at every float leaf (the hash kernels' documented normalisation).
pub fn fold_zero_deep(dt: &DataType, v: &Val) -> Val {
    match (dt, v) {
        (_, Val::Null) => Val::Null,
        (DataType::Float16 | DataType::Float32 | DataType::Float64, Val::F(b)) => {
            if Some(*b) == neg_zero_bits(dt) {
                Val::F(0)
            } else {
                Val::F(*b)
            }
        }
        (DataType::Dictionary(_, vt), _) => fold_zero_deep(vt, v),
        (DataType::RunEndEncoded(_, vf), _) => fold_zero_deep(vf.data_type(), v),
        (DataType::List(f) | DataType::LargeList(f) | DataType::ListView(f) | DataType::LargeListView(f) | DataType::FixedSizeList(f, _), Val::List(xs)) => {
            Val::List(xs.iter().map(|x| fold_zero_deep(f.data_type(), x)).collect())
        }
        (DataType::Map(f, _), Val::List(xs)) => Val::List(xs.iter().map(|x| fold_zero_deep(f.data_type(), x)).collect()),
        (DataType::Struct(fs), Val::Struct(xs)) => Val::Struct(xs.iter().zip(fs.iter()).map(|(x, f)| fold_zero_deep(f.data_type(), x)).collect()),
        (DataType::Union(ufs, _), Val::Union(t, x)) => {
            let f = ufs.iter().find(|(id, _)| id == t).map(|(_, f)| f.data_type().clone()).unwrap_or(DataType::Null);
            Val::Union(*t, Box::new(fold_zero_deep(&f, x)))
        }
        _ => v.clone(),
    }
}

// ---------------------------------------------------------------------------------------
// value domains
// ---------------------------------------------------------------------------------------

#[derive(Clone, Copy, Debug)]
pub struct DomOpts {
    /// include -0.0 next to +0.0
    pub neg_zero: bool,
    /// include a second NaN payload
    pub nan2: bool,
    /// allow a few very large byte values (block roll-over of the view builders)
    pub huge: bool,
}

impl DomOpts {
    pub fn plain() -> DomOpts {
        DomOpts { neg_zero: false, nan2: false, huge: false }
    }
}

const RAW_INTS: &[i128] = &[
    0,
    1,
    -1,
    2,
    3,
    5,
    7,
    100,
    127,
    128,
    255,
    256,
    32767,
    65535,
    65536,
    (1 << 31) - 1,
    1 << 31,
    -(1 << 31),
    1 << 40,
    i64::MAX as i128,
    i64::MIN as i128,
    u64::MAX as i128,
];

fn int_domain(dt: &DataType, rng: &mut Rng) -> Vec<Val> {
    // decimals / times stay inside their valid range; everything else takes boundary patterns
    let small: Option<i128> = match dt {
        DataType::Decimal32(_, _) | DataType::Decimal64(_, _) | DataType::Decimal128(_, _) | DataType::Decimal256(_, _) => Some(999_999),
        DataType::Time32(TimeUnit::Second) => Some(86_399),
        DataType::Time32(_) => Some(86_399_999),
        DataType::Time64(TimeUnit::Microsecond) => Some(86_399_999_999),
        DataType::Time64(_) => Some(86_399_999_999_999),
        _ => None,
    };
    let mut raws: Vec<i128> = vec![];
    match small {
        Some(max) => {
            let signed = matches!(dt, DataType::Decimal32(_, _) | DataType::Decimal64(_, _) | DataType::Decimal128(_, _) | DataType::Decimal256(_, _));
            raws.extend([0, 1, 2, 7, 100, max, max / 2]);
            if signed {
                raws.extend([-1, -max]);
            }
            for _ in 0..4 {
                raws.push(rng.below(max as u64 + 1) as i128);
            }
        }
        None => {
            raws.extend_from_slice(RAW_INTS);
            for _ in 0..4 {
                raws.push(rng.next_u64() as i64 as i128);
            }
        }
    }
    let mut out: Vec<Val> = vec![];
    for r in raws {
        let v = norm_int(dt, r);
        if !out.contains(&v) {
            out.push(v);
        }
    }
    out
}

/// truncate a raw integer into the native domain of `dt`
pub fn norm_int(dt: &DataType, raw: i128) -> Val {
    macro_rules! norm {
        ($t:ty, $raw:expr) => {
            <<$t as ArrowPrimitiveType>::Native as Nat>::to_val(<<$t as ArrowPrimitiveType>::Native as Nat>::from_val(&Val::Int($raw)))
        };
    }
    downcast_primitive! {
        dt => (norm, raw),
        _ => Val::Int(raw)
    }
}

fn float_domain(dt: &DataType, o: DomOpts) -> Vec<Val> {
    let mut out = vec![];
    match dt {
        DataType::Float16 => {
            for f in [0.0f32, 1.0, -1.0, 1.5, 65504.0, f32::INFINITY, f32::NEG_INFINITY, 6.0e-8] {
                out.push(Val::F(f16::from_f32(f).to_bits() as u64));
            }
            out.push(Val::F(f16::NAN.to_bits() as u64));
            if o.nan2 {
                out.push(Val::F(0x7e01));
            }
            if o.neg_zero {
                out.push(Val::F(0x8000));
            }
        }
        DataType::Float32 => {
            for f in [0.0f32, 1.0, -1.0, 1.5, 3.4e38, f32::INFINITY, f32::NEG_INFINITY, 1.0e-45, 0.1] {
                out.push(Val::F(f.to_bits() as u64));
            }
            out.push(Val::F(f32::NAN.to_bits() as u64));
            if o.nan2 {
                out.push(Val::F(0x7fc0_0001));
            }
            if o.neg_zero {
                out.push(Val::F(0x8000_0000));
            }
        }
        _ => {
            for f in [0.0f64, 1.0, -1.0, 1.5, 1.0e300, f64::INFINITY, f64::NEG_INFINITY, 5.0e-324, 0.1] {
                out.push(Val::F(f.to_bits()));
            }
            out.push(Val::F(f64::NAN.to_bits()));
            if o.nan2 {
                out.push(Val::F(0x7ff8_0000_0000_0001));
            }
            if o.neg_zero {
                out.push(Val::F(0x8000_0000_0000_0000));
            }
        }
    }
    out
}

/// crafted byte strings: lengths around 8 (binary_map inline limit) and 12 (view inline limit),
/// shared 4-byte prefixes, equal lengths, values differing only after byte 12
fn bytes_pool(utf8: bool, o: DomOpts, rng: &mut Rng) -> Vec<Val> {
    let mut v: Vec<Vec<u8>> = vec![
        b"".to_vec(),
        b"a".to_vec(),
        b"ab".to_vec(),
        b"abcd".to_vec(),
        b"abcdX".to_vec(),
        b"abcdY".to_vec(),
        b"abcd123".to_vec(),
        b"abcd1234".to_vec(),
        b"abcd12345".to_vec(),
        b"abcd1234567".to_vec(),
        b"abcd12345678".to_vec(),
        b"abcd12345679".to_vec(),
        b"abcd123456789".to_vec(),
        b"abcd12345678A".to_vec(),
        b"abcd12345678B".to_vec(),
        b"abcd12345678AA".to_vec(),
        b"abcd1234567890123456".to_vec(),
        b"abcd1234567890123457".to_vec(),
        b"abcd123456789012345".to_vec(),
        b"abcd1234567890123456789012345678901234567890".to_vec(),
        b"abcd1234567890123456789012345678901234567891".to_vec(),
        "\u{e9}t\u{e9}".as_bytes().to_vec(),
        "\u{4e2d}\u{6587}\u{5b57}\u{7b26}\u{4e32}".as_bytes().to_vec(),
        " ".as_bytes().to_vec(),
        "abcd\u{1f600}1234567".as_bytes().to_vec(),
    ];
    let long: Vec<u8> = (0..300u32).map(|i| b'a' + (i % 23) as u8).collect();
    v.push(long.clone());
    let mut long2 = long;
    long2[299] = b'!';
    v.push(long2);
    if !utf8 {
        v.push(vec![0]);
        v.push(vec![0, 0]);
        v.push(vec![0xff, 0xfe, 0x00, 0x80]);
        v.push(vec![b'a', b'b', b'c', b'd', 0, 0, 0, 0, 0, 0, 0, 0]);
        v.push(vec![b'a', b'b', b'c', b'd', 0, 0, 0, 0, 0, 0, 0, 0, 0]);
        v.push(vec![0xff; 13]);
    }
    if o.huge {
        for k in 0..5u8 {
            let mut h = vec![b'h'; 600 * 1024 + k as usize];
            h[4] = b'0' + k;
            let n = h.len();
            h[n - 1] = b'A' + k;
            v.push(h);
        }
    }
    rng.shuffle(&mut v[1..]);
    v.into_iter().map(Val::Bytes).collect()
}

fn fsb_pool(n: usize, rng: &mut Rng) -> Vec<Val> {
    let mut out: Vec<Vec<u8>> = vec![vec![0; n], vec![0xff; n], (0..n).map(|i| b'a' + (i % 26) as u8).collect()];
    if n > 0 {
        let mut x = out[2].clone();
        x[n - 1] ^= 1;
        out.push(x);
        let mut y = out[2].clone();
        y[0] ^= 1;
        out.push(y);
        for _ in 0..3 {
            out.push((0..n).map(|_| rng.below(256) as u8).collect());
        }
    }
    out.sort();
    out.dedup();
    rng.shuffle(&mut out);
    out.into_iter().map(Val::Bytes).collect()
}

fn pick_nullable(dom: &[Val], null_of_4: u64, rng: &mut Rng) -> Val {
    if dom.is_empty() || rng.chance(null_of_4, 4) {
        Val::Null
    } else {
        rng.pick(dom).clone()
    }
}

/// Distinct non-null values of `dt` (at most ~`cap`), special values first.
pub fn domain(dt: &DataType, o: DomOpts, cap: usize, rng: &mut Rng) -> Vec<Val> {
    // nested levels never mix +-0 / NaN payloads: their grouping equality is implementation specific
    let inner = DomOpts { neg_zero: false, nan2: false, huge: false };
    let mut out: Vec<Val> = match dt {
        DataType::Null => vec![],
        DataType::Boolean => vec![Val::Bool(false), Val::Bool(true)],
        DataType::Float16 | DataType::Float32 | DataType::Float64 => {
            let mut d = float_domain(dt, o);
            rng.shuffle(&mut d[1..]);
            d
        }
        DataType::Utf8 | DataType::LargeUtf8 | DataType::Utf8View => bytes_pool(true, o, rng),
        DataType::Binary | DataType::LargeBinary | DataType::BinaryView => bytes_pool(false, o, rng),
        DataType::FixedSizeBinary(n) => fsb_pool(*n as usize, rng),
        DataType::Dictionary(_, v) => domain(v, DomOpts { huge: false, ..o }, cap, rng),
        DataType::RunEndEncoded(_, v) => domain(v.data_type(), DomOpts { huge: false, ..o }, cap, rng),
        DataType::List(f) | DataType::LargeList(f) | DataType::ListView(f) | DataType::LargeListView(f) => {
            let cd = domain(f.data_type(), inner, 4, rng);
            let mut d = vec![Val::List(vec![])];
            if f.is_nullable() {
                d.push(Val::List(vec![Val::Null]));
            }
            for _ in 0..8 {
                let n = 1 + rng.usize(3);
                let xs: Vec<Val> = (0..n).map(|_| if f.is_nullable() { pick_nullable(&cd, 1, rng) } else { rng.pick(&cd).clone() }).collect();
                d.push(Val::List(xs));
            }
            d
        }
        DataType::FixedSizeList(f, n) => {
            let cd = domain(f.data_type(), inner, 4, rng);
            let mut d = vec![];
            if f.is_nullable() {
                d.push(Val::List(vec![Val::Null; *n as usize]));
            }
            for _ in 0..8 {
                let xs: Vec<Val> = (0..*n).map(|_| if f.is_nullable() { pick_nullable(&cd, 1, rng) } else { rng.pick(&cd).clone() }).collect();
                d.push(Val::List(xs));
            }
            d
        }
        DataType::Struct(fs) => {
            let doms: Vec<Vec<Val>> = fs.iter().map(|f| domain(f.data_type(), inner, 4, rng)).collect();
            let mut d = vec![];
            if fs.iter().all(|f| f.is_nullable()) {
                d.push(Val::Struct(vec![Val::Null; fs.len()]));
            }
            for _ in 0..8 {
                d.push(Val::Struct(fs.iter().zip(&doms).map(|(f, cd)| if f.is_nullable() { pick_nullable(cd, 1, rng) } else { rng.pick(cd).clone() }).collect()));
            }
            d
        }
        DataType::Map(ef, _) => {
            let DataType::Struct(kv) = ef.data_type() else { unreachable!() };
            let kd = domain(kv[0].data_type(), inner, 5, rng);
            let vd = domain(kv[1].data_type(), inner, 4, rng);
            let mut d = vec![Val::List(vec![])];
            for _ in 0..8 {
                let n = 1 + rng.usize(3.min(kd.len()));
                let mut ks = kd.clone();
                rng.shuffle(&mut ks);
                d.push(Val::List(ks.into_iter().take(n).map(|k| Val::Struct(vec![k, pick_nullable(&vd, 1, rng)])).collect()));
            }
            d
        }
        DataType::Union(ufs, _) => {
            let mut d = vec![];
            for (tid, f) in ufs.iter() {
                let cd = domain(f.data_type(), inner, 3, rng);
                for c in cd.into_iter().take(3) {
                    d.push(Val::Union(tid, Box::new(c)));
                }
            }
            rng.shuffle(&mut d);
            d
        }
        _ if dt.is_primitive() => {
            let mut d = int_domain(dt, rng);
            rng.shuffle(&mut d[1..]);
            d
        }
        other => panic!("harness: no value domain for {other}"),
    };
    // distinct
    let mut seen = BTreeSet::new();
    out.retain(|v| seen.insert(v.clone()));
    out.truncate(cap.max(1));
    out
}

/// The logical NULL of a type as a `Val` (unions have no validity: the NULL lives in a child)
pub fn null_of(dt: &DataType, rng: &mut Rng) -> Val {
    match dt {
        DataType::Union(ufs, _) => {
            let ids: Vec<i8> = ufs.iter().map(|(t, _)| t).collect();
            Val::Union(*rng.pick(&ids), Box::new(Val::Null))
        }
        _ => Val::Null,
    }
}

/// `n` rows drawn from `dom`; `null_of_8` eighths are NULL; `runny` repeats the previous row often
pub fn gen_rows(dt: &DataType, dom: &[Val], n: usize, null_of_8: u64, runny: bool, rng: &mut Rng) -> Vec<Val> {
    let mut out: Vec<Val> = Vec::with_capacity(n);
    for i in 0..n {
        if runny && i > 0 && rng.chance(1, 2) {
            out.push(out[i - 1].clone());
        } else if dom.is_empty() || rng.chance(null_of_8, 8) {
            out.push(null_of(dt, rng));
        } else {
            out.push(rng.pick(dom).clone());
        }
    }
    out
}

fn small_int_max(dt: &DataType) -> Option<i128> {
    match dt {
        DataType::Decimal32(_, _) | DataType::Decimal64(_, _) | DataType::Decimal128(_, _) | DataType::Decimal256(_, _) => Some(999_999),
        DataType::Time32(TimeUnit::Second) => Some(86_399),
        DataType::Time32(_) => Some(86_399_999),
        DataType::Time64(TimeUnit::Microsecond) => Some(86_399_999_999),
        DataType::Time64(_) => Some(86_399_999_999_999),
        _ => None,
    }
}

const GARBAGE_BYTES: &[&[u8]] = &[b"", b"g", b"garbage", b"garbage-12by", b"garbage-13byt", b"garbage-longer-than-twelve-bytes", "g\u{e4}rbage".as_bytes()];

/// one arbitrary (possibly NULL) value, used as padding / garbage (cheap: no domain is built)
pub fn garbage(dt: &DataType, nullable: bool, rng: &mut Rng) -> Val {
    if nullable && rng.chance(1, 5) {
        return null_of(dt, rng);
    }
    match dt {
        DataType::Null => Val::Null,
        DataType::Boolean => Val::Bool(rng.bool()),
        DataType::Float16 => Val::F(*rng.pick(&[0x3c00u64, 0x7e00, 0xc000, 0x0001, 0x7bff])),
        DataType::Float32 => Val::F(*rng.pick(&[0x3f80_0000u64, 0x7fc0_0000, 0xc000_0000, 0x0000_0001, 0x4049_0fdb])),
        DataType::Float64 => Val::F(*rng.pick(&[0x3ff0_0000_0000_0000u64, 0x7ff8_0000_0000_0000, 0xc000_0000_0000_0000, 1, 0x4009_21fb_5444_2d18])),
        DataType::Utf8 | DataType::LargeUtf8 | DataType::Utf8View => Val::Bytes(rng.pick(GARBAGE_BYTES).to_vec()),
        DataType::Binary | DataType::LargeBinary | DataType::BinaryView => {
            if rng.chance(1, 4) {
                Val::Bytes(vec![0xff, 0x00, 0xfe])
            } else {
                Val::Bytes(rng.pick(GARBAGE_BYTES).to_vec())
            }
        }
        DataType::FixedSizeBinary(n) => Val::Bytes((0..*n).map(|_| rng.below(256) as u8).collect()),
        DataType::Dictionary(_, v) => garbage(v, false, rng),
        DataType::RunEndEncoded(_, v) => garbage(v.data_type(), false, rng),
        DataType::List(f) | DataType::LargeList(f) | DataType::ListView(f) | DataType::LargeListView(f) => {
            let n = rng.usize(3);
            Val::List((0..n).map(|_| garbage(f.data_type(), f.is_nullable(), rng)).collect())
        }
        DataType::FixedSizeList(f, n) => Val::List((0..*n).map(|_| garbage(f.data_type(), f.is_nullable(), rng)).collect()),
        DataType::Struct(fs) => Val::Struct(fs.iter().map(|f| garbage(f.data_type(), f.is_nullable(), rng)).collect()),
        DataType::Map(ef, _) => {
            let DataType::Struct(kv) = ef.data_type() else { unreachable!() };
            let n = rng.usize(3);
            Val::List((0..n).map(|_| Val::Struct(vec![garbage(kv[0].data_type(), false, rng), garbage(kv[1].data_type(), kv[1].is_nullable(), rng)])).collect())
        }
        DataType::Union(ufs, _) => {
            let fields: Vec<(i8, &FieldRef)> = ufs.iter().collect();
            let (t, f) = *rng.pick(&fields);
            Val::Union(t, Box::new(garbage(f.data_type(), f.is_nullable(), rng)))
        }
        _ if dt.is_primitive() => match small_int_max(dt) {
            Some(max) => norm_int(dt, rng.below(max as u64 + 1) as i128),
            None => norm_int(dt, *rng.pick(RAW_INTS)),
        },
        other => panic!("harness: no garbage value for {other}"),
    }
}

// ---------------------------------------------------------------------------------------
// builder
// ---------------------------------------------------------------------------------------

pub const KNOBS: &[&str] = &[
    "slice",
    "child-slice",
    "validity-allvalid",
    "garbage-under-null",
    "bytes-nonzero-offset",
    "neg-zero",
    "dict-permute",
    "dict-unused",
    "dict-duplicate",
    "dict-null-via-value",
    "view-multi-buffer",
    "view-gaps",
    "view-unused-buffer",
    "ree-split-runs",
    "list-nonzero-offset",
    "list-trailing",
    "listview-shuffled",
    "listview-shared",
    "union-dense-scatter",
    "union-sparse-garbage",
];

pub struct Builder<'a> {
    pub rng: &'a mut Rng,
    pub enabled: BTreeSet<&'static str>,
    /// knobs that really changed the physical layout of this build
    pub applied: BTreeSet<&'static str>,
    /// when true an enabled knob always fires (systematic part), else with probability 2/3
    pub forced: bool,
}

fn validity(vals: &[Val]) -> Vec<bool> {
    vals.iter().map(|v| !v.is_null()).collect()
}

impl<'a> Builder<'a> {
    pub fn canonical(rng: &'a mut Rng) -> Builder<'a> {
        Builder { rng, enabled: BTreeSet::new(), applied: BTreeSet::new(), forced: false }
    }

    pub fn with_knobs(rng: &'a mut Rng, knobs: &[&'static str], forced: bool) -> Builder<'a> {
        Builder { rng, enabled: knobs.iter().copied().collect(), applied: BTreeSet::new(), forced }
    }

    fn want(&mut self, k: &'static str) -> bool {
        self.enabled.contains(k) && (self.forced || self.rng.chance(2, 3))
    }

    fn mark(&mut self, k: &'static str) {
        self.applied.insert(k);
    }

    fn on(&mut self, k: &'static str) -> bool {
        let w = self.want(k);
        if w {
            self.mark(k);
        }
        w
    }

    fn nulls(&mut self, valid: &[bool]) -> Option<NullBuffer> {
        if valid.iter().all(|v| *v) {
            if !valid.is_empty() && self.on("validity-allvalid") {
                Some(NullBuffer::new(BooleanBuffer::from(valid.to_vec())))
            } else {
                None
            }
        } else {
            Some(NullBuffer::from(valid.to_vec()))
        }
    }

    /// Build `vals` as an array of type `dt` with exactly `vals.len()` logical rows.
    pub fn build(&mut self, dt: &DataType, vals: &[Val], top: bool) -> ArrayRef {
        let knob = if top { "slice" } else { "child-slice" };
        if self.want(knob) {
            let pre = self.rng.usize(4);
            let post = self.rng.usize(3);
            if pre + post > 0 {
                self.mark(knob);
                let mut padded: Vec<Val> = Vec::with_capacity(vals.len() + pre + post);
                for _ in 0..pre {
                    padded.push(garbage(dt, true, self.rng));
                }
                padded.extend_from_slice(vals);
                for _ in 0..post {
                    padded.push(garbage(dt, true, self.rng));
                }
                let inner = self.build_inner(dt, &padded);
                return inner.slice(pre, vals.len());
            }
        }
        self.build_inner(dt, vals)
    }

    fn build_inner(&mut self, dt: &DataType, vals: &[Val]) -> ArrayRef {
        macro_rules! prim {
            ($t:ty, $s:expr, $dt:expr, $vals:expr) => {
                $s.prim::<$t>($dt, $vals)
            };
        }
        macro_rules! dict {
            ($k:ty, $s:expr, $vt:expr, $vals:expr) => {
                $s.dict::<$k>($vt, $vals)
            };
        }
        downcast_primitive! {
            dt => (prim, self, dt, vals),
            DataType::Null => Arc::new(NullArray::new(vals.len())),
            DataType::Boolean => self.boolean(vals),
            DataType::Utf8 => self.bytes::<Utf8Type>(vals),
            DataType::LargeUtf8 => self.bytes::<LargeUtf8Type>(vals),
            DataType::Binary => self.bytes::<BinaryType>(vals),
            DataType::LargeBinary => self.bytes::<LargeBinaryType>(vals),
            DataType::Utf8View => self.views::<StringViewType>(vals),
            DataType::BinaryView => self.views::<BinaryViewType>(vals),
            DataType::FixedSizeBinary(n) => self.fsb(*n, vals),
            DataType::Dictionary(k, v) => {
                downcast_integer! {
                    k.as_ref() => (dict, self, v, vals),
                    _ => panic!("harness: bad dictionary key type")
                }
            }
            DataType::RunEndEncoded(r, v) => match r.data_type() {
                DataType::Int16 => self.ree::<Int16Type>(v.data_type(), vals),
                DataType::Int32 => self.ree::<Int32Type>(v.data_type(), vals),
                DataType::Int64 => self.ree::<Int64Type>(v.data_type(), vals),
                _ => panic!("harness: bad run end type"),
            },
            DataType::List(f) => self.list::<i32>(f, vals),
            DataType::LargeList(f) => self.list::<i64>(f, vals),
            DataType::ListView(f) => self.list_view::<i32>(f, vals),
            DataType::LargeListView(f) => self.list_view::<i64>(f, vals),
            DataType::FixedSizeList(f, n) => self.fsl(f, *n, vals),
            DataType::Struct(fs) => self.structure(fs, vals),
            DataType::Map(f, sorted) => self.map(f, *sorted, vals),
            DataType::Union(ufs, mode) => self.union(ufs, *mode, vals),
            other => panic!("harness: cannot build {other}")
        }
    }

    fn prim<T: ArrowPrimitiveType>(&mut self, dt: &DataType, vals: &[Val]) -> ArrayRef
    where
        T::Native: Nat,
    {
        let valid = validity(vals);
        let mut values: Vec<T::Native> = vals.iter().map(|v| if v.is_null() { T::Native::default() } else { T::Native::from_val(v) }).collect();
        if valid.iter().any(|v| !*v) && self.want("garbage-under-null") {
            self.mark("garbage-under-null");
            for (i, ok) in valid.iter().enumerate() {
                if !*ok {
                    let g = garbage(dt, false, self.rng);
                    values[i] = T::Native::from_val(&g);
                }
            }
        }
        if self.want("neg-zero") {
            for (i, ok) in valid.iter().enumerate() {
                if *ok && self.rng.bool() {
                    if let Some(f) = values[i].flip_zero() {
                        values[i] = f;
                        self.mark("neg-zero");
                    }
                }
            }
        }
        let nulls = self.nulls(&valid);
        Arc::new(PrimitiveArray::<T>::new(ScalarBuffer::from(values), nulls).with_data_type(dt.clone()))
    }

    fn boolean(&mut self, vals: &[Val]) -> ArrayRef {
        let valid = validity(vals);
        let mut values: Vec<bool> = vals.iter().map(|v| matches!(v, Val::Bool(true))).collect();
        if valid.iter().any(|v| !*v) && self.on("garbage-under-null") {
            for (i, ok) in valid.iter().enumerate() {
                if !*ok {
                    values[i] = self.rng.bool();
                }
            }
        }
        let nulls = self.nulls(&valid);
        Arc::new(BooleanArray::new(BooleanBuffer::from(values), nulls))
    }

    fn bytes<T: ByteArrayType>(&mut self, vals: &[Val]) -> ArrayRef {
        let valid = validity(vals);
        let g = valid.iter().any(|v| !*v) && self.on("garbage-under-null");
        let mut data: Vec<u8> = vec![];
        if self.on("bytes-nonzero-offset") {
            data.extend_from_slice(b"zz-lead-in");
        }
        let mut offsets: Vec<T::Offset> = vec![T::Offset::usize_as(data.len())];
        for v in vals {
            match v {
                Val::Bytes(b) => data.extend_from_slice(b),
                _ => {
                    if g {
                        let n = 1 + self.rng.usize(15);
                        data.extend_from_slice(&b"garbage-under-null"[..n]);
                    }
                }
            }
            offsets.push(T::Offset::usize_as(data.len()));
        }
        if self.applied.contains("bytes-nonzero-offset") {
            data.extend_from_slice(b"tail");
        }
        let nulls = self.nulls(&valid);
        Arc::new(GenericByteArray::<T>::new(OffsetBuffer::new(ScalarBuffer::from(offsets)), Buffer::from_vec(data), nulls))
    }

    fn views<T: ByteViewType>(&mut self, vals: &[Val]) -> ArrayRef {
        let valid = validity(vals);
        let g = valid.iter().any(|v| !*v) && self.on("garbage-under-null");
        let multi = self.want("view-multi-buffer");
        let gaps = self.want("view-gaps");
        let nbuf = if multi { 2 + self.rng.usize(3) } else { 1 };
        let mut bufs: Vec<Vec<u8>> = vec![vec![]; nbuf];
        let mut views: Vec<u128> = Vec::with_capacity(vals.len());
        let place = |s: &mut Self, bufs: &mut Vec<Vec<u8>>, b: &[u8]| -> u128 {
            let bi = if multi { s.rng.usize(nbuf) } else { 0 };
            if gaps && (s.forced || s.rng.bool()) {
                s.mark("view-gaps");
                bufs[bi].extend_from_slice(b"~~gap~~");
            }
            let off = bufs[bi].len();
            bufs[bi].extend_from_slice(b);
            make_view(b, bi as u32, off as u32)
        };
        for v in vals {
            match v {
                Val::Bytes(b) if b.len() > 12 => {
                    let view = place(self, &mut bufs, b);
                    views.push(view);
                }
                Val::Bytes(b) => views.push(make_view(b, 0, 0)),
                _ => {
                    if g {
                        if self.rng.bool() {
                            views.push(make_view(b"junk", 0, 0));
                        } else {
                            let view = place(self, &mut bufs, b"garbage-under-a-null-slot");
                            views.push(view);
                        }
                    } else {
                        views.push(0);
                    }
                }
            }
        }
        if multi && bufs.iter().filter(|b| !b.is_empty()).count() >= 2 {
            self.mark("view-multi-buffer");
        }
        let mut buffers: Vec<Buffer> = if !multi && bufs[0].is_empty() { vec![] } else { bufs.into_iter().map(Buffer::from_vec).collect() };
        if self.on("view-unused-buffer") {
            buffers.push(Buffer::from_vec(b"this buffer is referenced by no view".to_vec()));
        }
        let nulls = self.nulls(&valid);
        Arc::new(GenericByteViewArray::<T>::try_new(ScalarBuffer::from(views), buffers, nulls).expect("harness: valid view array"))
    }

    fn fsb(&mut self, n: i32, vals: &[Val]) -> ArrayRef {
        let valid = validity(vals);
        let g = valid.iter().any(|v| !*v) && self.on("garbage-under-null");
        let mut data: Vec<u8> = Vec::with_capacity(vals.len() * n as usize);
        for v in vals {
            match v {
                Val::Bytes(b) => {
                    assert_eq!(b.len(), n as usize, "harness: fixed size binary width");
                    data.extend_from_slice(b)
                }
                _ => {
                    for _ in 0..n {
                        data.push(if g { self.rng.below(256) as u8 } else { 0 });
                    }
                }
            }
        }
        let nulls = self.nulls(&valid);
        Arc::new(FixedSizeBinaryArray::try_new_with_len(n, Buffer::from_vec(data), nulls, vals.len()).expect("harness: fsb"))
    }

    fn dict<K: ArrowDictionaryKeyType>(&mut self, vt: &DataType, vals: &[Val]) -> ArrayRef {
        // distinct non-null values in first-seen order
        let mut dict_vals: Vec<Val> = vec![];
        for v in vals {
            if !v.is_null() && !dict_vals.contains(v) {
                dict_vals.push(v.clone());
            }
        }
        let has_null = vals.iter().any(|v| v.is_null());
        if self.on("dict-unused") {
            for _ in 0..1 + self.rng.usize(2) {
                let g = garbage(vt, false, self.rng);
                let at = self.rng.usize(dict_vals.len() + 1);
                dict_vals.insert(at, g);
            }
        }
        if !dict_vals.is_empty() && self.on("dict-duplicate") {
            for _ in 0..1 + self.rng.usize(2) {
                let d = self.rng.pick(&dict_vals).clone();
                let at = self.rng.usize(dict_vals.len() + 1);
                dict_vals.insert(at, d);
            }
        }
        let null_via_value = has_null && self.on("dict-null-via-value");
        if null_via_value {
            let at = self.rng.usize(dict_vals.len() + 1);
            dict_vals.insert(at, Val::Null);
        }
        if dict_vals.len() > 1 && self.on("dict-permute") {
            self.rng.shuffle(&mut dict_vals);
        }
        dict_vals.truncate(120); // Int8 keys; domains are far smaller than this
        let mut pos: HashMap<Val, Vec<usize>> = HashMap::new();
        for (i, v) in dict_vals.iter().enumerate() {
            pos.entry(v.clone()).or_default().push(i);
        }
        let garbage_keys = has_null && !dict_vals.is_empty() && self.on("garbage-under-null");
        let mut keys: Vec<K::Native> = Vec::with_capacity(vals.len());
        let mut valid: Vec<bool> = Vec::with_capacity(vals.len());
        for v in vals {
            if v.is_null() {
                if null_via_value && self.rng.chance(2, 3) {
                    let p = &pos[&Val::Null];
                    keys.push(K::Native::usize_as(*self.rng.pick(p)));
                    valid.push(true);
                } else {
                    let k = if garbage_keys { self.rng.usize(dict_vals.len()) } else { 0 };
                    keys.push(K::Native::usize_as(k));
                    valid.push(false);
                }
            } else {
                let p = &pos[v];
                keys.push(K::Native::usize_as(*self.rng.pick(p)));
                valid.push(true);
            }
        }
        let values = self.build(vt, &dict_vals, false);
        let nulls = self.nulls(&valid);
        let keys = PrimitiveArray::<K>::new(ScalarBuffer::from(keys), nulls);
        Arc::new(DictionaryArray::<K>::try_new(keys, values).expect("harness: dictionary"))
    }

    fn ree<R: RunEndIndexType>(&mut self, vt: &DataType, vals: &[Val]) -> ArrayRef {
        let split = self.want("ree-split-runs");
        let mut run_vals: Vec<Val> = vec![];
        let mut run_ends: Vec<R::Native> = vec![];
        let mut i = 0;
        while i < vals.len() {
            let mut j = i + 1;
            while j < vals.len() && vals[j] == vals[i] {
                j += 1;
            }
            // maximal run [i, j)
            let mut start = i;
            while start < j {
                let end = if split && j - start > 1 && self.rng.chance(2, 3) {
                    self.mark("ree-split-runs");
                    start + 1 + self.rng.usize(j - start - 1)
                } else {
                    j
                };
                run_vals.push(vals[i].clone());
                run_ends.push(R::Native::usize_as(end));
                start = end;
            }
            i = j;
        }
        let values = self.build(vt, &run_vals, false);
        let run_ends = PrimitiveArray::<R>::new(ScalarBuffer::from(run_ends), None);
        Arc::new(RunArray::<R>::try_new(&run_ends, values.as_ref()).expect("harness: run array"))
    }

    fn list<O: OffsetSizeTrait>(&mut self, f: &FieldRef, vals: &[Val]) -> ArrayRef {
        let valid = validity(vals);
        let g = valid.iter().any(|v| !*v) && self.on("garbage-under-null");
        let mut child: Vec<Val> = vec![];
        if self.on("list-nonzero-offset") {
            for _ in 0..1 + self.rng.usize(3) {
                child.push(garbage(f.data_type(), f.is_nullable(), self.rng));
            }
        }
        let mut offsets: Vec<O> = vec![O::usize_as(child.len())];
        for v in vals {
            match v {
                Val::List(xs) => child.extend(xs.iter().cloned()),
                _ => {
                    if g {
                        for _ in 0..1 + self.rng.usize(2) {
                            child.push(garbage(f.data_type(), f.is_nullable(), self.rng));
                        }
                    }
                }
            }
            offsets.push(O::usize_as(child.len()));
        }
        if self.on("list-trailing") {
            for _ in 0..1 + self.rng.usize(2) {
                child.push(garbage(f.data_type(), f.is_nullable(), self.rng));
            }
        }
        let values = self.build(f.data_type(), &child, false);
        let nulls = self.nulls(&valid);
        Arc::new(GenericListArray::<O>::try_new(f.clone(), OffsetBuffer::new(ScalarBuffer::from(offsets)), values, nulls).expect("harness: list"))
    }

    fn list_view<O: OffsetSizeTrait>(&mut self, f: &FieldRef, vals: &[Val]) -> ArrayRef {
        let valid = validity(vals);
        let g = valid.iter().any(|v| !*v) && self.want("garbage-under-null");
        let shuffled = vals.len() > 1 && self.on("listview-shuffled");
        let shared = self.want("listview-shared");
        let mut order: Vec<usize> = (0..vals.len()).collect();
        if shuffled {
            self.rng.shuffle(&mut order);
        }
        let mut child: Vec<Val> = vec![];
        let mut offsets = vec![O::usize_as(0); vals.len()];
        let mut sizes = vec![O::usize_as(0); vals.len()];
        let mut seen: HashMap<Vec<Val>, usize> = HashMap::new();
        for &i in &order {
            match &vals[i] {
                Val::List(xs) => {
                    if shuffled && self.rng.chance(1, 3) {
                        child.push(garbage(f.data_type(), f.is_nullable(), self.rng)); // a gap
                    }
                    if shared && !xs.is_empty() && seen.contains_key(xs) {
                        self.mark("listview-shared");
                        offsets[i] = O::usize_as(seen[xs]);
                    } else {
                        seen.insert(xs.clone(), child.len());
                        offsets[i] = O::usize_as(child.len());
                        child.extend(xs.iter().cloned());
                    }
                    sizes[i] = O::usize_as(xs.len());
                }
                _ => {
                    if g && !child.is_empty() {
                        self.mark("garbage-under-null");
                        let off = self.rng.usize(child.len());
                        offsets[i] = O::usize_as(off);
                        sizes[i] = O::usize_as(1 + self.rng.usize(child.len() - off));
                    } else {
                        offsets[i] = O::usize_as(child.len());
                    }
                }
            }
        }
        let values = self.build(f.data_type(), &child, false);
        let nulls = self.nulls(&valid);
        Arc::new(GenericListViewArray::<O>::try_new(f.clone(), ScalarBuffer::from(offsets), ScalarBuffer::from(sizes), values, nulls).expect("harness: list view"))
    }

    fn fsl(&mut self, f: &FieldRef, n: i32, vals: &[Val]) -> ArrayRef {
        let valid = validity(vals);
        let g = valid.iter().any(|v| !*v) && self.on("garbage-under-null");
        let mut child: Vec<Val> = vec![];
        for v in vals {
            match v {
                Val::List(xs) => {
                    assert_eq!(xs.len(), n as usize, "harness: fixed size list width");
                    child.extend(xs.iter().cloned())
                }
                _ => {
                    for _ in 0..n {
                        child.push(if g || !f.is_nullable() { garbage(f.data_type(), f.is_nullable(), self.rng) } else { Val::Null });
                    }
                }
            }
        }
        let values = self.build(f.data_type(), &child, false);
        let nulls = self.nulls(&valid);
        Arc::new(FixedSizeListArray::try_new(f.clone(), n, values, nulls).expect("harness: fixed size list"))
    }

    fn structure(&mut self, fs: &Fields, vals: &[Val]) -> ArrayRef {
        let valid = validity(vals);
        let g = valid.iter().any(|v| !*v) && self.on("garbage-under-null");
        let mut arrays: Vec<ArrayRef> = vec![];
        for (j, f) in fs.iter().enumerate() {
            let col: Vec<Val> = vals
                .iter()
                .map(|v| match v {
                    Val::Struct(xs) => xs[j].clone(),
                    _ => {
                        if g || !f.is_nullable() {
                            garbage(f.data_type(), f.is_nullable(), self.rng)
                        } else {
                            null_of(f.data_type(), self.rng)
                        }
                    }
                })
                .collect();
            arrays.push(self.build(f.data_type(), &col, false));
        }
        let nulls = self.nulls(&valid);
        Arc::new(StructArray::try_new_with_length(fs.clone(), arrays, nulls, vals.len()).expect("harness: struct"))
    }

    fn map(&mut self, ef: &FieldRef, sorted: bool, vals: &[Val]) -> ArrayRef {
        let DataType::Struct(kv) = ef.data_type() else { panic!("harness: map entries") };
        let valid = validity(vals);
        let g = valid.iter().any(|v| !*v) && self.on("garbage-under-null");
        let mut keys: Vec<Val> = vec![];
        let mut values: Vec<Val> = vec![];
        let junk = |s: &mut Self, keys: &mut Vec<Val>, values: &mut Vec<Val>| {
            keys.push(garbage(kv[0].data_type(), false, s.rng));
            values.push(garbage(kv[1].data_type(), kv[1].is_nullable(), s.rng));
        };
        if self.on("list-nonzero-offset") {
            for _ in 0..1 + self.rng.usize(2) {
                junk(self, &mut keys, &mut values);
            }
        }
        let mut offsets: Vec<i32> = vec![keys.len() as i32];
        for v in vals {
            match v {
                Val::List(xs) => {
                    for e in xs {
                        let Val::Struct(p) = e else { panic!("harness: map entry") };
                        keys.push(p[0].clone());
                        values.push(p[1].clone());
                    }
                }
                _ => {
                    if g {
                        junk(self, &mut keys, &mut values);
                    }
                }
            }
            offsets.push(keys.len() as i32);
        }
        if self.on("list-trailing") {
            junk(self, &mut keys, &mut values);
        }
        let n = keys.len();
        let ka = self.build(kv[0].data_type(), &keys, false);
        let va = self.build(kv[1].data_type(), &values, false);
        let entries = StructArray::try_new_with_length(kv.clone(), vec![ka, va], None, n).expect("harness: map entries");
        let nulls = self.nulls(&valid);
        Arc::new(MapArray::try_new(ef.clone(), OffsetBuffer::new(ScalarBuffer::from(offsets)), entries, nulls, sorted).expect("harness: map"))
    }

    fn union(&mut self, ufs: &UnionFields, mode: UnionMode, vals: &[Val]) -> ArrayRef {
        let type_ids: Vec<i8> = vals
            .iter()
            .map(|v| match v {
                Val::Union(t, _) => *t,
                _ => panic!("harness: union rows must be Val::Union"),
            })
            .collect();
        let mut children: Vec<ArrayRef> = vec![];
        match mode {
            UnionMode::Sparse => {
                let g = ufs.len() > 1 && !vals.is_empty() && self.on("union-sparse-garbage");
                for (tid, f) in ufs.iter() {
                    let col: Vec<Val> = vals
                        .iter()
                        .map(|v| match v {
                            Val::Union(t, x) if *t == tid => (**x).clone(),
                            _ => {
                                if g || !f.is_nullable() {
                                    garbage(f.data_type(), f.is_nullable(), self.rng)
                                } else {
                                    null_of(f.data_type(), self.rng)
                                }
                            }
                        })
                        .collect();
                    children.push(self.build(f.data_type(), &col, false));
                }
                Arc::new(UnionArray::try_new(ufs.clone(), ScalarBuffer::from(type_ids), None, children).expect("harness: sparse union"))
            }
            UnionMode::Dense => {
                let scatter = !vals.is_empty() && self.on("union-dense-scatter");
                let mut cols: HashMap<i8, Vec<Val>> = ufs.iter().map(|(t, _)| (t, vec![])).collect();
                let mut offsets = vec![0i32; vals.len()];
                let mut order: Vec<usize> = (0..vals.len()).collect();
                if scatter {
                    self.rng.shuffle(&mut order);
                }
                for &i in &order {
                    let Val::Union(t, x) = &vals[i] else { unreachable!() };
                    let f = ufs.iter().find(|(id, _)| id == t).map(|(_, f)| f.clone()).expect("harness: union type id");
                    let col = cols.get_mut(t).unwrap();
                    if scatter && self.rng.chance(1, 3) {
                        col.push(garbage(f.data_type(), f.is_nullable(), self.rng)); // unreferenced slot
                    }
                    offsets[i] = col.len() as i32;
                    col.push((**x).clone());
                }
                for (tid, f) in ufs.iter() {
                    let col = cols.remove(&tid).unwrap();
                    children.push(self.build(f.data_type(), &col, false));
                }
                Arc::new(UnionArray::try_new(ufs.clone(), ScalarBuffer::from(type_ids), Some(ScalarBuffer::from(offsets)), children).expect("harness: dense union"))
            }
        }
    }
}

// ---------------------------------------------------------------------------------------
// decoder
// ---------------------------------------------------------------------------------------

fn range_vals(child: &dyn Array, start: usize, len: usize) -> Vec<Val> {
    (start..start + len).map(|j| val_at(child, j)).collect()
}

/// Logical value of row `i` (independent of the builder above).
pub fn val_at(a: &dyn Array, i: usize) -> Val {
    assert!(i < a.len(), "harness: row {i} out of {}", a.len());
    match a.data_type() {
        DataType::Null => return Val::Null,
        DataType::Dictionary(_, _) => {
            return downcast_dictionary_array! {
                a => {
                    if a.keys().is_null(i) { Val::Null } else { val_at(a.values().as_ref(), a.keys().value(i).as_usize()) }
                },
                _ => unreachable!()
            };
        }
        DataType::RunEndEncoded(_, _) => {
            return downcast_run_array! {
                a => val_at(a.values().as_ref(), a.get_physical_index(i)),
                _ => unreachable!()
            };
        }
        DataType::Union(_, _) => {
            let u = a.as_any().downcast_ref::<UnionArray>().unwrap();
            let t = u.type_id(i);
            return Val::Union(t, Box::new(val_at(u.child(t).as_ref(), u.value_offset(i))));
        }
        _ => {}
    }
    if a.is_null(i) {
        return Val::Null;
    }
    downcast_primitive_array! {
        a => a.value(i).to_val(),
        DataType::Boolean => Val::Bool(a.as_boolean().value(i)),
        DataType::Utf8 => Val::Bytes(a.as_string::<i32>().value(i).as_bytes().to_vec()),
        DataType::LargeUtf8 => Val::Bytes(a.as_string::<i64>().value(i).as_bytes().to_vec()),
        DataType::Binary => Val::Bytes(a.as_binary::<i32>().value(i).to_vec()),
        DataType::LargeBinary => Val::Bytes(a.as_binary::<i64>().value(i).to_vec()),
        DataType::Utf8View => Val::Bytes(a.as_string_view().value(i).as_bytes().to_vec()),
        DataType::BinaryView => Val::Bytes(a.as_binary_view().value(i).to_vec()),
        DataType::FixedSizeBinary(_) => Val::Bytes(a.as_fixed_size_binary().value(i).to_vec()),
        DataType::List(_) => {
            let l = a.as_list::<i32>();
            let o = l.value_offsets();
            Val::List(range_vals(l.values().as_ref(), o[i] as usize, (o[i + 1] - o[i]) as usize))
        }
        DataType::LargeList(_) => {
            let l = a.as_list::<i64>();
            let o = l.value_offsets();
            Val::List(range_vals(l.values().as_ref(), o[i] as usize, (o[i + 1] - o[i]) as usize))
        }
        DataType::ListView(_) => {
            let l = a.as_list_view::<i32>();
            Val::List(range_vals(l.values().as_ref(), l.value_offsets()[i] as usize, l.value_sizes()[i] as usize))
        }
        DataType::LargeListView(_) => {
            let l = a.as_list_view::<i64>();
            Val::List(range_vals(l.values().as_ref(), l.value_offsets()[i] as usize, l.value_sizes()[i] as usize))
        }
        DataType::FixedSizeList(_, n) => {
            let l = a.as_fixed_size_list();
            let n = *n as usize;
            // `values()` of a sliced fixed size list is already sliced
            Val::List(range_vals(l.values().as_ref(), i * n, n))
        }
        DataType::Struct(_) => {
            let s = a.as_struct();
            Val::Struct(s.columns().iter().map(|c| val_at(c.as_ref(), i)).collect())
        }
        DataType::Map(_, _) => {
            let m = a.as_map();
            let o = m.value_offsets();
            let (s, e) = (o[i] as usize, o[i + 1] as usize);
            Val::List((s..e).map(|j| Val::Struct(vec![val_at(m.keys().as_ref(), j), val_at(m.values().as_ref(), j)])).collect())
        }
        other => panic!("harness: cannot decode {other}")
    }
}

pub fn column_vals(a: &dyn Array) -> Vec<Val> {
    (0..a.len()).map(|i| val_at(a, i)).collect()
}

/// the `RunEndEncoded` data type exactly as `RunArray::try_new` produces it
pub fn ree_type(run_end: DataType, value: DataType) -> DataType {
    DataType::RunEndEncoded(Arc::new(Field::new("run_ends", run_end, false)), Arc::new(Field::new("values", value, true)))
}

pub fn list_field(dt: DataType) -> FieldRef {
    Arc::new(Field::new_list_field(dt, true))
}

pub fn map_type(key: DataType, value: DataType) -> DataType {
    let entries = Field::new("entries", DataType::Struct(Fields::from(vec![Field::new("keys", key, false), Field::new("values", value, true)])), false);
    DataType::Map(Arc::new(entries), false)
}

pub fn union_type(children: Vec<DataType>, mode: UnionMode) -> DataType {
    let ids: Vec<i8> = (0..children.len() as i8).map(|i| i * 2 + 1).collect(); // non-contiguous type ids
    let fields: Vec<Field> = children.into_iter().enumerate().map(|(i, d)| Field::new(format!("u{i}"), d, true)).collect();
    DataType::Union(UnionFields::try_new(ids, fields).expect("harness: union fields"), mode)
}
