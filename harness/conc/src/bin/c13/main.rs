//! C13 — group key interning numbers distinct keys densely and consistently.
//!
//! The real `GroupValues` implementations (`new_group_values`, `GroupValuesRows::try_new`) are
//! driven through seeded histories of intern / emit(All) / emit(First(n)) / clear_shrink and a
//! sequential model (`HashMap<Key,id>` + `Vec<Key>`) is advanced from the *observed* ids.

#[path = "../c12/val.rs"]
mod val;

use arrow::array::{Array, ArrayRef};
use arrow::datatypes::{DataType, Field, Fields, IntervalUnit, Schema, SchemaRef, TimeUnit, UnionMode};
use datafusion_common::hash_utils::{create_hashes, RandomState};
use datafusion_expr::EmitTo;
use datafusion_physical_plan::aggregates::group_values::multi_group_by::supported_schema;
use datafusion_physical_plan::aggregates::group_values::{new_group_values, GroupValues, GroupValuesRows};
use datafusion_physical_plan::aggregates::order::{GroupOrdering, GroupOrderingFull, GroupOrderingPartial};
use std::collections::{BTreeMap, HashMap};
use std::sync::Arc;
use val::{domain, gen_rows, list_field, map_type, neg_zero_bits, ree_type, row_json, union_type, val_at, Builder, DomOpts, Val};
use vcommon::{fp_mix, fp_str, json, Args, Json, Report, Rng};

fn main() {
    let args = Args::parse();
    if args.opt_u64("loud", 0) == 0 {
        vcommon::par::quiet_panics();
    }
    std::process::exit(run(&args));
}

// ---------------------------------------------------------------------------------------
// store configurations
// ---------------------------------------------------------------------------------------

#[derive(Clone, Copy, Debug, PartialEq)]
enum Ctor {
    /// `new_group_values(schema, &GroupOrdering::None)`
    Factory,
    /// `new_group_values(schema, &GroupOrdering::Full(..))`
    FactoryFull,
    /// `new_group_values(schema, &GroupOrdering::Partial(..))`
    FactoryPartial,
    /// `GroupValuesRows::try_new(schema)` directly
    Rows,
}

#[derive(Clone, Debug)]
struct Cfg {
    label: String,
    cols: Vec<(DataType, bool)>,
    ctor: Ctor,
}

impl Cfg {
    fn schema(&self) -> SchemaRef {
        Arc::new(Schema::new(self.cols.iter().enumerate().map(|(i, (dt, n))| Field::new(format!("k{i}"), dt.clone(), *n)).collect::<Vec<_>>()))
    }

    fn make(&self) -> datafusion_common::Result<Box<dyn GroupValues>> {
        let schema = self.schema();
        match self.ctor {
            Ctor::Factory => new_group_values(schema, &GroupOrdering::None),
            Ctor::FactoryFull => new_group_values(schema, &GroupOrdering::Full(GroupOrderingFull::new())),
            Ctor::FactoryPartial => new_group_values(schema, &GroupOrdering::Partial(GroupOrderingPartial::try_new(vec![0])?)),
            Ctor::Rows => Ok(Box::new(GroupValuesRows::try_new(schema)?)),
        }
    }

    /// which implementation `new_group_values` picks (its dispatch is mirrored here; the
    /// `supported_schema` predicate is the engine's own)
    fn impl_name(&self) -> String {
        if self.ctor == Ctor::Rows {
            return "GroupValuesRows".into();
        }
        if self.cols.len() == 1 {
            let d = &self.cols[0].0;
            if d.is_primitive() {
                return "GroupValuesPrimitive".into();
            }
            match d {
                DataType::Utf8 | DataType::Binary => return "GroupValuesBytes<i32>".into(),
                DataType::LargeUtf8 | DataType::LargeBinary => return "GroupValuesBytes<i64>".into(),
                DataType::Utf8View | DataType::BinaryView => return "GroupValuesBytesView".into(),
                DataType::Boolean => return "GroupValuesBoolean".into(),
                _ => {}
            }
        }
        if supported_schema(&self.schema()) {
            if self.ctor == Ctor::Factory { "GroupValuesColumn<false>".into() } else { "GroupValuesColumn<true>".into() }
        } else {
            "GroupValuesRows".into()
        }
    }

    fn dom_opts(&self, col: usize) -> DomOpts {
        let float = matches!(self.cols[col].0, DataType::Float16 | DataType::Float32 | DataType::Float64);
        DomOpts {
            // -0.0 folds into +0.0 for top level float columns in every store (documented in
            // primitive.rs / row.rs); a second NaN payload only where bits are documented preserved
            neg_zero: float,
            nan2: float && self.impl_name() == "GroupValuesPrimitive",
            huge: false,
        }
    }

    /// the grouping key of one row: top level -0.0 is the same key as +0.0
    fn key(&self, row: &[Val]) -> Vec<Val> {
        row.iter()
            .zip(&self.cols)
            .map(|(v, (dt, _))| match (v, neg_zero_bits(dt)) {
                (Val::F(b), Some(nz)) if *b == nz => Val::F(0),
                _ => v.clone(),
            })
            .collect()
    }

    fn to_json(&self) -> Json {
        json!({
            "label": self.label,
            "constructor": format!("{:?}", self.ctor),
            "columns": self.cols.iter().map(|(d, n)| json!({"type": d.to_string(), "nullable": n})).collect::<Vec<_>>(),
            "implementation": self.impl_name(),
        })
    }
}

fn ts(u: TimeUnit, tz: Option<&str>) -> DataType {
    DataType::Timestamp(u, tz.map(|s| s.into()))
}

fn dict(k: DataType, v: DataType) -> DataType {
    DataType::Dictionary(Box::new(k), Box::new(v))
}

fn strukt(fs: Vec<DataType>) -> DataType {
    DataType::Struct(Fields::from(fs.into_iter().enumerate().map(|(i, d)| Field::new(format!("f{i}"), d, true)).collect::<Vec<_>>()))
}

fn configs(miri: bool) -> Vec<Cfg> {
    use DataType::*;
    let mut out: Vec<Cfg> = vec![];
    let mut add = |label: &str, cols: Vec<(DataType, bool)>, ctors: &[Ctor]| {
        for c in ctors {
            out.push(Cfg { label: format!("{label}/{c:?}"), cols: cols.clone(), ctor: *c });
        }
    };
    let n = |d: DataType| (d, true);
    let nn = |d: DataType| (d, false);
    let both = [Ctor::Factory, Ctor::FactoryFull];
    if miri {
        // the stores with `unsafe` builders: multi-column bytes / bytes_view / primitive, binary_map
        add("1:Utf8", vec![n(Utf8)], &[Ctor::Factory]);
        add("1:Binary", vec![n(Binary)], &[Ctor::Factory]);
        add("1:Utf8View", vec![n(Utf8View)], &[Ctor::Factory]);
        add("1:Int32", vec![n(Int32)], &[Ctor::Factory]);
        add("m:Utf8,Int32", vec![n(Utf8), n(Int32)], &both);
        add("m:Utf8View,Binary!", vec![n(Utf8View), nn(Binary)], &both);
        add("m:LargeUtf8,Int64!", vec![n(LargeUtf8), nn(Int64)], &[Ctor::Factory]);
        add("m:Utf8View,BinaryView", vec![n(Utf8View), n(BinaryView)], &[Ctor::Factory]);
        add("m:Dict(Int32,Utf8),Int8", vec![n(dict(Int32, Utf8)), n(Int8)], &[Ctor::Factory]);
        add("m:FixedSizeBinary(3),Boolean", vec![n(FixedSizeBinary(3)), n(Boolean)], &[Ctor::Factory]);
        add("m:Int32,List<Int32>", vec![n(Int32), n(List(list_field(Int32)))], &[Ctor::Factory]);
        add("m:Int8,Int64,Int64", vec![n(Int8), n(Int64), n(Int64)], &[Ctor::Factory]);
        return out;
    }
    // every single-column implementation
    let singles: Vec<DataType> = vec![
        Int8,
        Int16,
        Int32,
        Int64,
        UInt8,
        UInt16,
        UInt32,
        UInt64,
        Float16,
        Float32,
        Float64,
        Decimal32(9, 2),
        Decimal64(18, 4),
        Decimal128(20, 3),
        Decimal256(40, 5),
        Date32,
        Date64,
        Time32(TimeUnit::Second),
        Time32(TimeUnit::Millisecond),
        Time64(TimeUnit::Microsecond),
        Time64(TimeUnit::Nanosecond),
        ts(TimeUnit::Second, None),
        ts(TimeUnit::Millisecond, None),
        ts(TimeUnit::Microsecond, Some("+02:00")),
        ts(TimeUnit::Nanosecond, Some("UTC")),
        Duration(TimeUnit::Second),
        Duration(TimeUnit::Nanosecond),
        Interval(IntervalUnit::YearMonth),
        Interval(IntervalUnit::DayTime),
        Interval(IntervalUnit::MonthDayNano),
        Boolean,
        Utf8,
        LargeUtf8,
        Binary,
        LargeBinary,
        Utf8View,
        BinaryView,
    ];
    for d in singles {
        add(&format!("1:{d}"), vec![n(d)], &[Ctor::Factory]);
    }
    for d in [Int32, Utf8, Boolean] {
        add(&format!("1:{d}!"), vec![nn(d)], &[Ctor::Factory]);
    }
    for d in [Int64, Float64, Utf8, Utf8View, Boolean] {
        add(&format!("1:{d}"), vec![n(d)], &[Ctor::FactoryFull]);
    }
    // single column schemas that go to GroupValuesColumn
    for d in [
        FixedSizeBinary(5),
        FixedSizeBinary(1),
        dict(Int32, Utf8),
        dict(Int8, Int64),
        dict(UInt16, Utf8View),
        dict(Int64, Float64),
        strukt(vec![Int32, Utf8]),
        List(list_field(Int32)),
        LargeList(list_field(Utf8)),
        FixedSizeList(list_field(Int16), 2),
        ListView(list_field(Int32)),
        map_type(Utf8, Int32),
    ] {
        add(&format!("1:{d}"), vec![n(d)], &both);
    }
    // single column schemas that fall back to GroupValuesRows
    for d in [ree_type(Int32, Utf8), Null, union_type(vec![Int32, Utf8], UnionMode::Sparse)] {
        add(&format!("1:{d}"), vec![n(d)], &[Ctor::Factory]);
    }
    // multi column mixes (GroupValuesColumn, hashing and streaming)
    let tri = [Ctor::Factory, Ctor::FactoryFull, Ctor::FactoryPartial];
    add("m:Int32,Utf8", vec![n(Int32), n(Utf8)], &tri);
    add("m:Int64!,Int64,Boolean", vec![nn(Int64), n(Int64), n(Boolean)], &both);
    add("m:Utf8View,Int32", vec![n(Utf8View), n(Int32)], &tri);
    add("m:Utf8View,BinaryView,Utf8", vec![n(Utf8View), n(BinaryView), n(Utf8)], &both);
    add("m:Float64,Float32", vec![n(Float64), n(Float32)], &both);
    add("m:Binary,LargeUtf8,FixedSizeBinary(3)", vec![n(Binary), n(LargeUtf8), n(FixedSizeBinary(3))], &both);
    add("m:Dict(Int32,Utf8),Int32", vec![n(dict(Int32, Utf8)), n(Int32)], &both);
    add("m:Dict(Int8,Utf8),Dict(UInt16,Int64)", vec![n(dict(Int8, Utf8)), n(dict(UInt16, Int64))], &both);
    add("m:Date32,Timestamp(ns,tz),Time64(us),Decimal128", vec![n(Date32), n(ts(TimeUnit::Nanosecond, Some("+01:00"))), n(Time64(TimeUnit::Microsecond)), n(Decimal128(20, 3))], &both);
    add("m:Boolean!,Boolean", vec![nn(Boolean), n(Boolean)], &both);
    add("m:Int32,List<Int32>", vec![n(Int32), n(List(list_field(Int32)))], &both);
    add("m:List<Utf8>,List<Int32>,Int8", vec![n(List(list_field(Utf8))), n(List(list_field(Int32))), n(Int8)], &both);
    add("m:Struct{Int32,Utf8},Int32", vec![n(strukt(vec![Int32, Utf8])), n(Int32)], &both);
    add("m:Decimal256,Interval(MDN),Duration(ms)", vec![n(Decimal256(40, 5)), n(Interval(IntervalUnit::MonthDayNano)), n(Duration(TimeUnit::Millisecond))], &both);
    add("m:Float16,UInt8", vec![n(Float16), n(UInt8)], &both);
    add("m:LargeBinary,UInt64!", vec![n(LargeBinary), nn(UInt64)], &both);
    add("m:Utf8View!,Utf8View", vec![nn(Utf8View), n(Utf8View)], &both);
    add("m:Dict(Int32,Utf8View),Utf8View", vec![n(dict(Int32, Utf8View)), n(Utf8View)], &both);
    add("m:Map<Utf8,Int32>,Int32", vec![n(map_type(Utf8, Int32)), n(Int32)], &both);
    // NULL-symmetric same-typed columns: distinct keys with equal 64-bit hashes (collision chains)
    add("m:Int8,Int64,Int64", vec![n(Int8), n(Int64), n(Int64)], &both);
    add("m:Utf8,Int32,Date32,Int32", vec![n(Utf8), n(Int32), n(Date32), n(Int32)], &both);
    // multi column schemas that fall back to GroupValuesRows
    add("r:Int32,Decimal32", vec![n(Int32), n(Decimal32(9, 2))], &both);
    add("r:Utf8,REE<Int32,Utf8>", vec![n(Utf8), n(ree_type(Int32, Utf8))], &both);
    add("r:Int32,Null", vec![n(Int32), n(Null)], &[Ctor::Factory]);
    add("r:Float64,Decimal64", vec![n(Float64), n(Decimal64(18, 4))], &both);
    add("r:Utf8View,Union{Int32,Utf8}", vec![n(Utf8View), n(union_type(vec![Int32, Utf8], UnionMode::Sparse))], &[Ctor::Factory]);
    // the row store directly, on schemas the factory would give to a specialised store
    add("d:Int32", vec![n(Int32)], &[Ctor::Rows]);
    add("d:Float32", vec![n(Float32)], &[Ctor::Rows]);
    add("d:Utf8", vec![n(Utf8)], &[Ctor::Rows]);
    add("d:Utf8View,Int32", vec![n(Utf8View), n(Int32)], &[Ctor::Rows]);
    add("d:Dict(Int32,Utf8),Float64", vec![n(dict(Int32, Utf8)), n(Float64)], &[Ctor::Rows]);
    add("d:List<Int32>,Int32", vec![n(List(list_field(Int32))), n(Int32)], &[Ctor::Rows]);
    out
}

// ---------------------------------------------------------------------------------------
// one history
// ---------------------------------------------------------------------------------------

/// Operation sequences some stores of the unchanged tree do not survive (see the final report of
/// this check). They stay part of the workload, but a store known to break on one is kept away
/// from it in `guarded` histories so that everything else is still explored.
#[derive(Clone, Copy, Debug, PartialEq, Eq, Hash, PartialOrd, Ord)]
enum Hazard {
    /// intern directly after emit(EmitTo::All), without clear_shrink in between
    ReuseAfterEmitAll,
    /// clear_shrink while groups are live (not preceded by emit(EmitTo::All))
    ClearWithLiveGroups,
    /// emit(EmitTo::First(n)) while at least two sets of live keys share a 64-bit row hash
    PartialEmitWithCollisionChains,
}

const HAZARDS: [Hazard; 3] = [Hazard::ReuseAfterEmitAll, Hazard::ClearWithLiveGroups, Hazard::PartialEmitWithCollisionChains];

impl Hazard {
    fn name(&self) -> &'static str {
        match self {
            Hazard::ReuseAfterEmitAll => "reuse-after-emit-all",
            Hazard::ClearWithLiveGroups => "clear-with-live-groups",
            Hazard::PartialEmitWithCollisionChains => "partial-emit-with-hash-collision-chains",
        }
    }
}

#[derive(Clone, Copy, Debug, PartialEq)]
enum Script {
    Random,
    /// intern A; emit(All); intern A; intern A+B; emit(All)
    ReuseAfterEmitAll,
    /// intern A (with a NULL key); clear_shrink; intern A'; emit(All)
    ClearWithLiveGroups,
    /// intern A; emit(First(2)); intern A+B; emit(First(1)); emit(All)
    PartialEmit,
    /// keys whose 64-bit row hashes collide by construction (NULL-symmetric same-typed columns,
    /// NULL list vs empty list): intern; emit(First(1)); re-intern; emit(First(2)); re-intern
    HashCollisionPartialEmit,
}

#[derive(Clone)]
struct HistParams {
    /// index of the history inside its configuration (part of the RNG path)
    index: u64,
    max_ops: usize,
    max_rows: usize,
    huge: bool,
    selftest: u64,
    script: Script,
    /// hazards this store is known (from the scripted probes of this run) not to survive
    bad: Vec<Hazard>,
    /// hazards this history keeps away from (a subset of `bad`)
    avoid: Vec<Hazard>,
}

#[derive(Default)]
struct Stats {
    ops: BTreeMap<&'static str, u64>,
    rows: u64,
    new_groups: u64,
    max_len: u64,
    first_seen_order: u64,
    other_order: u64,
    partial_emits: u64,
    intern_after_partial_emit: u64,
    intern_after_emit_all: u64,
    intern_after_clear: u64,
    long_views: u64,
    short_views: u64,
    null_rows: u64,
    hazards: BTreeMap<&'static str, u64>,
    hazards_avoided: u64,
    fp: u64,
}

enum Outcome {
    Done(Stats),
    Violation(String, Json, Stats),
    Skip(String, Stats),
}

const INTERN_KNOBS: &[&str] = &[
    "slice",
    "child-slice",
    "validity-allvalid",
    "garbage-under-null",
    "bytes-nonzero-offset",
    "dict-permute",
    "dict-unused",
    "dict-duplicate",
    "dict-null-via-value",
    "view-multi-buffer",
    "view-gaps",
    "view-unused-buffer",
    "ree-split-runs",
    "list-nonzero-offset",
    "list-trailing",
];

struct Hist<'a> {
    cfg: &'a Cfg,
    imp: String,
    store: Box<dyn GroupValues>,
    rng: Rng,
    p: HistParams,
    /// key -> current id
    ids: HashMap<Vec<Val>, usize>,
    /// id -> key
    keys: Vec<Vec<Val>>,
    /// keys that were emitted earlier (for re-interning)
    emitted: Vec<Vec<Val>>,
    last_emitted_arrays: Option<Vec<ArrayRef>>,
    doms: Vec<Vec<Val>>,
    null_of_8: Vec<u64>,
    trace: Vec<Json>,
    stats: Stats,
    interned_once: bool,
    last_structural: &'static str,
    corrupted: bool,
    /// set once a hazard of `p.bad` has been exercised in this history
    tainted: Option<Hazard>,
    /// emit(All) removed groups and neither clear_shrink nor intern has run since
    drained_by_emit_all: bool,
}

type Fail = (String, Json);

impl<'a> Hist<'a> {
    fn fail(&self, sig: &str, what: String, extra: Json) -> Fail {
        let signature = match self.tainted {
            Some(h) => format!("{}/{}", h.name(), self.imp),
            None => format!("{sig}/{}", self.imp),
        };
        (
            signature,
            json!({
                "config": self.cfg.to_json(),
                "history_index": self.p.index,
                "kind": sig,
                "what": what,
                "detail": extra,
                "model_len": self.keys.len(),
                "history": self.trace,
            }),
        )
    }

    fn bump(&mut self, k: &'static str) {
        *self.stats.ops.entry(k).or_insert(0) += 1;
    }

    fn avoid(&self, h: Hazard) -> bool {
        self.p.avoid.contains(&h)
    }

    fn exercise(&mut self, h: Hazard) {
        *self.stats.hazards.entry(h.name()).or_insert(0) += 1;
        if self.p.bad.contains(&h) || self.p.script != Script::Random {
            self.tainted.get_or_insert(h);
        }
    }

    fn build_batch(&mut self, rows: &[Vec<Val>]) -> (Vec<ArrayRef>, Vec<&'static str>) {
        let mut arrays = vec![];
        let mut applied: Vec<&'static str> = vec![];
        for (c, (dt, _)) in self.cfg.cols.iter().enumerate() {
            let col: Vec<Val> = rows.iter().map(|r| r[c].clone()).collect();
            let mut b = if self.rng.chance(1, 3) { Builder::canonical(&mut self.rng) } else { Builder::with_knobs(&mut self.rng, INTERN_KNOBS, false) };
            arrays.push(b.build(dt, &col, true));
            applied.extend(b.applied.iter().copied());
        }
        applied.sort();
        applied.dedup();
        (arrays, applied)
    }

    fn gen_rows(&mut self, n: usize) -> Vec<Vec<Val>> {
        let ncols = self.cfg.cols.len();
        let runny = self.rng.chance(1, 4);
        let cols: Vec<Vec<Val>> = (0..ncols).map(|c| gen_rows(&self.cfg.cols[c].0, &self.doms[c], n, self.null_of_8[c], runny, &mut self.rng)).collect();
        let mut rows: Vec<Vec<Val>> = (0..n).map(|i| (0..ncols).map(|c| cols[c][i].clone()).collect()).collect();
        // mix in keys that are live or were emitted earlier
        for r in rows.iter_mut() {
            let k = self.rng.below(10);
            if k == 0 && !self.keys.is_empty() {
                *r = self.rng.pick(&self.keys).clone();
            } else if k == 1 && !self.emitted.is_empty() {
                *r = self.rng.pick(&self.emitted).clone();
            }
        }
        rows
    }

    /// intern `arrays` (logical rows `rows`) and check rules (i), (ii), (iii)
    fn intern(&mut self, kind: &'static str, rows: &[Vec<Val>], arrays: &[ArrayRef], knobs: &[&'static str]) -> Result<(), Fail> {
        self.bump(kind);
        if self.drained_by_emit_all {
            self.exercise(Hazard::ReuseAfterEmitAll);
            self.drained_by_emit_all = false;
        }
        let len_before = self.keys.len();
        let mut groups: Vec<usize> = vec![usize::MAX - 7; 3]; // stale content must be overwritten
        let r = vcommon::par::guard(|| self.store.intern(arrays, &mut groups));
        self.interned_once = true;
        let entry = json!({"op": kind, "rows": rows.iter().map(|r| row_json(r)).collect::<Vec<_>>(), "physical_knobs": knobs});
        self.trace.push(entry);
        match r {
            Err(p) => return Err(self.fail("panic-intern", format!("intern panicked: {p}"), Json::Null)),
            Ok(Err(e)) => {
                let msg = e.to_string();
                if msg.contains("cannot represent") {
                    // dictionary key type capacity: a documented execution error
                    return Err(("SKIP:dictionary-key-overflow".into(), Json::Null));
                }
                return Err(self.fail("intern-error", format!("intern returned an error: {msg}"), Json::Null));
            }
            Ok(Ok(())) => {}
        }
        if self.p.selftest == 1 && !self.corrupted && !groups.is_empty() && len_before > 0 {
            // self-test: corrupt the observed ids before the oracle sees them
            groups[0] = if groups[0] == 0 { 1 } else { groups[0] - 1 };
            self.corrupted = true;
        }
        if let Some(Json::Object(m)) = self.trace.last_mut() {
            m.insert("observed_groups".into(), json!(groups));
        }
        if groups.len() != rows.len() {
            return Err(self.fail("groups-length", format!("intern of {} rows filled {} group ids", rows.len(), groups.len()), Json::Null));
        }
        // (i) equal keys <-> equal ids, consistent with every earlier call
        let mut fresh: HashMap<Vec<Val>, usize> = HashMap::new();
        let mut fresh_order: Vec<usize> = vec![];
        for (i, row) in rows.iter().enumerate() {
            let key = self.cfg.key(row);
            let g = groups[i];
            if let Some(&id) = self.ids.get(&key) {
                if g != id {
                    return Err(self.fail(
                        "known-key-wrong-id",
                        format!("row {i} has a key the model holds at id {id}, intern answered {g}"),
                        json!({"row": i, "key": row_json(&key), "expected_id": id, "observed_id": g}),
                    ));
                }
            } else if let Some(&id) = fresh.get(&key) {
                if g != id {
                    return Err(self.fail(
                        "equal-keys-different-ids",
                        format!("row {i} repeats a new key of this batch that got id {id}, now answered {g}"),
                        json!({"row": i, "key": row_json(&key), "expected_id": id, "observed_id": g}),
                    ));
                }
            } else {
                if g < len_before {
                    return Err(self.fail(
                        "new-key-existing-id",
                        format!("row {i} has a key never seen before but got the existing id {g} (model holds {})", row_json(&self.keys[g])),
                        json!({"row": i, "key": row_json(&key), "observed_id": g, "len_before": len_before}),
                    ));
                }
                if fresh.values().any(|x| *x == g) {
                    return Err(self.fail(
                        "distinct-keys-same-id",
                        format!("row {i} has a new key distinct from every other key of the batch but shares id {g}"),
                        json!({"row": i, "key": row_json(&key), "observed_id": g}),
                    ));
                }
                fresh.insert(key, g);
                fresh_order.push(g);
            }
        }
        // (ii) the new ids are exactly {len_before .. len_before + #new} — as a set
        let n_new = fresh.len();
        let mut got: Vec<usize> = fresh.values().copied().collect();
        got.sort();
        let want: Vec<usize> = (len_before..len_before + n_new).collect();
        if got != want {
            return Err(self.fail(
                "new-ids-not-dense",
                format!("{n_new} new keys must receive exactly the ids {len_before}..{}, got {:?}", len_before + n_new, got),
                json!({"len_before": len_before, "new_ids": got}),
            ));
        }
        if n_new > 1 {
            if fresh_order.windows(2).all(|w| w[0] < w[1]) {
                self.stats.first_seen_order += 1;
            } else {
                self.stats.other_order += 1; // allowed: vectorised stores number a batch's new keys freely
            }
        }
        // advance the model from the observed ids
        self.keys.resize(len_before + n_new, vec![]);
        for (k, g) in fresh {
            self.keys[g] = k.clone();
            self.ids.insert(k, g);
        }
        self.stats.rows += rows.len() as u64;
        self.stats.new_groups += n_new as u64;
        self.stats.max_len = self.stats.max_len.max(self.keys.len() as u64);
        for r in rows {
            for v in r {
                match v {
                    Val::Null => self.stats.null_rows += 1,
                    Val::Bytes(b) if b.len() > 12 => self.stats.long_views += 1,
                    Val::Bytes(_) => self.stats.short_views += 1,
                    _ => {}
                }
            }
        }
        match self.last_structural {
            "emit-first" => self.stats.intern_after_partial_emit += 1,
            "emit-all" => self.stats.intern_after_emit_all += 1,
            "clear" => self.stats.intern_after_clear += 1,
            _ => {}
        }
        self.check_len("intern")
    }

    /// (iii) len() / is_empty() report the number of live keys
    fn check_len(&mut self, after: &str) -> Result<(), Fail> {
        let r = vcommon::par::guard(|| (self.store.len(), self.store.is_empty(), self.store.size()));
        let (mut len, empty, _size) = match r {
            Ok(x) => x,
            Err(p) => return Err(self.fail("panic-len", format!("len/is_empty/size panicked after {after}: {p}"), Json::Null)),
        };
        if self.p.selftest == 3 && !self.corrupted && after == "intern" && len > 1 {
            len -= 1;
            self.corrupted = true;
        }
        if len != self.keys.len() {
            return Err(self.fail(
                &format!("len-mismatch-after-{after}"),
                format!("len() = {len} after {after}, the model holds {} live keys", self.keys.len()),
                json!({"observed_len": len, "expected_len": self.keys.len()}),
            ));
        }
        if empty != (len == 0) {
            return Err(self.fail("is-empty-mismatch", format!("is_empty() = {empty} with len() = {len}"), Json::Null));
        }
        Ok(())
    }

    fn emit(&mut self, first: Option<usize>) -> Result<(), Fail> {
        let len_before = self.keys.len();
        let n = first.unwrap_or(len_before);
        let kind: &'static str = if first.is_some() { "emit-first" } else { "emit-all" };
        let chains = if first.is_some() { self.collision_chains() } else { 0 };
        if first.is_some() && chains >= 2 {
            if self.avoid(Hazard::PartialEmitWithCollisionChains) {
                self.stats.hazards_avoided += 1;
                return Ok(());
            }
            self.exercise(Hazard::PartialEmitWithCollisionChains);
        }
        self.bump(kind);
        self.trace.push(json!({"op": kind, "n": n, "len_before": len_before, "hash_collision_chains_among_live_keys": chains}));
        let to = match first {
            Some(n) => EmitTo::First(n),
            None => EmitTo::All,
        };
        let r = vcommon::par::guard(|| self.store.emit(to));
        let mut arrays = match r {
            Err(p) => return Err(self.fail(&format!("panic-{kind}"), format!("{kind}(n={n}) panicked: {p}"), Json::Null)),
            Ok(Err(e)) => return Err(self.fail(&format!("{kind}-error"), format!("{kind}(n={n}) with len()={len_before} returned an error: {e}"), Json::Null)),
            Ok(Ok(a)) => a,
        };
        if self.p.selftest == 2 && !self.corrupted && n >= 2 {
            // self-test: hand the oracle the emitted rows in a different order
            arrays = arrays.iter().map(|a| arrow::compute::concat(&[a.slice(1, n - 1).as_ref(), a.slice(0, 1).as_ref()]).unwrap()).collect();
            self.corrupted = true;
        }
        if arrays.len() != self.cfg.cols.len() {
            return Err(self.fail("emit-column-count", format!("{kind} returned {} arrays for {} key columns", arrays.len(), self.cfg.cols.len()), Json::Null));
        }
        for (c, a) in arrays.iter().enumerate() {
            if a.len() != n {
                return Err(self.fail("emit-row-count", format!("{kind}(n={n}) column {c} has {} rows", a.len()), json!({"column": c, "rows": a.len(), "expected": n})));
            }
            if a.data_type() != &self.cfg.cols[c].0 {
                return Err(self.fail(
                    "emit-data-type",
                    format!("{kind} column {c} has type {}, the schema says {}", a.data_type(), self.cfg.cols[c].0),
                    Json::Null,
                ));
            }
            if let Err(e) = a.to_data().validate_full() {
                return Err(self.fail("emit-invalid-array", format!("{kind} column {c} is not a valid Arrow array: {e}"), Json::Null));
            }
        }
        // row i of the returned arrays is the key the model holds for id i
        for i in 0..n {
            let decoded = vcommon::par::guard(|| arrays.iter().map(|a| val_at(a.as_ref(), i)).collect::<Vec<Val>>());
            let got = match decoded {
                Ok(v) => self.cfg.key(&v),
                Err(p) => return Err(self.fail("emit-undecodable", format!("{kind} row {i} cannot be read back: {p}"), Json::Null)),
            };
            if got != self.keys[i] {
                return Err(self.fail(
                    &format!("{kind}-wrong-key"),
                    format!("{kind}(n={n}) row {i} is {}, the model holds {} for id {i}", row_json(&got), row_json(&self.keys[i])),
                    json!({"row": i, "observed": row_json(&got), "expected": row_json(&self.keys[i])}),
                ));
            }
        }
        // advance the model: ids shift down by n
        let gone: Vec<Vec<Val>> = self.keys.drain(..n).collect();
        self.ids.clear();
        for (i, k) in self.keys.iter().enumerate() {
            self.ids.insert(k.clone(), i);
        }
        for k in gone {
            if self.emitted.len() < 256 {
                self.emitted.push(k);
            }
        }
        if n > 0 {
            self.last_emitted_arrays = Some(arrays);
        }
        if first.is_some() && n > 0 && n < len_before {
            self.stats.partial_emits += 1;
        }
        if first.is_none() && len_before > 0 {
            self.drained_by_emit_all = true;
        }
        self.check_len(kind)?;
        self.last_structural = kind;
        // every surviving key's id is old - n: re-intern all known keys, no group may be created
        if !self.keys.is_empty() {
            let mut rows: Vec<Vec<Val>> = self.keys.clone();
            for _ in 0..rows.len().min(4) {
                let d = self.rng.pick(&self.keys).clone();
                rows.push(d);
            }
            self.rng.shuffle(&mut rows);
            let (arrays, knobs) = self.build_batch(&rows);
            self.intern("intern-survivors", &rows, &arrays, &knobs)?;
            self.last_structural = kind;
        }
        Ok(())
    }

    fn clear(&mut self) -> Result<(), Fail> {
        let num_rows = *self.rng.pick(&[0usize, 1, 8, 64, 8192]);
        if !self.keys.is_empty() && self.avoid(Hazard::ClearWithLiveGroups) {
            // the engine's own protocol: drain first
            self.stats.hazards_avoided += 1;
            self.emit(None)?;
        }
        let bare = !self.keys.is_empty();
        if bare {
            self.exercise(Hazard::ClearWithLiveGroups);
        }
        self.bump(if bare { "clear-with-live-groups" } else { "clear-when-empty" });
        self.trace.push(json!({"op": "clear_shrink", "num_rows": num_rows, "live_groups_before": self.keys.len()}));
        if let Err(p) = vcommon::par::guard(|| self.store.clear_shrink(num_rows)) {
            return Err(self.fail("panic-clear", format!("clear_shrink({num_rows}) panicked: {p}"), Json::Null));
        }
        for k in self.keys.drain(..) {
            if self.emitted.len() < 256 {
                self.emitted.push(k);
            }
        }
        self.ids.clear();
        self.drained_by_emit_all = false;
        self.check_len("clear")?;
        self.last_structural = "clear";
        Ok(())
    }

    /// up to `k` rows with pairwise distinct keys; the first one is NULL in every nullable column
    fn distinct_rows(&mut self, k: usize) -> Vec<Vec<Val>> {
        let mut out: Vec<Vec<Val>> = vec![];
        let first: Vec<Val> = (0..self.cfg.cols.len())
            .map(|c| if self.cfg.cols[c].1 || self.doms[c].is_empty() { val::null_of(&self.cfg.cols[c].0, &mut self.rng) } else { self.doms[c][0].clone() })
            .collect();
        out.push(first);
        for _ in 0..400 {
            if out.len() >= k {
                break;
            }
            let r = self.gen_rows(1).pop().unwrap();
            let key = self.cfg.key(&r);
            if !out.iter().any(|o| self.cfg.key(o) == key) {
                out.push(r);
            }
        }
        out
    }

    /// Rows whose `create_hashes` values collide although the keys differ: NULL cells leave the
    /// running hash untouched, so (.., x, NULL) and (.., NULL, x) collide for two same-typed
    /// columns after the first, and a NULL list hashes like an empty list.
    fn collision_rows(&mut self) -> Vec<Vec<Val>> {
        let n = self.cfg.cols.len();
        let filler = |s: &mut Self, c: usize| -> Val {
            if s.cfg.cols[c].1 || s.doms[c].is_empty() { val::null_of(&s.cfg.cols[c].0, &mut s.rng) } else { s.doms[c][0].clone() }
        };
        let mut out = vec![];
        let mut pair = None;
        for i in 1..n {
            for j in i + 1..n {
                let (a, b) = (&self.cfg.cols[i], &self.cfg.cols[j]);
                let same_native = a.0.is_primitive() && b.0.is_primitive() && a.0.primitive_width() == b.0.primitive_width() && a.0.is_floating() == b.0.is_floating();
                if same_native && a.1 && b.1 && !matches!(a.0, DataType::Interval(_)) && !matches!(b.0, DataType::Interval(_)) && pair.is_none() {
                    pair = Some((i, j));
                }
            }
        }
        if let Some((i, j)) = pair {
            // values representable in both columns
            for v in [Val::Int(0), Val::Int(1), Val::Int(2), Val::Int(3), Val::Int(5)] {
                let mut r1: Vec<Val> = (0..n).map(|c| filler(self, c)).collect();
                let mut r2 = r1.clone();
                r1[i] = v.clone();
                r1[j] = Val::Null;
                r2[i] = Val::Null;
                r2[j] = v.clone();
                out.push(r1);
                out.push(r2);
            }
            return out;
        }
        let list_col = (0..n).find(|c| matches!(self.cfg.cols[*c].0, DataType::List(_) | DataType::LargeList(_) | DataType::Map(_, _)) && self.cfg.cols[*c].1);
        if let (Some(lc), true) = (list_col, n > 1) {
            let other = (0..n).find(|c| *c != lc).unwrap();
            let dom = self.doms[other].clone();
            for k in dom.iter().take(5) {
                let mut r1: Vec<Val> = (0..n).map(|c| filler(self, c)).collect();
                r1[other] = k.clone();
                let mut r2 = r1.clone();
                r1[lc] = Val::List(vec![]);
                r2[lc] = Val::Null;
                out.push(r1);
                out.push(r2);
            }
        }
        out
    }

    /// number of 64-bit row hash values shared by two or more live keys. Only used to *name* the
    /// sequence being exercised, never for a verdict. Such collisions are structural (NULL cells
    /// are skipped by the hash combine); which columns can stand in for each other depends on the
    /// seed, so the stores' own seed is used.
    fn collision_chains(&mut self) -> usize {
        if self.keys.len() < 4 || self.cfg.cols.len() < 2 {
            return 0;
        }
        let arrays: Vec<ArrayRef> = (0..self.cfg.cols.len())
            .map(|c| {
                let col: Vec<Val> = self.keys.iter().map(|r| r[c].clone()).collect();
                Builder::canonical(&mut self.rng).build(&self.cfg.cols[c].0, &col, true)
            })
            .collect();
        let mut hashes = vec![0u64; self.keys.len()];
        // the seed `new_group_values` stores use (aggregates::AGGREGATION_HASH_SEED)
        if create_hashes(&arrays, &RandomState::with_seed(15395726432021054657), &mut hashes).is_err() {
            return 0;
        }
        let mut by: HashMap<u64, usize> = HashMap::new();
        for h in hashes {
            *by.entry(h).or_insert(0) += 1;
        }
        by.values().filter(|n| **n >= 2).count()
    }

    fn intern_plain(&mut self, rows: &[Vec<Val>]) -> Result<(), Fail> {
        let arrays: Vec<ArrayRef> = (0..self.cfg.cols.len())
            .map(|c| {
                let col: Vec<Val> = rows.iter().map(|r| r[c].clone()).collect();
                Builder::canonical(&mut self.rng).build(&self.cfg.cols[c].0, &col, true)
            })
            .collect();
        self.intern("intern", rows, &arrays, &[])
    }

    /// the short deterministic histories: minimal witnesses and by-construction coverage
    fn run_script(&mut self, script: Script) -> Result<(), Fail> {
        let all = self.distinct_rows(6);
        let a: Vec<Vec<Val>> = all.iter().take(3).cloned().collect();
        match script {
            Script::Random => Ok(()),
            Script::ReuseAfterEmitAll => {
                self.intern_plain(&a)?;
                self.emit(None)?;
                self.intern_plain(&a)?;
                self.intern_plain(&all)?;
                self.emit(None)
            }
            Script::ClearWithLiveGroups => {
                self.intern_plain(&a)?;
                self.clear()?;
                let mut b = a.clone();
                b.reverse();
                self.intern_plain(&b)?;
                self.intern_plain(&all)
            }
            Script::HashCollisionPartialEmit => {
                let rows = self.collision_rows();
                if rows.is_empty() {
                    return Err(("SKIP:no-constructible-hash-collision".into(), Json::Null));
                }
                self.intern_plain(&rows)?;
                self.emit(Some(1))?;
                self.intern_plain(&rows)?;
                self.emit(Some(2))?;
                self.intern_plain(&rows)
            }
            Script::PartialEmit => {
                self.intern_plain(&all)?;
                self.emit(Some(self.keys.len().min(2)))?;
                self.intern_plain(&all)?;
                self.emit(Some(self.keys.len().min(1)))?;
                self.intern_plain(&a)
            }
        }
    }

    fn step(&mut self) -> Result<(), Fail> {
        let w: [u32; 6] = if !self.interned_once { [1, 0, 0, 0, 0, 0] } else { [52, 16, 7, 7, 9, 9] };
        match self.rng.weighted(&w) {
            0 => {
                let n = match self.rng.below(10) {
                    0 => 0,
                    1 => 1,
                    2..=5 => 1 + self.rng.usize(self.p.max_rows.min(12)),
                    _ => 1 + self.rng.usize(self.p.max_rows),
                };
                let rows = self.gen_rows(n);
                let (arrays, knobs) = self.build_batch(&rows);
                self.intern("intern", &rows, &arrays, &knobs)
            }
            1 => {
                // the contract's precondition: n <= len()
                let len = self.keys.len();
                let n = match self.rng.below(8) {
                    0 => len,
                    1 => len.min(1),
                    2 => len.saturating_sub(1),
                    3 if len > 0 => 0,
                    _ => self.rng.usize(len + 1),
                };
                self.emit(Some(n))
            }
            2 => {
                self.emit(None)?;
                if self.avoid(Hazard::ReuseAfterEmitAll) {
                    self.stats.hazards_avoided += 1;
                    self.clear()?;
                }
                Ok(())
            }
            3 => self.clear(),
            4 => {
                // hand the engine's own emitted arrays back (whatever physical form they have)
                let Some(arrays) = self.last_emitted_arrays.clone() else { return Ok(()) };
                let n = arrays[0].len();
                let (off, len) = if n > 1 && self.rng.bool() {
                    let off = self.rng.usize(n);
                    (off, 1 + self.rng.usize(n - off))
                } else {
                    (0, n)
                };
                let arrays: Vec<ArrayRef> = arrays.iter().map(|a| a.slice(off, len)).collect();
                let rows: Vec<Vec<Val>> = (0..len).map(|i| arrays.iter().map(|a| val_at(a.as_ref(), i)).collect()).collect();
                self.intern("intern-emitted-arrays", &rows, &arrays, &["engine-emitted"])
            }
            _ => {
                // emitted keys and live keys together
                let mut rows: Vec<Vec<Val>> = vec![];
                let n = 1 + self.rng.usize(self.p.max_rows.min(24));
                for _ in 0..n {
                    if !self.emitted.is_empty() && self.rng.bool() {
                        rows.push(self.rng.pick(&self.emitted).clone());
                    } else if !self.keys.is_empty() {
                        rows.push(self.rng.pick(&self.keys).clone());
                    }
                }
                if rows.is_empty() {
                    return Ok(());
                }
                let (arrays, knobs) = self.build_batch(&rows);
                self.intern("intern-known-keys", &rows, &arrays, &knobs)
            }
        }
    }
}

fn run_history(cfg: &Cfg, seed: u64, path: &[u64], p: HistParams) -> Outcome {
    let mut rng = Rng::derive(seed, path);
    let store = match vcommon::par::guard(|| cfg.make()) {
        Ok(Ok(s)) => s,
        Ok(Err(e)) => return Outcome::Skip(format!("constructor-error: {}", e.to_string().chars().take(80).collect::<String>()), Stats::default()),
        Err(p) => return Outcome::Skip(format!("constructor-panic: {p}"), Stats::default()),
    };
    let ncols = cfg.cols.len();
    let mut doms = vec![];
    let mut null_of_8 = vec![];
    for c in 0..ncols {
        let cap = 2 + rng.usize(if ncols == 1 { 24 } else { 6 });
        let mut o = cfg.dom_opts(c);
        o.huge = p.huge;
        let mut d = domain(&cfg.cols[c].0, o, if p.huge { 64 } else { 48 }, &mut rng);
        if p.huge {
            // keep the very large values and a few small ones
            d.retain(|v| !matches!(v, Val::Bytes(b) if b.len() <= 100_000 && b.len() >= 16));
            d.truncate(12);
        } else {
            d.truncate(cap);
        }
        doms.push(d);
        let nullable = cfg.cols[c].1;
        null_of_8.push(if !nullable { 0 } else { *rng.pick(&[0u64, 1, 2, 3, 5]) });
    }
    let mut h = Hist {
        cfg,
        imp: cfg.impl_name(),
        store,
        rng,
        p,
        ids: HashMap::new(),
        keys: vec![],
        emitted: vec![],
        last_emitted_arrays: None,
        doms,
        null_of_8,
        trace: vec![],
        stats: Stats::default(),
        interned_once: false,
        last_structural: "",
        corrupted: false,
        tainted: None,
        drained_by_emit_all: false,
    };
    let script = h.p.script;
    if script != Script::Random {
        if let Err((sig, detail)) = h.run_script(script) {
            if let Some(reason) = sig.strip_prefix("SKIP:") {
                return Outcome::Skip(reason.to_string(), h.stats);
            }
            return Outcome::Violation(sig, detail, h.stats);
        }
    }
    let n_ops = if script != Script::Random { 0 } else { 2 + h.rng.usize(h.p.max_ops - 1) };
    for _ in 0..n_ops {
        if let Err((sig, detail)) = h.step() {
            if let Some(reason) = sig.strip_prefix("SKIP:") {
                return Outcome::Skip(reason.to_string(), h.stats);
            }
            return Outcome::Violation(sig, detail, h.stats);
        }
    }
    // final drain: everything that is left comes out in id order
    if h.interned_once {
        if let Err((sig, detail)) = h.emit(None) {
            if let Some(reason) = sig.strip_prefix("SKIP:") {
                return Outcome::Skip(reason.to_string(), h.stats);
            }
            return Outcome::Violation(sig, detail, h.stats);
        }
    }
    h.stats.fp = fp_str(&Json::Array(std::mem::take(&mut h.trace)).to_string());
    Outcome::Done(h.stats)
}

// ---------------------------------------------------------------------------------------
// driver
// ---------------------------------------------------------------------------------------

/// a violation inside `vectorized_equal_to` of these columns is an out-of-bounds `get_unchecked`
/// (process abort under debug assertions, undefined behaviour without): never provoke it in-process
fn abort_prone(cfg: &Cfg) -> bool {
    cfg.impl_name().starts_with("GroupValuesColumn")
        && cfg.cols.iter().any(|(d, _)| matches!(d, DataType::Utf8 | DataType::LargeUtf8 | DataType::Binary | DataType::LargeBinary | DataType::Utf8View | DataType::BinaryView))
}

struct Case {
    cfg: usize,
    index: u64,
    p: HistParams,
}

fn run(args: &Args) -> i32 {
    let rep = Report::new("C13", "exploration", args);
    let miri = args.stage == "miri";
    rep.set_rule(
        "one case = one history on one GroupValues store: 3 scripted short histories per configuration (reuse after emit(All), clear_shrink with live groups, \
         partial emit) plus seeded random histories (<= 30 ops; batches of 0..64 rows, NULL heavy, small collision-prone value domains) of \
         intern / emit(All) / emit(First(n<=len)) / clear_shrink / re-intern of emitted and surviving keys; \
         distinct = fingerprint of (configuration, full op trace); non-trivial = it created groups and interned again after an emit or clear",
    );
    rep.assume("new_group_values' dispatch is mirrored from its source to name the instantiated implementation (supported_schema is the engine's own predicate)");
    rep.assume("key equality: NULL = NULL, NaN = NaN (same bits); -0.0 = +0.0 only for top level float columns, as primitive.rs / row.rs document; nested and dictionary floats never mix signed zeros or NaN payloads");
    rep.assume("emit is only issued after the first intern call (GroupValuesRows::emit states `Can not emit from empty rows`); columns of non-nullable fields never carry NULLs");
    rep.assume("within one batch the ids given to new keys are checked as a set, not in first-seen order (the vectorised multi-column store documents a different order)");
    rep.assume("a store whose scripted probe fails on `reuse-after-emit-all` / `clear-with-live-groups` / `partial-emit-with-hash-collision-chains` is kept away from that sequence in 3 of 4 random histories (always, where the failure would be an out-of-bounds get_unchecked); a violation in a history that went through such a sequence carries the sequence's name as its signature");
    let selftest = args.opt_u64("selftest", 0);
    let only = args.opt_str("only").map(|s| s.to_string());
    let cfgs: Vec<Cfg> = configs(miri).into_iter().filter(|c| only.as_ref().map(|o| c.label.contains(o.as_str())).unwrap_or(true)).collect();
    let per_cfg = if miri {
        args.bound("hist", 6, 6)
    } else if args.stage == "memcheck" {
        args.bound("hist", 20, 60) // valgrind: the same workload, much smaller
    } else {
        args.bound("hist", 400, 20_000)
    };
    let base = HistParams { index: 0, max_ops: if miri { 8 } else { 30 }, max_rows: if miri { 6 } else { 64 }, huge: false, selftest, script: Script::Random, bad: vec![], avoid: vec![] };
    let workers = if cfg!(miri) { 1 } else { args.workers };
    let seed = args.seed;
    let stage_tag = if miri { 1u64 } else { 0 };
    let bad: std::sync::Mutex<std::collections::BTreeSet<(String, Hazard)>> = std::sync::Mutex::new(Default::default());
    // the report keeps 25 witnesses in total: hand it at most 2 per signature so none is crowded out
    let reported: std::sync::Mutex<BTreeMap<String, u64>> = std::sync::Mutex::new(BTreeMap::new());

    let exec = |cases: Vec<Case>| {
        vcommon::par::run(workers, cases.into_iter(), |case| {
            let cfg = &cfgs[case.cfg];
            let imp = cfg.impl_name();
            let script = case.p.script;
            let huge = case.p.huge;
            let path = [13, stage_tag, fp_str(&cfg.label), case.index];
            // scripted histories do not depend on the seed
            let mut p = case.p;
            p.index = case.index;
            let out = run_history(cfg, if script == Script::Random { seed } else { 0 }, &path, p);
            let (stats, verdict) = match out {
                Outcome::Done(s) => (s, None),
                Outcome::Skip(reason, s) => {
                    if reason.starts_with("no-constructible") {
                        rep.skip(&reason);
                    } else {
                        rep.skip(&format!("{reason} [{}]", cfg.label));
                    }
                    (s, None)
                }
                Outcome::Violation(sig, detail, s) => (s, Some((sig, detail))),
            };
            let nontrivial = stats.new_groups > 0 && (stats.intern_after_partial_emit + stats.intern_after_emit_all + stats.intern_after_clear) > 0;
            rep.case(fp_mix(fp_str(&cfg.label), if stats.fp != 0 { stats.fp } else { case.index }), nontrivial || verdict.is_some());
            rep.seen("implementation", &imp);
            rep.seen("configuration", &cfg.label);
            rep.count(&format!("histories/{imp}"), 1);
            if script != Script::Random {
                rep.count(&format!("scripted/{script:?}"), 1);
            }
            for (k, n) in &stats.ops {
                rep.count(&format!("op/{k}"), *n);
                rep.count(&format!("op/{k}/{imp}"), *n);
            }
            for (k, n) in &stats.hazards {
                rep.count(&format!("sequence/{k}/{imp}"), *n);
            }
            rep.count("sequence/avoided-by-guard", stats.hazards_avoided);
            rep.count("rows_interned", stats.rows);
            rep.count("groups_created", stats.new_groups);
            rep.max("max_live_groups", stats.max_len);
            rep.count("null_cells", stats.null_rows);
            rep.count("byte_cells_longer_than_12", stats.long_views);
            rep.count("byte_cells_up_to_12", stats.short_views);
            rep.count(&format!("batches_new_ids_first_seen_order/{imp}"), stats.first_seen_order);
            rep.count(&format!("batches_new_ids_other_order/{imp}"), stats.other_order);
            rep.count("partial_emits", stats.partial_emits);
            rep.count(&format!("intern_after_partial_emit/{imp}"), stats.intern_after_partial_emit);
            rep.count(&format!("intern_after_emit_all/{imp}"), stats.intern_after_emit_all);
            rep.count(&format!("intern_after_clear/{imp}"), stats.intern_after_clear);
            let hist_ops: u64 = stats.ops.values().sum();
            let bucket = match hist_ops {
                0..=5 => "01-05",
                6..=10 => "06-10",
                11..=20 => "11-20",
                21..=40 => "21-40",
                _ => "41+",
            };
            rep.count(&format!("history_ops_bucket/{bucket}"), 1);
            if huge {
                rep.count("histories_with_600KiB_values", 1);
            }
            if rep.want_sample() && verdict.is_none() && nontrivial && script == Script::Random {
                rep.sample(json!({"config": cfg.to_json(), "history_index": case.index, "ops": stats.ops, "groups_created": stats.new_groups, "max_live_groups": stats.max_len}));
            }
            if let Some((sig, detail)) = verdict {
                for h in HAZARDS {
                    if sig.starts_with(h.name()) {
                        bad.lock().unwrap().insert((imp.clone(), h));
                    }
                }
                let nth = {
                    let mut g = reported.lock().unwrap();
                    let e = g.entry(sig.clone()).or_insert(0);
                    *e += 1;
                    *e
                };
                rep.count(&format!("violating_histories/{sig}"), 1);
                if nth <= 2 {
                    rep.violation(&sig, detail);
                }
            }
        });
    };

    // 1. scripted probes: stores whose failure mode is a plain panic first
    // (the self-test corrupts observations of the random histories only: the probes must stay truthful)
    let scripted = |ci: usize, script: Script, k: u64| Case { cfg: ci, index: 2_000_000 + k, p: HistParams { script, selftest: 0, ..base.clone() } };
    let mut wave_a = vec![];
    let mut wave_b = vec![];
    for (ci, c) in cfgs.iter().enumerate() {
        let w = if abort_prone(c) { &mut wave_b } else { &mut wave_a };
        w.push(ci);
    }
    exec(wave_a
        .iter()
        .flat_map(|ci| [scripted(*ci, Script::ReuseAfterEmitAll, 0), scripted(*ci, Script::ClearWithLiveGroups, 1), scripted(*ci, Script::PartialEmit, 2), scripted(*ci, Script::HashCollisionPartialEmit, 3)])
        .collect());
    let known_bad = |cfg: &Cfg, h: Hazard| bad.lock().unwrap().contains(&(cfg.impl_name(), h));
    let mut cases_b = vec![];
    for ci in &wave_b {
        if known_bad(&cfgs[*ci], Hazard::ReuseAfterEmitAll) {
            rep.count("scripted/ReuseAfterEmitAll-not-run-would-abort", 1);
        } else {
            cases_b.push(scripted(*ci, Script::ReuseAfterEmitAll, 0));
        }
        cases_b.push(scripted(*ci, Script::ClearWithLiveGroups, 1));
        cases_b.push(scripted(*ci, Script::PartialEmit, 2));
        cases_b.push(scripted(*ci, Script::HashCollisionPartialEmit, 3));
    }
    exec(cases_b);

    // 2. seeded random histories
    let params_for = |cfg: &Cfg, h: u64, mut p: HistParams| -> HistParams {
        for hz in HAZARDS {
            if known_bad(cfg, hz) {
                p.bad.push(hz);
                // under Miri a sequence known to break is left to the scripted probes alone
                if miri || h % 4 != 0 || (hz == Hazard::ReuseAfterEmitAll && abort_prone(cfg)) {
                    p.avoid.push(hz);
                }
            }
        }
        p
    };
    let mut cases: Vec<Case> = vec![];
    for (ci, c) in cfgs.iter().enumerate() {
        for h in 0..per_cfg {
            // a share of histories with small batches keeps emits frequent relative to growth
            let mut hp = base.clone();
            if h % 3 == 1 && !miri {
                hp.max_rows = 10;
            }
            cases.push(Case { cfg: ci, index: h, p: params_for(c, h, hp) });
        }
    }
    // block roll-over of the view/byte builders (2 MiB blocks): a few histories with very large values
    if !miri && selftest == 0 {
        for (ci, c) in cfgs.iter().enumerate() {
            let bytes_first = matches!(c.cols[0].0, DataType::Utf8View | DataType::BinaryView | DataType::Utf8 | DataType::LargeBinary);
            if bytes_first && c.cols.iter().all(|(d, _)| !d.is_nested() && !matches!(d, DataType::Dictionary(_, _))) {
                for h in 0..args.bound("huge", 1, 6) {
                    let hp = HistParams { max_ops: 10, max_rows: 8, huge: true, ..base.clone() };
                    cases.push(Case { cfg: ci, index: 1_000_000 + h, p: params_for(c, 1, hp) });
                }
            }
        }
    }
    if let Some(h) = args.opt_str("hist_only").and_then(|s| s.parse::<u64>().ok()) {
        cases.retain(|c| c.index == h);
    }
    exec(cases);

    // coverage obligations
    let want_impls: &[&str] = if miri {
        &["GroupValuesBytes<i32>", "GroupValuesBytesView", "GroupValuesPrimitive", "GroupValuesColumn<false>", "GroupValuesColumn<true>"]
    } else {
        &[
            "GroupValuesPrimitive",
            "GroupValuesBytes<i32>",
            "GroupValuesBytes<i64>",
            "GroupValuesBytesView",
            "GroupValuesBoolean",
            "GroupValuesColumn<false>",
            "GroupValuesColumn<true>",
            "GroupValuesRows",
        ]
    };
    if only.is_none() {
        let missing: Vec<&str> = want_impls.iter().copied().filter(|i| !rep.has_seen("implementation", i)).collect();
        rep.obligation("every-implementation-instantiated", missing.is_empty(), &format!("missing: {missing:?}"));
        let mut thin: Vec<String> = vec![];
        for i in want_impls {
            if selftest == 0 && (rep.get_count(&format!("intern_after_partial_emit/{i}")) == 0 || rep.get_count(&format!("op/emit-all/{i}")) == 0) {
                thin.push(i.to_string());
            }
        }
        rep.obligation("partial-emit-then-intern-per-implementation", thin.is_empty(), &format!("no emit(First(n)) followed by intern (or no emit(All)) on: {thin:?}"));
    }
    let bad_list: Vec<String> = bad.lock().unwrap().iter().map(|(i, h)| format!("{}/{i}", h.name())).collect();
    rep.extra("sequences_not_survived", json!(bad_list));
    rep.extra("configurations", json!(cfgs.len()));
    rep.extra("random_histories_per_configuration", json!(per_cfg));
    rep.finish()
}
