//! Shared pieces of the C16 monitors: identifiable batches, the environment (real spill files
//! through a real `DiskManager`), the counting waker and the "poll to quiescence" primitive.

use arrow::array::{Array, Int64Array, RecordBatch, UInt64Array};
use arrow::datatypes::{DataType, Field, Schema, SchemaRef};
use datafusion_execution::SendableRecordBatchStream;
use datafusion_execution::disk_manager::{DiskManager, DiskManagerBuilder, DiskManagerMode};
use datafusion_execution::runtime_env::{RuntimeEnv, RuntimeEnvBuilder};
use datafusion_physical_plan::metrics::{ExecutionPlanMetricsSet, SpillMetrics};
use datafusion_physical_plan::spill::spill_pool::{self, SpillPoolSink, SpillPoolWriter};
use datafusion_physical_plan::SpillManager;
use futures::StreamExt;
use std::future::Future;
use std::path::{Path, PathBuf};
use std::pin::Pin;
use std::sync::atomic::{AtomicBool, AtomicU64, Ordering};
use std::sync::{Arc, Mutex, OnceLock};
use std::task::{Context, Poll, Wake, Waker};
use std::time::Duration;

// ---------------------------------------------------------------------------------------
// Batches that identify themselves
// ---------------------------------------------------------------------------------------

pub fn schema() -> SchemaRef {
    static S: OnceLock<SchemaRef> = OnceLock::new();
    S.get_or_init(|| {
        Arc::new(Schema::new(vec![Field::new("id", DataType::UInt64, false), Field::new("v", DataType::Int64, false)]))
    })
    .clone()
}

fn payload(id: u64, i: usize) -> i64 {
    (id.wrapping_mul(0x9e37_79b9).wrapping_add(i as u64 * 31) & 0x7fff_ffff) as i64
}

/// A batch whose every row carries `id`; `rows` may be 0.
pub fn make_batch(id: u64, rows: usize) -> RecordBatch {
    let ids = UInt64Array::from(vec![id; rows]);
    let v = Int64Array::from_iter_values((0..rows).map(|i| payload(id, i)));
    RecordBatch::try_new(schema(), vec![Arc::new(ids), Arc::new(v)]).expect("batch")
}

/// (id, rows) of a delivered batch, or a description of what is wrong with its content.
pub fn read_batch(b: &RecordBatch) -> Result<(u64, usize), String> {
    if b.schema() != schema() {
        return Err(format!("schema differs: {:?}", b.schema()));
    }
    let ids = b.column(0).as_any().downcast_ref::<UInt64Array>().ok_or("id column type")?;
    let v = b.column(1).as_any().downcast_ref::<Int64Array>().ok_or("v column type")?;
    if b.num_rows() == 0 {
        return Err("a zero-row batch was delivered".into());
    }
    if ids.null_count() > 0 || v.null_count() > 0 {
        return Err("nulls in a non-null column".into());
    }
    let id = ids.value(0);
    for i in 0..b.num_rows() {
        if ids.value(i) != id {
            return Err(format!("row {i} carries id {} but row 0 carries {id}", ids.value(i)));
        }
        if v.value(i) != payload(id, i) {
            return Err(format!("payload of batch {id} row {i} is {} expected {}", v.value(i), payload(id, i)));
        }
    }
    Ok((id, b.num_rows()))
}

/// in-memory size the pool uses for its rotation decision
pub fn mem_size(rows: usize) -> usize {
    make_batch(1, rows).get_array_memory_size()
}

// ---------------------------------------------------------------------------------------
// Environment
// ---------------------------------------------------------------------------------------

pub struct Env {
    pub rt: Arc<RuntimeEnv>,
    pub metrics: SpillMetrics,
    pub sm: Arc<SpillManager>,
}

impl Env {
    pub fn dm(&self) -> &Arc<DiskManager> {
        &self.rt.disk_manager
    }
    pub fn files_created(&self) -> usize {
        self.metrics.spill_file_count.value()
    }
}

/// Each harness thread works below its own sub-directory (directory mutations under one parent
/// serialise in the kernel).
fn thread_dir(root: &Path) -> PathBuf {
    static NEXT: AtomicU64 = AtomicU64::new(0);
    thread_local! { static ID: u64 = NEXT.fetch_add(1, Ordering::Relaxed); }
    let p = root.join(format!("t{}", ID.with(|i| *i)));
    if !p.exists() {
        let _ = std::fs::create_dir_all(&p);
    }
    p
}

/// `disabled`: the DiskManager refuses to create temp files at all.
pub fn make_env(root: &Path, disabled: bool) -> Env {
    let b: DiskManagerBuilder = if disabled {
        DiskManager::builder().with_mode(DiskManagerMode::Disabled)
    } else {
        DiskManager::builder().with_mode(DiskManagerMode::Directories(vec![thread_dir(root)]))
    };
    let rt = RuntimeEnvBuilder::new().with_disk_manager_builder(b).build_arc().expect("runtime env");
    let metrics = SpillMetrics::new(&ExecutionPlanMetricsSet::new(), 0);
    let sm = Arc::new(SpillManager::new(rt.clone(), metrics.clone(), schema()));
    Env { rt, metrics, sm }
}

/// process-wide scratch root (removed by `cleanup_root`)
pub fn scratch_root(tag: &str, opt: Option<&str>) -> PathBuf {
    let base = opt.map(PathBuf::from).unwrap_or_else(std::env::temp_dir);
    let p = base.join(format!("verif-{tag}-{}", std::process::id()));
    let _ = std::fs::create_dir_all(&p);
    p
}

pub fn cleanup_root(p: &Path) {
    let _ = std::fs::remove_dir_all(p);
}

// ---------------------------------------------------------------------------------------
// Writer handles
// ---------------------------------------------------------------------------------------

pub enum Handle {
    Writer(SpillPoolWriter),
    Sink(SpillPoolSink),
}

impl Handle {
    pub fn push(&self, b: &RecordBatch) -> datafusion_common::Result<()> {
        match self {
            Handle::Writer(w) => w.push_batch(b),
            Handle::Sink(s) => s.push_batch(b),
        }
    }
    /// `via_sink`: `new_sink()` instead of `clone()`. None for a sink (it cannot be duplicated).
    pub fn dup(&self, via_sink: bool) -> Option<Handle> {
        match self {
            Handle::Writer(w) if via_sink => Some(Handle::Sink(w.new_sink())),
            Handle::Writer(w) => Some(Handle::Writer(w.clone())),
            Handle::Sink(_) => None,
        }
    }
}

pub fn open_channel(env: &Env, mpsc: bool, threshold: usize) -> (Handle, SendableRecordBatchStream) {
    if mpsc {
        let (w, r) = spill_pool::mpsc_channel(threshold, env.sm.clone());
        (Handle::Writer(w), r)
    } else {
        let (w, r) = spill_pool::spsc_channel(threshold, env.sm.clone());
        (Handle::Sink(w), r)
    }
}

// ---------------------------------------------------------------------------------------
// Counting waker + poll-to-quiescence
// ---------------------------------------------------------------------------------------

/// The waker handed to the reader. `fired` = woken since the reader was last polled.
pub struct CountingWaker {
    pub fired: AtomicBool,
    pub wakes: AtomicU64,
    outer: Mutex<Option<Waker>>,
    /// self-test: pretend wake-ups were never observed
    pub blind: AtomicBool,
    /// self-test: swallow wake-ups (they are counted but never reach the executor)
    pub deaf: AtomicBool,
}

impl CountingWaker {
    pub fn new() -> Arc<Self> {
        Arc::new(CountingWaker { fired: AtomicBool::new(false), wakes: AtomicU64::new(0), outer: Mutex::new(None), blind: AtomicBool::new(false), deaf: AtomicBool::new(false) })
    }
    fn set_outer(&self, w: &Waker) {
        let mut g = self.outer.lock().unwrap();
        match &*g {
            Some(o) if o.will_wake(w) => {}
            _ => *g = Some(w.clone()),
        }
    }
    pub fn is_fired(&self) -> bool {
        !self.blind.load(Ordering::SeqCst) && self.fired.load(Ordering::SeqCst)
    }
}

impl Wake for CountingWaker {
    fn wake(self: Arc<Self>) {
        self.wake_by_ref()
    }
    fn wake_by_ref(self: &Arc<Self>) {
        self.wakes.fetch_add(1, Ordering::SeqCst);
        if self.deaf.load(Ordering::SeqCst) {
            return;
        }
        self.fired.store(true, Ordering::SeqCst);
        let o = self.outer.lock().unwrap().clone();
        if let Some(o) = o {
            o.wake();
        }
    }
}

/// Future that polls the reader only like an executor would: the first time, and afterwards
/// only when the reader's own waker has fired. Never re-polls on an unrelated wake-up.
pub struct Gate<'a> {
    pub reader: &'a mut SendableRecordBatchStream,
    pub cw: &'a Arc<CountingWaker>,
    pub first: bool,
}

impl Future for Gate<'_> {
    type Output = Option<datafusion_common::Result<RecordBatch>>;
    fn poll(mut self: Pin<&mut Self>, cx: &mut Context<'_>) -> Poll<Self::Output> {
        let this = &mut *self;
        this.cw.set_outer(cx.waker());
        let fired = this.cw.fired.swap(false, Ordering::SeqCst);
        if !(this.first || fired) {
            return Poll::Pending;
        }
        this.first = false;
        let w = Waker::from(this.cw.clone());
        let mut cx2 = Context::from_waker(&w);
        this.reader.poll_next_unpin(&mut cx2)
    }
}

pub enum Polled {
    Item(datafusion_common::Result<RecordBatch>),
    Eos,
    /// the reader returned Pending and nothing at all is left that could wake it by itself
    /// (no runnable task, no outstanding blocking file operation): virtual-time quiescence
    PendingQuiescent,
}

pub fn paused_runtime() -> tokio::runtime::Runtime {
    tokio::runtime::Builder::new_current_thread().enable_all().start_paused(true).build().expect("tokio runtime")
}

/// One *logical* poll of the reader: poll it, let outstanding blocking file reads finish and
/// re-poll when they wake it, and return once it is Ready or quiescently Pending. With the paused
/// clock the timeout can only fire when the runtime is idle and no blocking task is outstanding.
pub fn poll_quiescent(rt: &tokio::runtime::Runtime, reader: &mut SendableRecordBatchStream, cw: &Arc<CountingWaker>) -> Polled {
    rt.block_on(async {
        match tokio::time::timeout(Duration::from_secs(60), Gate { reader, cw, first: true }).await {
            Ok(Some(item)) => Polled::Item(item),
            Ok(None) => Polled::Eos,
            Err(_) => Polled::PendingQuiescent,
        }
    })
}

/// At most 5 witnesses per signature are handed to the report (it keeps no more anyway); every
/// occurrence is counted, so the evidence shows the true number.
pub fn report_violation(rep: &vcommon::Report, sig: &str, detail: vcommon::Json) {
    static SEEN: std::sync::Mutex<std::collections::BTreeMap<String, u32>> = std::sync::Mutex::new(std::collections::BTreeMap::new());
    rep.count(&format!("violation_occurrences/{sig}"), 1);
    let mut g = SEEN.lock().unwrap_or_else(|e| e.into_inner());
    let n = g.entry(sig.to_string()).or_insert(0);
    *n += 1;
    if *n <= 5 {
        rep.violation(sig, detail);
    }
}
