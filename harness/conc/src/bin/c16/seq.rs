//! Stage 1 (sequential history explorer) and stage 3 (fault enumeration) of C16.
//!
//! Every operation is a *complete call* on the real spill pool (`push_batch` is synchronous,
//! a reader poll is run to virtual-time quiescence). After every operation the shadow model is
//! advanced and all rules are evaluated, in particular the immediate lost-wake-up rule.

use crate::common::*;
use datafusion_execution::SendableRecordBatchStream;
use datafusion_execution::disk_manager::DEFAULT_MAX_TEMP_DIRECTORY_SIZE;
use std::collections::{BTreeSet, VecDeque};
use std::path::Path;
use std::sync::atomic::Ordering;
use vcommon::{fp_mix, json, Json, Report, Rng};

// ---------------------------------------------------------------------------------------
// Scenarios
// ---------------------------------------------------------------------------------------

#[derive(Clone, Debug, PartialEq)]
pub enum WOp {
    /// push a batch with this many rows (0 = empty batch, which the pool skips)
    Push(usize),
    /// `clone()` (or `new_sink()`) of this handle; the new handle runs the next unused script
    Dup { via_sink: bool },
}

#[derive(Clone, Debug)]
pub struct Scenario {
    pub mpsc: bool,
    pub threshold: usize,
    pub thr_name: String,
    /// scripts[i] is executed by the i-th handle ever created; a handle is dropped after its script
    pub scripts: Vec<Vec<WOp>>,
    /// Some(n): the reader may be dropped (as its own schedulable action) once it received n batches
    pub reader_drop_after: Option<usize>,
}

impl Scenario {
    pub fn to_json(&self) -> Json {
        json!({
            "channel": if self.mpsc { "mpsc_channel" } else { "spsc_channel" },
            "max_file_size_bytes": self.threshold as u64,
            "threshold": self.thr_name,
            "scripts": self.scripts.iter().map(|s| s.iter().map(|o| format!("{o:?}")).collect::<Vec<_>>()).collect::<Vec<_>>(),
            "reader_drop_after": self.reader_drop_after,
        })
    }
    pub fn fp(&self) -> u64 {
        vcommon::fp_str(&self.to_json().to_string())
    }
    pub fn n_pushes(&self) -> usize {
        self.scripts.iter().flatten().filter(|o| matches!(o, WOp::Push(r) if *r > 0)).count()
    }
}

pub const BASE_ROWS: usize = 8;

/// the four rotation thresholds of the design: rotate after every batch, after two, after three, never
pub fn thresholds() -> Vec<(String, usize)> {
    let s = mem_size(BASE_ROWS);
    vec![("zero".into(), 0), ("one-batch".into(), s), ("two-batches".into(), 2 * s), ("huge".into(), usize::MAX)]
}

pub fn tiny_scenarios() -> Vec<Scenario> {
    use WOp::*;
    let b = BASE_ROWS;
    let mk = |mpsc: bool, scripts: Vec<Vec<WOp>>, rd: Option<usize>| Scenario { mpsc, threshold: 0, thr_name: String::new(), scripts, reader_drop_after: rd };
    let base = vec![
        // single writer, three batches
        mk(false, vec![vec![Push(b), Push(b), Push(b)]], None),
        // single writer with an empty batch in the middle and a small last batch
        mk(false, vec![vec![Push(b), Push(0), Push(3)]], None),
        // mpsc used by one writer only (never cloned)
        mk(true, vec![vec![Push(b), Push(b)]], None),
        // two writers (clone), the clone outlives the original
        mk(true, vec![vec![Dup { via_sink: false }, Push(b)], vec![Push(b), Push(b)]], None),
        // two writers (new_sink), the original outlives the sink
        mk(true, vec![vec![Push(b), Dup { via_sink: true }, Push(b)], vec![Push(b)]], None),
        // three writers, one batch each
        mk(true, vec![vec![Dup { via_sink: false }, Dup { via_sink: true }, Push(b)], vec![Push(b)], vec![Push(b)]], None),
        // the reader leaves after the first batch while the writer continues
        mk(false, vec![vec![Push(b), Push(b), Push(b)]], Some(1)),
        // a writer that never pushes, next to one that does
        mk(true, vec![vec![Dup { via_sink: false }], vec![Push(b), Push(0), Push(b)]], None),
    ];
    let mut out = vec![];
    for sc in base {
        for (name, t) in thresholds() {
            let mut s = sc.clone();
            s.threshold = t;
            s.thr_name = name;
            out.push(s);
        }
    }
    out
}

pub fn gen_scenario(rng: &mut Rng, max_writers: usize, max_pushes: usize) -> Scenario {
    let mpsc = rng.chance(3, 4);
    let n_w = if mpsc { 1 + rng.usize(max_writers) } else { 1 };
    let mut scripts: Vec<Vec<WOp>> = vec![vec![]; n_w];
    // pushes
    for s in scripts.iter_mut() {
        let n = rng.usize(max_pushes + 1);
        for _ in 0..n {
            let rows = if rng.chance(3, 20) { 0 } else { *rng.pick(&[1usize, 3, BASE_ROWS, BASE_ROWS, 64]) };
            s.push(WOp::Push(rows));
        }
    }
    // every handle but the first is created by a Dup placed at a random position of an earlier
    // *writer* handle (sinks cannot be duplicated)
    let mut is_sink = vec![false; n_w];
    for i in 1..n_w {
        let parents: Vec<usize> = (0..i).filter(|p| !is_sink[*p]).collect();
        let p = *rng.pick(&parents);
        let via_sink = rng.chance(1, 3);
        is_sink[i] = via_sink;
        // keep creation order == script order: insert after all Dups already present in p that create earlier handles
        let lo = scripts[p].iter().rposition(|o| matches!(o, WOp::Dup { .. })).map(|x| x + 1).unwrap_or(0);
        let pos = lo + rng.usize(scripts[p].len() - lo + 1);
        scripts[p].insert(pos, WOp::Dup { via_sink });
    }
    let (thr_name, threshold) = if rng.chance(1, 6) {
        let t = rng.usize(3 * mem_size(BASE_ROWS));
        (format!("random({t})"), t)
    } else {
        rng.pick_cloned(&thresholds())
    };
    let reader_drop_after = if rng.chance(1, 10) { Some(rng.usize(3)) } else { None };
    Scenario { mpsc, threshold, thr_name, scripts, reader_drop_after }
}

// ---------------------------------------------------------------------------------------
// Faults
// ---------------------------------------------------------------------------------------

#[derive(Clone, Debug, PartialEq)]
pub enum Fault {
    None,
    /// before the k-th non-empty push the quota is set to `used_disk_space() + delta`;
    /// `restore`: the quota is lifted again right after that push returned
    Quota { push_k: usize, delta: u64, restore: bool },
    /// the spill directory is moved away for the duration of the k-th non-empty push, so a
    /// temp-file creation inside that push fails (existing files stay intact)
    CreateFail { push_k: usize },
    /// DiskManager in Disabled mode: every temp-file creation fails
    Disabled,
}

impl Fault {
    pub fn kind(&self) -> &'static str {
        match self {
            Fault::None => "none",
            Fault::Quota { restore: true, .. } => "quota-transient",
            Fault::Quota { restore: false, .. } => "quota-persistent",
            Fault::CreateFail { .. } => "tempfile-creation",
            Fault::Disabled => "disk-manager-disabled",
        }
    }
}

// ---------------------------------------------------------------------------------------
// Shadow model
// ---------------------------------------------------------------------------------------

#[derive(Clone, Copy, Debug, PartialEq)]
pub enum RState {
    /// not polled yet, or the last poll returned an item
    Idle,
    Pending,
    Eos,
    Dropped,
    /// gave up polling after persistent read errors (fault stage only)
    ErrEnd,
}

#[derive(Debug)]
pub struct Model {
    /// Ok-pushed, non-empty, not yet delivered (in push order)
    pub queue: VecDeque<(u64, usize)>,
    /// batches whose push returned Err and that were not delivered (they may legally appear)
    pub maybe: BTreeSet<u64>,
    pub delivered: BTreeSet<u64>,
    pub writers: usize,
    pub ever_writers: usize,
    pub reader: RState,
    pub failed_pushes: usize,
    pub read_errors: usize,
    pub faults_allowed: bool,
}

pub type Verdict = Result<(), (String, String)>;

impl Model {
    fn new(faults_allowed: bool) -> Model {
        Model { queue: VecDeque::new(), maybe: BTreeSet::new(), delivered: BTreeSet::new(), writers: 1, ever_writers: 1, reader: RState::Idle, failed_pushes: 0, read_errors: 0, faults_allowed }
    }
    fn fifo_required(&self) -> bool {
        self.ever_writers == 1
    }
    fn push_ret(&mut self, id: u64, rows: usize, ok: bool, err: &str) -> Verdict {
        if ok {
            if rows > 0 {
                self.queue.push_back((id, rows));
            }
            Ok(())
        } else {
            self.failed_pushes += 1;
            self.maybe.insert(id);
            if self.faults_allowed { Ok(()) } else { Err(("push-error-without-fault".into(), format!("push of batch {id} failed although no fault was injected: {err}"))) }
        }
    }
    fn recv(&mut self, id: u64, rows: usize) -> Verdict {
        self.reader = RState::Idle;
        if self.delivered.contains(&id) {
            return Err(("duplicate-batch".into(), format!("batch {id} was delivered twice")));
        }
        if let Some(pos) = self.queue.iter().position(|(q, _)| *q == id) {
            if self.fifo_required() && pos != 0 {
                return Err(("order-violation".into(), format!("single-writer channel delivered batch {id} before batch {}", self.queue[0].0)));
            }
            let (_, r) = self.queue.remove(pos).unwrap();
            if r != rows {
                return Err(("corrupt-batch".into(), format!("batch {id} was pushed with {r} rows and delivered with {rows}")));
            }
            self.delivered.insert(id);
            Ok(())
        } else if self.maybe.remove(&id) {
            // a batch whose push reported an error may still surface; permitted
            self.delivered.insert(id);
            Ok(())
        } else {
            Err(("phantom-batch".into(), format!("batch {id} was delivered but never pushed successfully (or was empty)")))
        }
    }
    fn eos(&mut self) -> Verdict {
        self.reader = RState::Eos;
        if self.writers > 0 {
            return Err(("early-eos".into(), format!("end-of-stream with {} live writer(s)", self.writers)));
        }
        if !self.queue.is_empty() {
            return Err(("lost-batch".into(), format!("end-of-stream although batches {:?} were pushed successfully and never delivered", self.queue.iter().map(|x| x.0).collect::<Vec<_>>())));
        }
        Ok(())
    }
    /// enabling condition of a pending reader (property statement)
    pub fn reader_enabled(&self) -> bool {
        !self.queue.is_empty() || self.writers == 0
    }
}

// ---------------------------------------------------------------------------------------
// One history
// ---------------------------------------------------------------------------------------

#[derive(Default, Debug)]
pub struct RunOut {
    pub trace: Vec<String>,
    pub steps: u64,
    pub ops: u64,
    pub pushes_ok: u64,
    pub pushes_err: u64,
    pub delivered: u64,
    pub pending_episodes: u64,
    pub wakes: u64,
    pub files_created: u64,
    /// bytes charged to the disk manager by each non-empty push (fault-free prefix)
    pub push_bytes: Vec<u64>,
    /// rows of each non-empty push
    pub push_rows: Vec<usize>,
    pub read_errors: u64,
    pub fault_triggered: bool,
    pub sched_fp: u64,
    pub final_used: u64,
    pub reached_eos: bool,
    pub multi_writer: bool,
    pub violation: Option<(String, String)>,
}

pub struct Ctx<'a> {
    pub rt: &'a tokio::runtime::Runtime,
    pub root: &'a Path,
    /// 0 = off, 1 = corrupt the id of the 2nd delivered batch, 2 = blind the wake observation
    pub selftest: u64,
}

#[derive(Clone, Copy, PartialEq)]
enum Act {
    Step(usize),
    Poll,
    DropReader,
}

pub fn run_history(sc: &Scenario, fault: &Fault, choose: &mut dyn FnMut(usize) -> usize, ctx: &Ctx) -> RunOut {
    let env = make_env(ctx.root, *fault == Fault::Disabled);
    let (h0, reader) = open_channel(&env, sc.mpsc, sc.threshold);
    let mut reader: Option<SendableRecordBatchStream> = Some(reader);
    let cw = CountingWaker::new();
    if ctx.selftest == 2 {
        cw.blind.store(true, Ordering::SeqCst);
    }
    let mut handles: Vec<Option<Handle>> = vec![Some(h0)];
    let mut pc: Vec<usize> = vec![0];
    let mut model = Model::new(*fault != Fault::None);
    let mut out = RunOut::default();
    let mut next_id: u64 = 1;
    let mut push_idx = 0usize; // index among non-empty pushes
    let mut dirty = false; // a writer-side operation happened since the last poll
    let mut consecutive_errs = 0;
    let stuck_sig = |m: &Model| if m.failed_pushes > 0 { "reader-stuck-after-failed-push" } else { "lost-wakeup" };

    loop {
        let mut acts: Vec<Act> = vec![];
        for (h, x) in handles.iter().enumerate() {
            if x.is_some() {
                acts.push(Act::Step(h));
            }
        }
        if reader.is_some() {
            let can_poll = match model.reader {
                RState::Idle => true,
                RState::Pending => cw.is_fired() || dirty,
                _ => false,
            };
            if can_poll {
                acts.push(Act::Poll);
            }
            if let Some(n) = sc.reader_drop_after {
                if model.delivered.len() >= n {
                    acts.push(Act::DropReader);
                }
            }
        }
        if acts.is_empty() {
            if reader.is_some() && model.reader == RState::Pending {
                out.violation = Some((stuck_sig(&model).into(), "quiescent: every writer is dropped, the reader is pending and nothing will ever wake it".into()));
            }
            break;
        }
        let a = acts[choose(acts.len())];
        out.steps += 1;
        out.sched_fp = fp_mix(out.sched_fp, match a { Act::Step(h) => h as u64, Act::Poll => 100, Act::DropReader => 101 });
        let mut verdict: Verdict = Ok(());
        match a {
            Act::Step(h) => {
                dirty = true;
                out.ops += 1;
                let op = sc.scripts.get(h).and_then(|s| s.get(pc[h])).cloned();
                pc[h] += 1;
                match op {
                    Some(WOp::Push(rows)) => {
                        let id = next_id;
                        next_id += 1;
                        let batch = make_batch(id, rows);
                        let dm = env.dm().clone();
                        let mut moved: Option<(std::path::PathBuf, std::path::PathBuf)> = None;
                        let this_is_k = rows > 0 && match fault {
                            Fault::Quota { push_k, .. } | Fault::CreateFail { push_k } => *push_k == push_idx,
                            _ => false,
                        };
                        if this_is_k {
                            match fault {
                                Fault::Quota { delta, .. } => {
                                    let _ = dm.set_max_temp_directory_size(dm.used_disk_space() + delta);
                                }
                                Fault::CreateFail { .. } => {
                                    if let Some(p) = dm.temp_dir_paths().first() {
                                        let away = p.with_extension("away");
                                        if std::fs::rename(p, &away).is_ok() {
                                            moved = Some((away, p.clone()));
                                        }
                                    }
                                }
                                _ => {}
                            }
                        }
                        let used0 = dm.used_disk_space();
                        let r = handles[h].as_ref().unwrap().push(&batch);
                        let used1 = dm.used_disk_space();
                        if let Some((away, back)) = moved {
                            let _ = std::fs::rename(away, back);
                        }
                        if this_is_k {
                            if let Fault::Quota { restore: true, .. } = fault {
                                let _ = dm.set_max_temp_directory_size(DEFAULT_MAX_TEMP_DIRECTORY_SIZE);
                            }
                            if r.is_err() {
                                out.fault_triggered = true;
                            }
                        }
                        if *fault == Fault::Disabled && r.is_err() {
                            out.fault_triggered = true;
                        }
                        if rows > 0 {
                            push_idx += 1;
                            out.push_bytes.push(used1.saturating_sub(used0));
                            out.push_rows.push(rows);
                        }
                        let err = r.as_ref().err().map(|e| e.to_string().chars().take(160).collect::<String>()).unwrap_or_default();
                        out.trace.push(format!("w{h}.push_batch(id={id}, rows={rows}) -> {}", if r.is_ok() { "Ok".to_string() } else { format!("Err({err})") }));
                        if r.is_ok() { out.pushes_ok += 1 } else { out.pushes_err += 1 }
                        verdict = model.push_ret(id, rows, r.is_ok(), &err);
                    }
                    Some(WOp::Dup { via_sink }) => {
                        let nh = handles[h].as_ref().unwrap().dup(via_sink);
                        match nh {
                            Some(nh) => {
                                out.trace.push(format!("w{} = w{h}.{}", handles.len(), if via_sink { "new_sink()" } else { "clone()" }));
                                handles.push(Some(nh));
                                pc.push(0);
                                model.writers += 1;
                                model.ever_writers += 1;
                            }
                            None => out.trace.push(format!("w{h}: dup skipped (sink)")),
                        }
                    }
                    None => {
                        let hd = handles[h].take();
                        drop(hd);
                        model.writers -= 1;
                        out.trace.push(format!("drop(w{h})"));
                    }
                }
            }
            Act::Poll => {
                dirty = false;
                let r = poll_quiescent(ctx.rt, reader.as_mut().unwrap(), &cw);
                match r {
                    Polled::Item(Ok(b)) => {
                        consecutive_errs = 0;
                        match read_batch(&b) {
                            Ok((mut id, rows)) => {
                                out.delivered += 1;
                                if ctx.selftest == 1 && out.delivered == 2 {
                                    id += 1000; // self-test: corrupt the observation
                                }
                                out.trace.push(format!("reader.poll_next() -> batch id={id} rows={rows}"));
                                verdict = model.recv(id, rows);
                            }
                            Err(e) => {
                                out.trace.push(format!("reader.poll_next() -> malformed batch: {e}"));
                                verdict = Err(("corrupt-batch".into(), e));
                            }
                        }
                    }
                    Polled::Item(Err(e)) => {
                        let e = e.to_string().chars().take(200).collect::<String>();
                        out.trace.push(format!("reader.poll_next() -> Err({e})"));
                        out.read_errors += 1;
                        model.read_errors += 1;
                        model.reader = RState::Idle;
                        consecutive_errs += 1;
                        if !model.faults_allowed {
                            verdict = Err(("reader-error".into(), format!("the reader returned an error although no fault was injected: {e}")));
                        } else if consecutive_errs >= 4 {
                            model.reader = RState::ErrEnd;
                        }
                    }
                    Polled::Eos => {
                        out.trace.push("reader.poll_next() -> None".into());
                        out.reached_eos = true;
                        verdict = model.eos();
                    }
                    Polled::PendingQuiescent => {
                        out.trace.push("reader.poll_next() -> Pending".into());
                        out.pending_episodes += 1;
                        model.reader = RState::Pending;
                    }
                }
            }
            Act::DropReader => {
                reader = None;
                model.reader = RState::Dropped;
                out.trace.push("drop(reader)".into());
            }
        }
        if let Err(v) = verdict {
            out.violation = Some(v);
            break;
        }
        // immediate lost-wake-up rule on the state after the operation
        if reader.is_some() && model.reader == RState::Pending && !cw.is_fired() && model.reader_enabled() {
            out.violation = Some((
                stuck_sig(&model).into(),
                format!(
                    "reader is Pending, {} successfully pushed batch(es) are undelivered, {} writer(s) alive, and its waker has not fired since it registered",
                    model.queue.len(),
                    model.writers
                ),
            ));
            break;
        }
        if out.steps > 2000 {
            out.violation = Some(("livelock".into(), "step bound exceeded".into()));
            break;
        }
    }
    // a reader that ended on persistent read errors must not hide successfully pushed batches
    if out.violation.is_none() && model.reader == RState::ErrEnd && !model.queue.is_empty() {
        out.violation = Some((
            "read-error-hides-ok-batches".into(),
            format!("the reader keeps returning errors while batches {:?} were pushed successfully and never delivered", model.queue.iter().map(|x| x.0).collect::<Vec<_>>()),
        ));
    }
    out.wakes = cw.wakes.load(Ordering::SeqCst);
    out.files_created = env.files_created() as u64;
    out.multi_writer = model.ever_writers > 1;
    drop(reader);
    handles.clear();
    out.final_used = env.dm().used_disk_space();
    out
}

pub fn witness(sc: &Scenario, fault: &Fault, choices: &[usize], out: &RunOut, layer: &str) -> Json {
    let (sig, msg) = out.violation.clone().unwrap_or_default();
    json!({
        "layer": layer,
        "scenario": sc.to_json(),
        "fault": format!("{fault:?}"),
        "fault_kind": fault.kind(),
        "scheduler_choices": choices,
        "operations": out.trace,
        "signature": sig,
        "what": msg,
        "expected": "reader delivers exactly the Ok-pushed non-empty batches, is woken whenever a batch or end-of-stream becomes available, and returns None after the last writer is dropped",
        "replay": replay_record(sc, fault, choices),
    })
}

/// machine-readable part of a witness: everything `--replay` needs, no generator involved
pub fn replay_record(sc: &Scenario, fault: &Fault, choices: &[usize]) -> Json {
    let scripts: Vec<Vec<Json>> = sc
        .scripts
        .iter()
        .map(|s| s.iter().map(|o| match o { WOp::Push(r) => json!({"push": r}), WOp::Dup { via_sink } => json!({"dup_via_sink": via_sink}) }).collect())
        .collect();
    let f = match fault {
        Fault::None => json!({"kind": "none"}),
        Fault::Quota { push_k, delta, restore } => json!({"kind": "quota", "push_k": push_k, "delta": delta, "restore": restore}),
        Fault::CreateFail { push_k } => json!({"kind": "create", "push_k": push_k}),
        Fault::Disabled => json!({"kind": "disabled"}),
    };
    json!({"mpsc": sc.mpsc, "threshold": sc.threshold as u64, "thr_name": sc.thr_name, "scripts": scripts, "reader_drop_after": sc.reader_drop_after, "fault": f, "choices": choices})
}

/// Re-execute a recorded history against the current build. Returns the run and prints its trace.
pub fn replay(rec: &Json, root: &Path) -> Option<RunOut> {
    let u = |v: &Json, k: &str| v.get(k).and_then(|x| x.as_u64());
    let scripts: Vec<Vec<WOp>> = rec
        .get("scripts")?
        .as_array()?
        .iter()
        .map(|s| {
            s.as_array().map(|a| a.iter().filter_map(|o| if let Some(r) = u(o, "push") { Some(WOp::Push(r as usize)) } else { o.get("dup_via_sink").and_then(|b| b.as_bool()).map(|b| WOp::Dup { via_sink: b }) }).collect()).unwrap_or_default()
        })
        .collect();
    let sc = Scenario {
        mpsc: rec.get("mpsc")?.as_bool()?,
        threshold: u(rec, "threshold")? as usize,
        thr_name: rec.get("thr_name").and_then(|x| x.as_str()).unwrap_or("").to_string(),
        scripts,
        reader_drop_after: u(rec, "reader_drop_after").map(|x| x as usize),
    };
    let f = rec.get("fault")?;
    let fault = match f.get("kind")?.as_str()? {
        "quota" => Fault::Quota { push_k: u(f, "push_k")? as usize, delta: u(f, "delta")?, restore: f.get("restore")?.as_bool()? },
        "create" => Fault::CreateFail { push_k: u(f, "push_k")? as usize },
        "disabled" => Fault::Disabled,
        _ => Fault::None,
    };
    let choices: Vec<usize> = rec.get("choices")?.as_array()?.iter().filter_map(|x| x.as_u64()).map(|x| x as usize).collect();
    let mut pos = 0;
    let mut chooser = |n: usize| {
        let c = choices.get(pos).copied().unwrap_or(0).min(n - 1);
        pos += 1;
        c
    };
    let out = with_rt(|rt| run_history(&sc, &fault, &mut chooser, &Ctx { rt, root, selftest: 0 }));
    println!("scenario: {}", sc.to_json());
    println!("fault: {fault:?}");
    for l in &out.trace {
        println!("  {l}");
    }
    Some(out)
}

fn record(rep: &Report, prefix: &str, sc: &Scenario, out: &RunOut) {
    rep.count(&format!("{prefix}_histories"), 1);
    rep.count(&format!("{prefix}_operations"), out.ops);
    rep.count(&format!("{prefix}_pushes_ok"), out.pushes_ok);
    rep.count(&format!("{prefix}_batches_delivered"), out.delivered);
    rep.count(&format!("{prefix}_reader_pending_episodes"), out.pending_episodes);
    rep.count(&format!("{prefix}_reader_wakes"), out.wakes);
    rep.count(&format!("{prefix}_files_created"), out.files_created);
    rep.count(&format!("{prefix}_rotations"), out.files_created.saturating_sub(1));
    if out.multi_writer {
        rep.count(&format!("{prefix}_multi_writer_histories"), 1);
    }
    if out.final_used != 0 {
        rep.count(&format!("{prefix}_disk_usage_nonzero_after_release"), 1);
    }
    rep.seen("history_length_ops", &format!("{:02}", out.ops));
    rep.seen("thresholds", &sc.thr_name.split('(').next().unwrap_or("").to_string());
}

thread_local! {
    static RT: tokio::runtime::Runtime = paused_runtime();
}

pub fn with_rt<R>(f: impl FnOnce(&tokio::runtime::Runtime) -> R) -> R {
    RT.with(|rt| f(rt))
}

/// All scheduler-choice prefixes of length <= `depth` of a scenario (used to split the DFS over workers).
pub fn prefixes(sc: &Scenario, depth: usize, root: &Path) -> Vec<Vec<usize>> {
    with_rt(|rt| {
        let ctx = Ctx { rt, root, selftest: 0 };
        let mut done: Vec<Vec<usize>> = vec![];
        let mut frontier: Vec<Vec<usize>> = vec![vec![]];
        while let Some(p) = frontier.pop() {
            if p.len() >= depth {
                done.push(p);
                continue;
            }
            // probe: follow p, then always choice 0; learn the number of options at depth p.len()
            let mut pos = 0usize;
            let mut opts_here: Option<usize> = None;
            let mut chooser = |opts: usize| -> usize {
                let c = if pos < p.len() { p[pos].min(opts - 1) } else { 0 };
                if pos == p.len() {
                    opts_here = Some(opts);
                }
                pos += 1;
                c
            };
            let _ = run_history(sc, &Fault::None, &mut chooser, &ctx);
            match opts_here {
                None => done.push(p), // the history ends within the prefix
                Some(n) => {
                    for c in 0..n {
                        let mut q = p.clone();
                        q.push(c);
                        frontier.push(q);
                    }
                }
            }
        }
        done
    })
}

/// Exhaustive stateless DFS over scheduler choice vectors that start with `prefix`.
/// Returns (schedules, complete?)
pub fn explore_exhaustive(sc: &Scenario, prefix: &[usize], budget: &std::sync::atomic::AtomicI64, rep: &Report, root: &Path, selftest: u64) -> (u64, bool) {
    with_rt(|rt| {
        let ctx = Ctx { rt, root, selftest };
        let mut path: Vec<(usize, usize)> = prefix.iter().map(|c| (*c, 0)).collect();
        let mut n = 0u64;
        loop {
            let mut pos = 0usize;
            let mut rec: Vec<(usize, usize)> = vec![];
            let mut chooser = |opts: usize| -> usize {
                let c = if pos < path.len() { path[pos].0.min(opts - 1) } else { 0 };
                rec.push((c, opts));
                pos += 1;
                c
            };
            let out = run_history(sc, &Fault::None, &mut chooser, &ctx);
            n += 1;
            rep.case(fp_mix(sc.fp(), out.sched_fp), out.pushes_ok > 0 && out.steps > out.ops);
            record(rep, "l1x", sc, &out);
            if out.violation.is_some() {
                let choices: Vec<usize> = rec.iter().map(|x| x.0).collect();
                report_violation(rep, &out.violation.as_ref().unwrap().0, witness(sc, &Fault::None, &choices, &out, "sequential-exhaustive"));
                return (n, false);
            }
            path = rec;
            loop {
                if path.len() <= prefix.len() {
                    return (n, true);
                }
                let (c, opts) = path.pop().unwrap();
                if c + 1 < opts {
                    path.push((c + 1, opts));
                    break;
                }
            }
            // the budget is shared by all subtrees of one scenario
            if budget.fetch_sub(1, Ordering::SeqCst) <= 0 {
                return (n, false);
            }
        }
    })
}

/// one random history: random scenario, random scheduler
pub fn random_history(rep: &Report, seed: u64, idx: u64, root: &Path, selftest: u64, max_writers: usize, max_pushes: usize) {
    let mut rng = Rng::derive(seed, &[16, 1, idx]);
    let sc = gen_scenario(&mut rng, max_writers, max_pushes);
    let mut r2 = rng.split();
    let mut choices = vec![];
    let mut chooser = |n: usize| {
        let c = r2.usize(n);
        choices.push(c);
        c
    };
    let out = with_rt(|rt| run_history(&sc, &Fault::None, &mut chooser, &Ctx { rt, root, selftest }));
    rep.case(fp_mix(sc.fp(), out.sched_fp), out.pushes_ok > 0 && out.steps > out.ops);
    record(rep, "l1r", &sc, &out);
    if let Some((sig, _)) = &out.violation {
        report_violation(rep, sig, witness(&sc, &Fault::None, &choices, &out, "sequential-random"));
    } else if idx == 0 && rep.want_sample() {
        rep.sample(json!({"layer": "sequential-random", "scenario": sc.to_json(), "operations": out.trace}));
    }
}

/// Byte layout of what one push writes: stream header (schema message) when it opens a new file,
/// the record-batch message, and the end-of-stream marker when it rotates the file.
struct Layout {
    header: u64,
    eos: u64,
}

fn layout(root: &Path) -> &'static Layout {
    static L: std::sync::OnceLock<Layout> = std::sync::OnceLock::new();
    L.get_or_init(|| {
        let bytes_of_first_push = |threshold: usize| -> (u64, u64) {
            let env = make_env(root, false);
            let (w, _r) = open_channel(&env, false, threshold);
            let _ = w.push(&make_batch(1, BASE_ROWS));
            let a = env.dm().used_disk_space();
            let _ = w.push(&make_batch(2, BASE_ROWS));
            (a, env.dm().used_disk_space() - a)
        };
        let (first, second) = bytes_of_first_push(usize::MAX); // header + message, message
        let (rot, _) = bytes_of_first_push(0); // header + message + eos
        Layout { header: first - second, eos: rot - first }
    })
}

fn message_bytes(root: &Path, rows: usize) -> u64 {
    static M: std::sync::Mutex<std::collections::BTreeMap<usize, u64>> = std::sync::Mutex::new(std::collections::BTreeMap::new());
    if let Some(v) = M.lock().unwrap().get(&rows) {
        return *v;
    }
    let env = make_env(root, false);
    let (w, _r) = open_channel(&env, false, usize::MAX);
    let _ = w.push(&make_batch(1, rows));
    let a = env.dm().used_disk_space();
    let _ = w.push(&make_batch(2, rows));
    let m = env.dm().used_disk_space() - a;
    M.lock().unwrap().insert(rows, m);
    m
}

/// which internal step of push k the quota offset `delta` makes fail
fn failure_step(root: &Path, total: u64, rows: usize, delta: u64) -> &'static str {
    let l = layout(root);
    let m = message_bytes(root, rows);
    let opens = total >= l.header + m;
    let h = if opens { l.header } else { 0 };
    if delta < h {
        "stream-header-write(new file)"
    } else if delta < h + m {
        "batch-message-write"
    } else if total == h + m + l.eos {
        "finish-at-rotation"
    } else {
        "unclassified"
    }
}

/// Stage 3: one history, every fault point.
pub fn fault_sweep(rep: &Report, seed: u64, idx: u64, root: &Path) {
    let mut rng = Rng::derive(seed, &[16, 3, idx]);
    // at least one push, never drop the reader early (the property is about the reader terminating)
    let mut sc = gen_scenario(&mut rng, 3, 4);
    sc.reader_drop_after = None;
    if sc.n_pushes() == 0 {
        sc.scripts[0].push(WOp::Push(BASE_ROWS));
    }
    let sched_seed = rng.next_u64();
    let run = |fault: &Fault| -> (RunOut, Vec<usize>) {
        let mut r2 = Rng::new(sched_seed);
        let mut choices = vec![];
        let mut chooser = |n: usize| {
            let c = r2.usize(n);
            choices.push(c);
            c
        };
        let out = with_rt(|rt| run_history(&sc, fault, &mut chooser, &Ctx { rt, root, selftest: 0 }));
        (out, choices)
    };
    // fault-free run: number of pushes and the bytes each one charges
    let (dry, choices) = run(&Fault::None);
    rep.count("l3_histories_swept", 1);
    if let Some((sig, _)) = &dry.violation {
        rep.case(fp_mix(sc.fp(), dry.sched_fp), true);
        report_violation(rep, sig, witness(&sc, &Fault::None, &choices, &dry, "fault-sweep-dry-run"));
        return;
    }
    let mut faults: Vec<Fault> = vec![Fault::Disabled];
    for (k, total) in dry.push_bytes.iter().enumerate() {
        let mut deltas: Vec<u64> = vec![0, 8, total / 2, total.saturating_sub(8), total.saturating_sub(1)];
        deltas.retain(|d| d < total);
        deltas.sort();
        deltas.dedup();
        for d in deltas {
            faults.push(Fault::Quota { push_k: k, delta: d, restore: true });
            faults.push(Fault::Quota { push_k: k, delta: d, restore: false });
        }
        faults.push(Fault::CreateFail { push_k: k });
    }
    for fault in faults {
        let (out, choices) = run(&fault);
        let kind = fault.kind();
        rep.count(&format!("l3_runs/{kind}"), 1);
        if !out.fault_triggered {
            // e.g. the directory was moved away during a push that did not need a new file
            rep.count(&format!("l3_fault_had_no_effect/{kind}"), 1);
            rep.case(fp_mix(sc.fp(), fp_mix(out.sched_fp, vcommon::fp_str(&format!("{fault:?}")))), false);
        } else {
            rep.count(&format!("l3_push_failures_injected/{kind}"), 1);
            if let Fault::Quota { push_k, delta, .. } = &fault {
                let step = failure_step(root, dry.push_bytes[*push_k], dry.push_rows[*push_k], *delta);
                rep.count(&format!("l3_quota_failure_step/{step}"), 1);
                if out.violation.is_some() {
                    rep.count(&format!("l3_quota_failure_step_violating/{step}"), 1);
                }
            }
            if let Fault::Quota { push_k, .. } | Fault::CreateFail { push_k } = &fault {
                rep.seen("l3_failed_push_index", &format!("{push_k:02}"));
            }
            rep.case(fp_mix(sc.fp(), fp_mix(out.sched_fp, vcommon::fp_str(&format!("{fault:?}")))), true);
        }
        rep.count("l3_pushes_ok_after_or_before_fault", out.pushes_ok);
        rep.count("l3_pushes_failed", out.pushes_err);
        rep.count("l3_batches_delivered", out.delivered);
        rep.count("l3_reader_errors", out.read_errors);
        if out.reached_eos {
            rep.count(&format!("l3_reader_reached_eos/{kind}"), 1);
        }
        if out.final_used != 0 {
            rep.count("l3_disk_usage_nonzero_after_release", 1);
        }
        if let Some((sig, _)) = &out.violation {
            rep.count(&format!("l3_violations/{sig}/{kind}"), 1);
            report_violation(rep, sig, witness(&sc, &fault, &choices, &out, "fault-enumeration"));
        }
    }
    if idx == 0 && rep.want_sample() {
        rep.sample(json!({"layer": "fault-enumeration", "scenario": sc.to_json(), "bytes_charged_per_push": dry.push_bytes, "operations_fault_free": dry.trace}));
    }
}
