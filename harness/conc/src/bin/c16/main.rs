//! C16 — spill channels (`spill_pool::spsc_channel` / `mpsc_channel`) deliver every spilled batch
//! exactly once and terminate.
//!
//! Stage 1  sequential history explorer on the real pool with real spill files: operations are
//!          complete calls (push / clone / new_sink / drop / reader poll / reader drop); a shadow
//!          model is checked after every operation (exactly-once, FIFO for a single writer, EOS
//!          only after the last writer dropped and everything was read, immediate lost-wake-up rule,
//!          quiescence ⇒ stuck). Tiny scenarios × 4 rotation thresholds are enumerated exhaustively
//!          (stateless DFS over scheduler choice vectors), larger ones are sampled.
//! Stage 2  writers on OS threads, reader on its own thread; offline history checker; logical hang
//!          detection by virtual-time quiescence. (`--stage tsan` runs only this.)
//! Stage 3  FAULT ENUMERATION: for every push index k of a history, that push is made to fail
//!          (disk quota at several byte offsets inside the push, transiently or persistently;
//!          temp-file creation failure; DiskManager disabled) and the history continues. The reader
//!          must still deliver every successfully pushed batch and reach end-of-stream.

mod common;
mod seq;
mod threads;

use common::*;
use vcommon::{json, Args, Report, Rng};

fn main() {
    let args = Args::parse();
    if args.opt_u64("repro", 0) == 1 {
        std::process::exit(repro(&args));
    }
    if let Some(p) = &args.replay {
        std::process::exit(replay(p, &args));
    }
    vcommon::par::quiet_panics();
    std::process::exit(run(&args));
}

/// `--replay FILE`: re-execute the recorded history of a sequential / fault-enumeration witness
/// against the current build (exit 1 = the violation reproduces, 0 = it does not, 2 = not replayable).
fn replay(p: &std::path::Path, args: &Args) -> i32 {
    let Ok(text) = std::fs::read_to_string(p) else { return 2 };
    let Ok(v) = vcommon::serde_json_parse(&text) else { return 2 };
    println!("replay: recorded signature = {}", v.get("signature").and_then(|x| x.as_str()).unwrap_or("?"));
    let w = v.get("witness").cloned().unwrap_or(v.clone());
    let Some(rec) = w.get("replay") else {
        println!("this witness comes from a thread run (not deterministic); its recorded history:\n{w}");
        println!("INCONCLUSIVE property=C16 reason=thread-stage witnesses are re-run by the check with the recorded seed");
        return 2;
    };
    let root = scratch_root("c16-replay", args.opt_str("tmp"));
    let out = seq::replay(rec, &root);
    cleanup_root(&root);
    match out {
        None => 2,
        Some(o) => match o.violation {
            Some((sig, what)) => {
                println!("REPRODUCED signature={sig}: {what}");
                1
            }
            None => {
                println!("NOT REPRODUCED: the history completes, reader reached end-of-stream = {}", o.reached_eos);
                0
            }
        },
    }
}

fn run(args: &Args) -> i32 {
    let rep = Report::new("C16", "fault_enumeration", args);
    rep.set_rule(
        "case = (scenario, schedule[, fault point]) executed on the real spill pool with real spill files. Stage 1: scheduler choice vector over \
         complete operations, exhaustive for the tiny scenarios x 4 rotation thresholds, random beyond; stage 2: OS-thread run with seeded pacing; \
         stage 3: a random history re-executed once per fault point (every non-empty push index x quota offsets inside that push x transient/persistent, \
         temp-file creation failure per push, disk manager disabled). distinct = fingerprint of scenario + executed action sequence (+ fault point) or \
         of the recorded thread history; non-trivial = at least one successful push and at least one reader poll (stage 1), history longer than 4 \
         events (stage 2), the injected fault made a push fail (stage 3)",
    );
    rep.assume("operation-level atomicity in stages 1 and 3 (push_batch is synchronous; a reader poll runs to virtual-time quiescence); interleavings inside push_batch/poll_next come only from stage 2");
    rep.assume("tokio's paused clock auto-advances only when the runtime is idle and no spawn_blocking file operation is outstanding (used as the logical 'nothing can wake the reader' proof)");
    rep.assume("a batch is identified by the id stored in every row of its first column; payload integrity is a checksum column, full value round trip is C21");
    let selftest = args.opt_u64("selftest", 0);
    let root = scratch_root("c16", args.opt_str("tmp"));
    let stage = args.stage.as_str();
    let reduced = !stage.is_empty();
    let mut rng = Rng::derive(args.seed, &[16]);

    // ---------------- stage 1 ----------------
    if (stage.is_empty() || stage == "miri") && selftest != 3 {
        let tiny = seq::tiny_scenarios();
        let cap = if reduced { args.opt_u64("exh_cap", 8) } else { args.bound("exh_cap", 6_000, 400_000) };
        let tiny: Vec<(usize, seq::Scenario)> = tiny.into_iter().enumerate().filter(|(i, _)| !reduced || i % 16 == 1).collect();
        // split every scenario's schedule tree by its first scheduler choices so the DFS uses all cores
        let depth = if reduced { 1 } else { 3 };
        let mut jobs: Vec<(usize, seq::Scenario, Vec<usize>, std::sync::Arc<std::sync::atomic::AtomicI64>)> = vec![];
        for (k, sc) in &tiny {
            // schedule budget shared by all subtrees of the scenario
            let budget = std::sync::Arc::new(std::sync::atomic::AtomicI64::new(cap as i64));
            for p in seq::prefixes(sc, depth, &root) {
                jobs.push((*k, sc.clone(), p, budget.clone()));
            }
        }
        let per: std::sync::Mutex<std::collections::BTreeMap<usize, (u64, bool, u64)>> = Default::default();
        vcommon::par::run(if reduced { 1 } else { args.workers }, jobs.into_iter(), |(k, sc, prefix, budget)| {
            let r = vcommon::par::guard(|| seq::explore_exhaustive(&sc, &prefix, &budget, &rep, &root, selftest));
            match r {
                Ok((n, done)) => {
                    rep.count("l1_exhaustive_schedules", n);
                    let mut g = per.lock().unwrap();
                    let e = g.entry(k).or_insert((0, true, 0));
                    e.0 += n;
                    e.1 &= done;
                    e.2 += 1;
                }
                Err(p) => report_violation(&rep, "panic", json!({"layer": "sequential-exhaustive", "scenario": sc.to_json(), "prefix": prefix, "panic": p})),
            }
        });
        let per = per.into_inner().unwrap();
        let mut complete = 0;
        for (k, sc) in &tiny {
            let (n, done, parts) = per.get(k).copied().unwrap_or((0, false, 0));
            if done {
                complete += 1;
            }
            rep.extra(&format!("exhaustive_scenario_{k:02}"), json!({"scenario": sc.to_json(), "schedules": n, "complete": done, "subtrees": parts}));
            if *k == 1 {
                rep.sample(json!({"layer": "sequential-exhaustive", "scenario": sc.to_json(), "schedules_enumerated": n, "complete": done}));
            }
        }
        rep.extra("exhaustive_scenarios_complete", json!(format!("{complete}/{}", tiny.len())));
        let n_rand = if reduced { args.opt_u64("l1_random", 3) } else { args.bound("l1_random", 40_000, 2_000_000) };
        let s1 = rng.next_u64();
        vcommon::par::run(if reduced { 1 } else { args.workers }, 0..n_rand, |i| {
            if rep.violation_count() > 20 {
                return;
            }
            if let Err(p) = vcommon::par::guard(|| seq::random_history(&rep, s1, i, &root, selftest, 3, 4)) {
                report_violation(&rep, "panic", json!({"layer": "sequential-random", "seed": s1, "index": i, "panic": p}));
            }
        });
        if !reduced {
            rep.obligation("rotation-observed", rep.get_count("l1x_rotations") + rep.get_count("l1r_rotations") > 0, "some history must rotate spill files");
            rep.obligation("reader-pending-observed", rep.get_count("l1x_reader_pending_episodes") > 0, "the reader must have been observed pending");
            rep.obligation("multi-writer-observed", rep.get_count("l1r_multi_writer_histories") > 0, "multi-writer histories must occur");
        }
    }

    // ---------------- stage 2 ----------------
    if selftest != 2 {
        let runs = match stage {
            "miri" => args.opt_u64("l2_runs", 1),
            "tsan" => args.bound("l2_runs", 300, 3_000),
            _ => args.bound("l2_runs", 3_000, 100_000),
        };
        let runs = if selftest != 0 { runs.min(50) } else { runs };
        let (mt, mp) = if cfg!(miri) { (2, 2) } else { (3, 5) };
        threads::thread_stage(&rep, rng.next_u64(), runs, mt, mp, if cfg!(miri) { 1 } else { 3 }, if cfg!(miri) { 1 } else { args.workers }, &root, selftest);
    }

    // ---------------- stage 3 ----------------
    if stage.is_empty() && selftest == 0 {
        let n = args.bound("l3_histories", 600, 30_000);
        let s3 = rng.next_u64();
        vcommon::par::run(args.workers, 0..n, |i| {
            if let Err(p) = vcommon::par::guard(|| seq::fault_sweep(&rep, s3, i, &root)) {
                report_violation(&rep, "panic", json!({"layer": "fault-enumeration", "seed": s3, "index": i, "panic": p}));
            }
        });
        for kind in ["quota-transient", "quota-persistent", "tempfile-creation", "disk-manager-disabled"] {
            rep.obligation(&format!("fault-injected/{kind}"), rep.get_count(&format!("l3_push_failures_injected/{kind}")) > 0, "every fault kind must have made at least one push fail");
        }
        for step in ["stream-header-write(new file)", "batch-message-write", "finish-at-rotation"] {
            rep.obligation(&format!("quota-failure-step/{step}"), rep.get_count(&format!("l3_quota_failure_step/{step}")) > 0, "the quota offsets must hit every write step of push_batch");
        }
        rep.set_exhaustive(false);
    }
    cleanup_root(&root);
    rep.finish()
}

/// `--opt repro=1`: the minimal standalone reproduction of the failed-push hang (prints, exit 1 if it hangs).
fn repro(args: &Args) -> i32 {
    use futures::StreamExt;
    let root = scratch_root("c16-repro", args.opt_str("tmp"));
    let env = make_env(&root, false);
    let (w, mut reader) = datafusion_physical_plan::spill::spill_pool::spsc_channel(usize::MAX, env.sm.clone());
    let r1 = w.push_batch(&make_batch(1, 8));
    println!("push #1 -> {:?}   used_disk_space={}", r1.as_ref().map_err(|e| e.to_string()), env.dm().used_disk_space());
    env.dm().set_max_temp_directory_size(env.dm().used_disk_space()).unwrap();
    let r2 = w.push_batch(&make_batch(2, 8));
    println!("push #2 (quota = bytes used so far) -> {:?}", r2.as_ref().map(|_| ()).map_err(|e| e.to_string().chars().take(90).collect::<String>()));
    drop(w);
    println!("writer dropped");
    let rt = paused_runtime();
    let code = rt.block_on(async {
        let mut n = 0;
        loop {
            match tokio::time::timeout(std::time::Duration::from_secs(3600), reader.next()).await {
                Ok(Some(Ok(b))) => {
                    n += 1;
                    println!("reader -> batch {:?}", read_batch(&b));
                }
                Ok(Some(Err(e))) => println!("reader -> Err({e})"),
                Ok(None) => {
                    println!("reader -> None (end of stream after {n} batch(es)): OK");
                    return 0;
                }
                Err(_) => {
                    println!("reader -> Pending FOREVER after {n} batch(es): runtime idle, no blocking task outstanding, 3600 s of virtual time elapsed (reader-stuck-after-failed-push)");
                    return 1;
                }
            }
        }
    });
    drop(reader);
    cleanup_root(&root);
    code
}
