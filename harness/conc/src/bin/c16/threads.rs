//! Stage 2 of C16: writers on OS threads, the reader on its own thread (tokio current_thread
//! runtime with a paused clock). The history is recorded at the call boundary with one relaxed
//! global counter and checked offline.
//!
//! Hang detection is logical, not wall-clock: the reader is only polled when its own waker fired
//! (`Gate`); a virtual-time timeout that elapses means the runtime was idle with no blocking file
//! operation outstanding. If every writer thread had already finished before that idle period
//! started, nothing can ever wake the reader again.

use crate::common::*;
use std::collections::{BTreeMap, BTreeSet};
use std::path::Path;
use std::sync::atomic::{AtomicBool, AtomicUsize, Ordering};
use std::sync::Arc;
use std::time::{Duration, Instant};
use vcommon::hist::{Clock, Log};
use vcommon::{fp_mix, json, Json, Report, Rng};

#[derive(Clone, Debug)]
pub enum TOp {
    Push(usize),
    Dup { via_sink: bool },
    /// drop the most recently created extra handle of this thread (never the last one)
    DropExtra,
}

#[derive(Clone, Debug)]
pub struct TScenario {
    pub mpsc: bool,
    pub threshold: usize,
    pub thr_name: String,
    pub threads: Vec<Vec<TOp>>,
}

impl TScenario {
    pub fn to_json(&self) -> Json {
        json!({
            "channel": if self.mpsc { "mpsc_channel" } else { "spsc_channel" },
            "max_file_size_bytes": self.threshold as u64,
            "threshold": self.thr_name,
            "writer_threads": self.threads.iter().map(|s| s.iter().map(|o| format!("{o:?}")).collect::<Vec<_>>()).collect::<Vec<_>>(),
        })
    }
    pub fn fp(&self) -> u64 {
        vcommon::fp_str(&self.to_json().to_string())
    }
}

pub fn gen_tscenario(rng: &mut Rng, max_threads: usize, max_pushes: usize) -> TScenario {
    let mpsc = rng.chance(4, 5);
    let n = if mpsc { 1 + rng.usize(max_threads) } else { 1 };
    let mut threads = vec![];
    for _ in 0..n {
        let mut ops = vec![];
        let k = rng.usize(max_pushes + 1);
        for _ in 0..k {
            if mpsc && rng.chance(1, 8) {
                ops.push(TOp::Dup { via_sink: rng.bool() });
            }
            if mpsc && rng.chance(1, 10) {
                ops.push(TOp::DropExtra);
            }
            let rows = if rng.chance(1, 8) { 0 } else { *rng.pick(&[1usize, 3, 8, 8, 64]) };
            ops.push(TOp::Push(rows));
        }
        threads.push(ops);
    }
    let (thr_name, threshold) = rng.pick_cloned(&crate::seq::thresholds());
    TScenario { mpsc, threshold, thr_name, threads }
}

#[derive(Clone, Debug, PartialEq)]
pub enum Ev {
    PushCall { t: usize, id: u64, rows: usize },
    PushRet { t: usize, id: u64, ok: bool },
    DropCall { t: usize },
    DropRet { t: usize },
    Recv { id: u64, rows: usize },
    RecvMalformed(String),
    RecvErr(String),
    Eos,
    Stuck,
}

struct Pace {
    rng: Rng,
    level: u32,
}
impl Pace {
    fn point(&mut self) {
        if self.level == 0 {
            return;
        }
        match self.rng.below(6) {
            0 => std::thread::yield_now(),
            1 => {
                for _ in 0..self.rng.below(60 * self.level as u64) {
                    std::hint::spin_loop();
                }
            }
            _ => {}
        }
    }
}

pub struct TRun {
    pub history: Vec<(u64, Ev)>,
    pub watchdog: bool,
    pub files_created: u64,
    pub reader_idle_periods: u64,
    pub wakes: u64,
}

pub fn run_threads(sc: &TScenario, seed: u64, pace: u32, root: &Path, deaf: bool) -> TRun {
    let env = make_env(root, false);
    let (h0, mut reader) = open_channel(&env, sc.mpsc, sc.threshold);
    let clock = Arc::new(Clock::new());
    // handle distribution happens before any thread starts (part of the setup)
    let mut first: Vec<Handle> = vec![];
    for _ in 1..sc.threads.len() {
        first.push(h0.dup(false).expect("mpsc writer"));
    }
    first.insert(0, h0);
    let live_writers = Arc::new(AtomicUsize::new(sc.threads.len()));
    let abort = Arc::new(AtomicBool::new(false));
    let mut joins = vec![];
    for (t, (ops, h)) in sc.threads.iter().cloned().zip(first).enumerate() {
        let (clock, live) = (clock.clone(), live_writers.clone());
        let mut pace = Pace { rng: Rng::derive(seed, &[t as u64]), level: pace };
        joins.push(std::thread::spawn(move || {
            let mut log: Log<Ev> = Log::new();
            let mut handles = vec![h];
            let mut seq = 0u64;
            for op in ops {
                pace.point();
                match op {
                    TOp::Push(rows) => {
                        let id = ((t as u64 + 1) << 32) | seq;
                        seq += 1;
                        let b = make_batch(id, rows);
                        let k = (seq as usize) % handles.len();
                        log.rec(&clock, Ev::PushCall { t, id, rows });
                        let r = handles[k].push(&b);
                        log.rec(&clock, Ev::PushRet { t, id, ok: r.is_ok() });
                    }
                    TOp::Dup { via_sink } => {
                        if let Some(n) = handles[0].dup(via_sink) {
                            handles.push(n);
                        }
                    }
                    TOp::DropExtra => {
                        if handles.len() > 1 {
                            let h = handles.pop();
                            log.rec(&clock, Ev::DropCall { t });
                            drop(h);
                            log.rec(&clock, Ev::DropRet { t });
                        }
                    }
                }
            }
            while let Some(h) = handles.pop() {
                pace.point();
                log.rec(&clock, Ev::DropCall { t });
                drop(h);
                log.rec(&clock, Ev::DropRet { t });
            }
            live.fetch_sub(1, Ordering::SeqCst);
            log
        }));
    }
    // reader thread
    let (clock_r, live_r, abort_r) = (clock.clone(), live_writers.clone(), abort.clone());
    let mut pace_r = Pace { rng: Rng::derive(seed, &[99]), level: pace };
    let reader_join = std::thread::spawn(move || {
        let rt = paused_runtime();
        let cw = CountingWaker::new();
        cw.deaf.store(deaf, Ordering::SeqCst);
        let mut log: Log<Ev> = Log::new();
        let mut idle = 0u64;
        let mut watchdog = false;
        let t0 = Instant::now();
        rt.block_on(async {
            let mut first = true;
            let mut errs = 0;
            loop {
                let writers_done_before = live_r.load(Ordering::SeqCst) == 0;
                match tokio::time::timeout(Duration::from_secs(60), Gate { reader: &mut reader, cw: &cw, first }).await {
                    Ok(Some(Ok(b))) => {
                        first = true;
                        match read_batch(&b) {
                            Ok((id, rows)) => log.rec(&clock_r, Ev::Recv { id, rows }),
                            Err(e) => log.rec(&clock_r, Ev::RecvMalformed(e)),
                        };
                        pace_r.point();
                    }
                    Ok(Some(Err(e))) => {
                        first = true;
                        log.rec(&clock_r, Ev::RecvErr(e.to_string().chars().take(200).collect()));
                        errs += 1;
                        if errs > 3 {
                            break;
                        }
                    }
                    Ok(None) => {
                        log.rec(&clock_r, Ev::Eos);
                        break;
                    }
                    Err(_) => {
                        // idle: nothing runnable, no blocking file operation outstanding, waker not fired
                        first = false;
                        idle += 1;
                        if writers_done_before {
                            log.rec(&clock_r, Ev::Stuck);
                            break;
                        }
                        if abort_r.load(Ordering::SeqCst) || (!cfg!(miri) && t0.elapsed().as_secs() > 60) {
                            watchdog = true;
                            break;
                        }
                        std::thread::sleep(Duration::from_micros(30));
                    }
                }
            }
        });
        drop(reader);
        (log, idle, watchdog, cw.wakes.load(Ordering::SeqCst))
    });
    // join with a wall-clock watchdog (a stuck writer thread cannot be proven stuck logically)
    let t0 = Instant::now();
    let mut watchdog = false;
    while !(joins.iter().all(|j| j.is_finished()) && reader_join.is_finished()) {
        std::thread::sleep(Duration::from_micros(200));
        if !cfg!(miri) && t0.elapsed().as_secs() > 90 {
            watchdog = true;
            abort.store(true, Ordering::SeqCst);
            break;
        }
    }
    let mut logs = vec![];
    let (mut idle, mut wakes) = (0, 0);
    if !watchdog {
        for j in joins {
            if let Ok(l) = j.join() {
                logs.push(l);
            }
        }
        if let Ok((l, i, wd, w)) = reader_join.join() {
            logs.push(l);
            idle = i;
            wakes = w;
            watchdog |= wd;
        }
    }
    TRun { history: vcommon::hist::merge(logs), watchdog, files_created: env.files_created() as u64, reader_idle_periods: idle, wakes }
}

/// Offline checker.
pub fn check_history(sc: &TScenario, h: &[(u64, Ev)]) -> Result<u64, (String, String)> {
    // pushes: id -> (call tick, rows, ret (tick, ok))
    let mut pushes: BTreeMap<u64, (u64, usize, Option<(u64, bool)>)> = BTreeMap::new();
    let mut drop_calls: Vec<u64> = vec![];
    for (t, e) in h {
        match e {
            Ev::PushCall { id, rows, .. } => {
                pushes.insert(*id, (*t, *rows, None));
            }
            Ev::PushRet { id, ok, .. } => {
                if let Some(p) = pushes.get_mut(id) {
                    p.2 = Some((*t, *ok));
                }
                if !*ok {
                    return Err(("push-error-without-fault".into(), format!("push of batch {id} failed although no fault was injected")));
                }
            }
            Ev::DropCall { .. } => drop_calls.push(*t),
            _ => {}
        }
    }
    let mut seen = BTreeSet::new();
    let mut order = vec![];
    let mut ended = false;
    for (t, e) in h {
        match e {
            Ev::Recv { id, rows } => {
                let Some((call, prows, _)) = pushes.get(id) else { return Err(("phantom-batch".into(), format!("batch {id} was delivered but never pushed"))) };
                if call > t {
                    return Err(("phantom-batch".into(), format!("batch {id} was delivered before its push was called")));
                }
                if *prows == 0 {
                    return Err(("phantom-batch".into(), format!("empty batch {id} was delivered")));
                }
                if prows != rows {
                    return Err(("corrupt-batch".into(), format!("batch {id} pushed with {prows} rows, delivered with {rows}")));
                }
                if !seen.insert(*id) {
                    return Err(("duplicate-batch".into(), format!("batch {id} was delivered twice")));
                }
                order.push(*id);
            }
            Ev::RecvMalformed(m) => return Err(("corrupt-batch".into(), m.clone())),
            Ev::RecvErr(m) => return Err(("reader-error".into(), format!("the reader returned an error although no fault was injected: {m}"))),
            Ev::Eos => {
                ended = true;
                if let Some(late) = drop_calls.iter().find(|d| **d > *t) {
                    return Err(("early-eos".into(), format!("end-of-stream at t={t} but a writer handle only began dropping at t={late}")));
                }
                for (id, (_, rows, ret)) in &pushes {
                    if *rows > 0 && matches!(ret, Some((_, true))) && !seen.contains(id) {
                        return Err(("lost-batch".into(), format!("end-of-stream although batch {id} was pushed successfully and never delivered")));
                    }
                }
            }
            Ev::Stuck => {
                let missing: Vec<u64> = pushes.iter().filter(|(id, (_, rows, _))| *rows > 0 && !seen.contains(id)).map(|(id, _)| *id).collect();
                return Err(("reader-stuck".into(), format!("all writers are dropped, the reader is pending, its waker did not fire and nothing is runnable; undelivered batches: {missing:?}")));
            }
            _ => {}
        }
    }
    if !ended {
        return Err(("reader-stuck".into(), "the reader never reported end-of-stream".into()));
    }
    // single writer thread that never duplicated its handle: delivery order == push order
    let single = sc.threads.len() == 1 && !sc.threads[0].iter().any(|o| matches!(o, TOp::Dup { .. }));
    if single {
        for w in order.windows(2) {
            if w[0] > w[1] {
                return Err(("order-violation".into(), format!("single-writer channel delivered batch {} before batch {}", w[0], w[1])));
            }
        }
    }
    Ok(order.len() as u64)
}

pub fn thread_stage(rep: &Report, seed: u64, runs: u64, max_threads: usize, max_pushes: usize, pace: u32, workers: usize, root: &Path, selftest: u64) {
    vcommon::par::run(workers, 0..runs, |r| {
        let mut rng = Rng::derive(seed, &[16, 2, r]);
        let sc = gen_tscenario(&mut rng, max_threads, max_pushes);
        let s2 = rng.next_u64();
        let res = vcommon::par::guard(|| run_threads(&sc, s2, pace, root, selftest == 3));
        let mut out = match res {
            Ok(o) => o,
            Err(p) => {
                report_violation(rep, "panic", json!({"layer": "threads", "scenario": sc.to_json(), "seed": s2, "panic": p}));
                return;
            }
        };
        if selftest == 1 {
            // self-test: lose the first delivery in the observed history
            if let Some(pos) = out.history.iter().position(|(_, e)| matches!(e, Ev::Recv { .. })) {
                out.history.remove(pos);
            }
        }
        let hfp = out.history.iter().fold(0u64, |a, (_, e)| fp_mix(a, vcommon::fp_str(&format!("{e:?}"))));
        rep.case(fp_mix(sc.fp(), hfp), out.history.len() > 4);
        rep.count("l2_thread_runs", 1);
        rep.count("l2_events", out.history.len() as u64);
        rep.count("l2_files_created", out.files_created);
        rep.count("l2_reader_idle_periods", out.reader_idle_periods);
        rep.count("l2_reader_wakes", out.wakes);
        if sc.threads.len() > 1 {
            rep.count("l2_multi_writer_runs", 1);
        }
        if out.watchdog {
            rep.inconclusive("thread-stage wall-clock watchdog fired");
            return;
        }
        let hist = |n: usize| out.history.iter().take(n).map(|(t, e)| format!("{t} {e:?}")).collect::<Vec<_>>();
        match check_history(&sc, &out.history) {
            Ok(d) => rep.count("l2_batches_delivered", d),
            Err((sig, msg)) => report_violation(rep, &sig, json!({"layer": "threads", "scenario": sc.to_json(), "seed": s2, "what": msg, "history": hist(400)})),
        }
        if r == 0 && rep.want_sample() {
            rep.sample(json!({"layer": "threads", "scenario": sc.to_json(), "history_head": hist(14)}));
        }
    });
}
