fn main(){}
