//! Shared helpers for component-level checks (kept tiny; must build under Miri/TSan).
pub use vcommon;
