//! C15: exactly-once / FIFO / EOS / send-error / lost-wake-up / deadlock monitors for
//! `distributor_channels::channels`.
//!
//! Layer 1: single-threaded poll-level explorer. Tasks are real `async` blocks using the real
//!          senders/receivers; a scheduler polls one runnable task per step; after every step a
//!          shadow model is advanced from the events the tasks reported and all invariants are
//!          checked (incl. the immediate lost-wake-up rule and quiescence ⇒ deadlock).
//!          Tiny scenarios are enumerated exhaustively (stateless DFS over scheduler choices).
//! Layer 2: the same scenarios on real OS threads (park/unpark executor, seeded yields), history
//!          recorded at the call boundary and checked offline; a supervisor detects deadlock
//!          logically (all live tasks parked & not woken, stable under a progress counter).
//!          This layer is what Miri (many seeds) and TSan re-run.

use crate::distributor_channels::{channels, DistributionReceiver, DistributionSender};
use std::cell::{Cell, RefCell};
use std::collections::{BTreeMap, VecDeque};
use std::future::Future;
use std::pin::Pin;
use std::rc::Rc;
use std::sync::atomic::{AtomicBool, AtomicU64, AtomicU8, Ordering};
use std::sync::{Arc, Mutex};
use std::task::{Context, Poll, Wake, Waker};
use vcommon::{fp_mix, json, Args, Json, Report, Rng};

// ---------------------------------------------------------------------------------------
// Scenarios
// ---------------------------------------------------------------------------------------

#[derive(Clone, Debug)]
enum SOp {
    Send(usize),
    CloneH(usize),
    DropH(usize),
}

#[derive(Clone, Debug)]
struct SenderScript {
    /// channels this task initially holds one handle for
    chans: Vec<usize>,
    ops: Vec<SOp>,
}

#[derive(Clone, Debug)]
enum RecvMode {
    All,
    ThenDrop(usize),
}

#[derive(Clone, Debug)]
struct Scenario {
    n_ch: usize,
    senders: Vec<SenderScript>,
    receivers: Vec<RecvMode>, // one per channel
}

impl Scenario {
    fn to_json(&self) -> Json {
        json!({
            "channels": self.n_ch,
            "senders": self.senders.iter().map(|s| json!({"chans": s.chans, "ops": s.ops.iter().map(|o| format!("{o:?}")).collect::<Vec<_>>() })).collect::<Vec<_>>(),
            "receivers": self.receivers.iter().map(|r| format!("{r:?}")).collect::<Vec<_>>(),
        })
    }
    fn fp(&self) -> u64 {
        vcommon::fp_str(&self.to_json().to_string())
    }
    fn n_tasks(&self) -> usize {
        self.senders.len() + self.n_ch
    }
}

fn gen_scenario(rng: &mut Rng, max_ch: usize, max_senders: usize, max_msgs: usize, drops: bool) -> Scenario {
    let n_ch = 1 + rng.usize(max_ch);
    let n_s = 1 + rng.usize(max_senders);
    let mut senders = vec![];
    for _ in 0..n_s {
        // like RepartitionExec: usually a handle per output channel, sometimes a subset
        let mut chans: Vec<usize> = (0..n_ch).filter(|_| rng.chance(3, 4)).collect();
        if chans.is_empty() {
            chans.push(rng.usize(n_ch));
        }
        let mut live: BTreeMap<usize, usize> = chans.iter().map(|c| (*c, 1usize)).collect();
        let mut ops = vec![];
        let n_ops = rng.usize(max_msgs + 1) + if drops { rng.usize(3) } else { 0 };
        let mut sent = 0;
        for _ in 0..n_ops {
            let avail: Vec<usize> = live.iter().filter(|(_, n)| **n > 0).map(|(c, _)| *c).collect();
            if avail.is_empty() {
                break;
            }
            let c = *rng.pick(&avail);
            let r = rng.below(10);
            if drops && r == 0 {
                ops.push(SOp::CloneH(c));
                *live.get_mut(&c).unwrap() += 1;
            } else if drops && r == 1 {
                ops.push(SOp::DropH(c));
                *live.get_mut(&c).unwrap() -= 1;
            } else if sent < max_msgs {
                ops.push(SOp::Send(c));
                sent += 1;
            }
        }
        senders.push(SenderScript { chans, ops });
    }
    // make sure every channel has at least one sender handle somewhere (else trivial EOS)
    for c in 0..n_ch {
        if !senders.iter().any(|s| s.chans.contains(&c)) && rng.chance(3, 4) {
            let i = rng.usize(senders.len());
            senders[i].chans.push(c);
        }
    }
    let receivers = (0..n_ch)
        .map(|_| if drops && rng.chance(1, 3) { RecvMode::ThenDrop(rng.usize(max_msgs + 1)) } else { RecvMode::All })
        .collect();
    Scenario { n_ch, senders, receivers }
}

/// The small configurations that are enumerated exhaustively (every schedule, no pruning).
fn tiny_scenarios() -> Vec<Scenario> {
    let mut out = vec![];
    let s = |chans: Vec<usize>, ops: Vec<SOp>| SenderScript { chans, ops };
    use SOp::*;
    // 1 channel, 1 sender x 3 msgs (the gate closes after every message)
    out.push(Scenario { n_ch: 1, senders: vec![s(vec![0], vec![Send(0), Send(0), Send(0)])], receivers: vec![RecvMode::All] });
    // 1 channel, 2 senders
    out.push(Scenario { n_ch: 1, senders: vec![s(vec![0], vec![Send(0), Send(0)]), s(vec![0], vec![Send(0)])], receivers: vec![RecvMode::All] });
    // receiver drops early while a sender may be gated
    out.push(Scenario { n_ch: 1, senders: vec![s(vec![0], vec![Send(0), Send(0), Send(0)])], receivers: vec![RecvMode::ThenDrop(1)] });
    out.push(Scenario { n_ch: 1, senders: vec![s(vec![0], vec![Send(0), Send(0)]), s(vec![0], vec![Send(0)])], receivers: vec![RecvMode::ThenDrop(0)] });
    // 2 channels, one sender with both handles
    out.push(Scenario { n_ch: 2, senders: vec![s(vec![0, 1], vec![Send(0), Send(1), Send(0)])], receivers: vec![RecvMode::All, RecvMode::All] });
    // 2 channels, the second receiver leaves early
    out.push(Scenario { n_ch: 2, senders: vec![s(vec![0, 1], vec![Send(0), Send(1), Send(1)])], receivers: vec![RecvMode::All, RecvMode::ThenDrop(0)] });
    // 2 channels, 2 senders, one message each
    out.push(Scenario { n_ch: 2, senders: vec![s(vec![0], vec![Send(0), Send(0)]), s(vec![1], vec![Send(1)])], receivers: vec![RecvMode::All, RecvMode::All] });
    // empty channel's only sender leaves → the gate must stop counting the closed-empty channel
    out.push(Scenario { n_ch: 2, senders: vec![s(vec![0], vec![Send(0), Send(0)]), s(vec![1], vec![])], receivers: vec![RecvMode::All, RecvMode::All] });
    // clone / early handle drop
    out.push(Scenario { n_ch: 1, senders: vec![s(vec![0], vec![CloneH(0), Send(0), DropH(0), Send(0)])], receivers: vec![RecvMode::All] });
    out
}

// ---------------------------------------------------------------------------------------
// Events + shadow model
// ---------------------------------------------------------------------------------------

#[derive(Clone, Debug, PartialEq)]
enum Ev {
    SendCall { task: usize, ch: usize, id: u32 },
    SendPending { task: usize, ch: usize, id: u32 },
    SendRet { task: usize, ch: usize, id: u32, ok: bool },
    SendCancelled { task: usize, ch: usize, id: u32 },
    RecvCall { task: usize, ch: usize },
    RecvPending { task: usize, ch: usize },
    RecvRet { task: usize, ch: usize, val: Option<u32> },
    Cloned { task: usize, ch: usize },
    DropSenderCall { task: usize, ch: usize },
    DroppedSender { task: usize, ch: usize },
    DropRecvCall { task: usize, ch: usize },
    DroppedRecv { task: usize, ch: usize },
    Done { task: usize },
}

#[derive(Clone, Debug, PartialEq)]
enum Wait {
    None,
    Send(usize),
    Recv(usize),
}

struct Model {
    queue: Vec<VecDeque<u32>>,
    senders: Vec<usize>,
    rx_alive: Vec<bool>,
    waiting: Vec<Wait>,
    done: Vec<bool>,
    gate_closed_episodes: u64,
    was_closed: bool,
}

impl Model {
    fn new(sc: &Scenario) -> Model {
        let mut senders = vec![0usize; sc.n_ch];
        for s in &sc.senders {
            for c in &s.chans {
                senders[*c] += 1;
            }
        }
        Model {
            queue: vec![VecDeque::new(); sc.n_ch],
            senders,
            rx_alive: vec![true; sc.n_ch],
            waiting: vec![Wait::None; sc.n_tasks()],
            done: vec![false; sc.n_tasks()],
            gate_closed_episodes: 0,
            was_closed: false,
        }
    }
    /// number of channels that are open (receiver and ≥1 sender alive) and empty
    fn open_empty(&self) -> usize {
        (0..self.queue.len()).filter(|&c| self.rx_alive[c] && self.senders[c] > 0 && self.queue[c].is_empty()).count()
    }
    /// apply one event; Err(description) when the observation contradicts the model
    fn apply(&mut self, ev: &Ev) -> Result<(), String> {
        match ev {
            Ev::SendCall { .. } | Ev::RecvCall { .. } | Ev::DropSenderCall { .. } | Ev::DropRecvCall { .. } => {}
            Ev::SendPending { task, ch, .. } => self.waiting[*task] = Wait::Send(*ch),
            Ev::RecvPending { task, ch } => self.waiting[*task] = Wait::Recv(*ch),
            Ev::SendCancelled { task, .. } => self.waiting[*task] = Wait::None,
            Ev::SendRet { task, ch, id, ok } => {
                self.waiting[*task] = Wait::None;
                if *ok {
                    if !self.rx_alive[*ch] {
                        return Err(format!("send of {id} on channel {ch} returned Ok although the receiver is gone"));
                    }
                    self.queue[*ch].push_back(*id);
                } else if self.rx_alive[*ch] {
                    return Err(format!("send-error-with-live-receiver: send of {id} on channel {ch} failed"));
                }
            }
            Ev::RecvRet { task, ch, val } => {
                self.waiting[*task] = Wait::None;
                match val {
                    Some(v) => match self.queue[*ch].pop_front() {
                        Some(exp) if exp == *v => {}
                        Some(exp) => return Err(format!("order-or-duplicate: channel {ch} delivered {v}, model expects {exp}")),
                        None => return Err(format!("phantom-value: channel {ch} delivered {v} but nothing is outstanding")),
                    },
                    None => {
                        if self.senders[*ch] > 0 {
                            return Err(format!("early-eos: channel {ch} reported end-of-stream with {} live sender handle(s)", self.senders[*ch]));
                        }
                        if !self.queue[*ch].is_empty() {
                            return Err(format!("lost-value: channel {ch} reported end-of-stream with {} undelivered value(s)", self.queue[*ch].len()));
                        }
                    }
                }
            }
            Ev::Cloned { ch, .. } => self.senders[*ch] += 1,
            Ev::DroppedSender { ch, .. } => self.senders[*ch] -= 1,
            Ev::DroppedRecv { ch, .. } => {
                self.rx_alive[*ch] = false;
                self.queue[*ch].clear();
            }
            Ev::Done { task } => self.done[*task] = true,
        }
        let closed = self.open_empty() == 0;
        if closed && !self.was_closed {
            self.gate_closed_episodes += 1;
        }
        self.was_closed = closed;
        Ok(())
    }
    /// enabling condition of a pending task (from the module documentation)
    fn enabled(&self, w: &Wait) -> bool {
        match w {
            Wait::None => true,
            Wait::Recv(c) => !self.queue[*c].is_empty() || self.senders[*c] == 0,
            Wait::Send(c) => !self.rx_alive[*c] || self.open_empty() > 0,
        }
    }
}

// ---------------------------------------------------------------------------------------
// Layer 1: single-threaded tasks
// ---------------------------------------------------------------------------------------

struct Ctx1 {
    events: RefCell<Vec<Ev>>,
    cancel: Vec<Cell<bool>>,
}

impl Ctx1 {
    fn ev(&self, e: Ev) {
        self.events.borrow_mut().push(e);
    }
}

struct YieldOnce(bool);
impl Future for YieldOnce {
    type Output = ();
    fn poll(mut self: Pin<&mut Self>, cx: &mut Context<'_>) -> Poll<()> {
        if self.0 {
            Poll::Ready(())
        } else {
            self.0 = true;
            cx.waker().wake_by_ref();
            Poll::Pending
        }
    }
}

fn msg_id(task: usize, seq: usize) -> u32 {
    ((task as u32) << 16) | seq as u32
}

async fn sender_task1(task: usize, script: SenderScript, mut handles: Vec<(usize, DistributionSender<u32>)>, ctx: Rc<Ctx1>) {
    let mut seq = 0usize;
    for op in script.ops {
        YieldOnce(false).await;
        match op {
            SOp::Send(ch) => {
                let Some(pos) = handles.iter().position(|(c, _)| *c == ch) else { continue };
                let id = msg_id(task, seq);
                seq += 1;
                ctx.ev(Ev::SendCall { task, ch, id });
                let tx = &handles[pos].1;
                let mut fut = tx.send(id);
                let r = std::future::poll_fn(|cx| {
                    if ctx.cancel[task].replace(false) {
                        return Poll::Ready(None);
                    }
                    match Pin::new(&mut fut).poll(cx) {
                        Poll::Ready(r) => Poll::Ready(Some(r)),
                        Poll::Pending => {
                            ctx.ev(Ev::SendPending { task, ch, id });
                            Poll::Pending
                        }
                    }
                })
                .await;
                drop(fut);
                match r {
                    Some(r) => ctx.ev(Ev::SendRet { task, ch, id, ok: r.is_ok() }),
                    None => ctx.ev(Ev::SendCancelled { task, ch, id }),
                }
            }
            SOp::CloneH(ch) => {
                if let Some(pos) = handles.iter().position(|(c, _)| *c == ch) {
                    let h = handles[pos].1.clone();
                    handles.push((ch, h));
                    ctx.ev(Ev::Cloned { task, ch });
                }
            }
            SOp::DropH(ch) => {
                if let Some(pos) = handles.iter().position(|(c, _)| *c == ch) {
                    let (c, h) = handles.remove(pos);
                    ctx.ev(Ev::DropSenderCall { task, ch: c });
                    drop(h);
                    ctx.ev(Ev::DroppedSender { task, ch: c });
                }
            }
        }
    }
    while let Some((c, h)) = handles.pop() {
        YieldOnce(false).await;
        ctx.ev(Ev::DropSenderCall { task, ch: c });
        drop(h);
        ctx.ev(Ev::DroppedSender { task, ch: c });
    }
    ctx.ev(Ev::Done { task });
}

async fn receiver_task1(task: usize, ch: usize, mode: RecvMode, mut rx: DistributionReceiver<u32>, ctx: Rc<Ctx1>) {
    let mut got = 0usize;
    loop {
        YieldOnce(false).await;
        if let RecvMode::ThenDrop(m) = mode {
            if got >= m {
                break;
            }
        }
        ctx.ev(Ev::RecvCall { task, ch });
        let mut fut = rx.recv();
        let r = std::future::poll_fn(|cx| match Pin::new(&mut fut).poll(cx) {
            Poll::Ready(r) => Poll::Ready(r),
            Poll::Pending => {
                ctx.ev(Ev::RecvPending { task, ch });
                Poll::Pending
            }
        })
        .await;
        drop(fut);
        ctx.ev(Ev::RecvRet { task, ch, val: r });
        match r {
            Some(_) => got += 1,
            None => break,
        }
    }
    ctx.ev(Ev::DropRecvCall { task, ch });
    drop(rx);
    ctx.ev(Ev::DroppedRecv { task, ch });
    ctx.ev(Ev::Done { task });
}

struct FlagWaker {
    woken: AtomicBool,
    wakes: AtomicU64,
}
impl Wake for FlagWaker {
    fn wake(self: Arc<Self>) {
        self.wake_by_ref()
    }
    fn wake_by_ref(self: &Arc<Self>) {
        self.woken.store(true, Ordering::SeqCst);
        self.wakes.fetch_add(1, Ordering::SeqCst);
    }
}

#[derive(Default)]
struct RunStats {
    steps: u64,
    events: u64,
    gate_closed: u64,
    sched_fp: u64,
    pending_episodes: u64,
    cancels: u64,
    spurious: u64,
    delivered: u64,
}

/// Run one schedule of `sc`. `choose(n)` picks among n enabled actions.
/// `hostile`: also offer spurious polls and cancellations of pending sends.
fn run_schedule(sc: &Scenario, choose: &mut dyn FnMut(usize) -> usize, hostile: Option<&mut Rng>) -> Result<RunStats, (String, Json)> {
    let (txs, rxs) = channels::<u32>(sc.n_ch);
    let ctx = Rc::new(Ctx1 { events: RefCell::new(vec![]), cancel: (0..sc.n_tasks()).map(|_| Cell::new(false)).collect() });
    let mut tasks: Vec<Option<Pin<Box<dyn Future<Output = ()>>>>> = vec![];
    for (i, s) in sc.senders.iter().enumerate() {
        let handles: Vec<(usize, DistributionSender<u32>)> = s.chans.iter().map(|c| (*c, txs[*c].clone())).collect();
        tasks.push(Some(Box::pin(sender_task1(i, s.clone(), handles, ctx.clone()))));
    }
    // the original handles returned by channels() are dropped now: only task handles remain
    drop(txs);
    let ns = sc.senders.len();
    for (c, rx) in rxs.into_iter().enumerate() {
        tasks.push(Some(Box::pin(receiver_task1(ns + c, c, sc.receivers[c].clone(), rx, ctx.clone()))));
    }
    let wakers: Vec<Arc<FlagWaker>> = (0..tasks.len()).map(|_| Arc::new(FlagWaker { woken: AtomicBool::new(true), wakes: AtomicU64::new(0) })).collect();
    let mut model = Model::new(sc);
    let mut stats = RunStats::default();
    let mut trace: Vec<String> = vec![];
    let mut hostile = hostile;
    let fail = |sig: &str, msg: String, trace: &Vec<String>| -> (String, Json) {
        (sig.to_string(), json!({"scenario": sc.to_json(), "what": msg, "trace_tail": trace.iter().rev().take(40).rev().collect::<Vec<_>>() }))
    };
    let max_steps = 10_000u64;
    loop {
        // enabled actions: (kind, task) kind 0 = run woken task, 1 = spurious poll, 2 = cancel pending send
        let mut acts: Vec<(u8, usize)> = vec![];
        for (i, t) in tasks.iter().enumerate() {
            if t.is_some() && wakers[i].woken.load(Ordering::SeqCst) {
                acts.push((0, i));
            }
        }
        if let Some(r) = hostile.as_deref_mut() {
            for (i, t) in tasks.iter().enumerate() {
                if t.is_some() && !wakers[i].woken.load(Ordering::SeqCst) {
                    if r.chance(1, 12) {
                        acts.push((1, i));
                    }
                    if matches!(model.waiting[i], Wait::Send(_)) && r.chance(1, 25) {
                        acts.push((2, i));
                    }
                }
            }
        }
        if acts.is_empty() {
            if tasks.iter().any(|t| t.is_some()) {
                let stuck: Vec<String> = tasks.iter().enumerate().filter(|(_, t)| t.is_some()).map(|(i, _)| format!("task{i}:{:?}", model.waiting[i])).collect();
                return Err(fail("deadlock", format!("quiescent with unfinished tasks: {stuck:?}"), &trace));
            }
            break;
        }
        let k = choose(acts.len());
        let (kind, i) = acts[k];
        stats.sched_fp = fp_mix(stats.sched_fp, ((kind as u64) << 32) | i as u64);
        stats.steps += 1;
        if stats.steps > max_steps {
            return Err(fail("livelock", "step bound exceeded".into(), &trace));
        }
        if kind == 2 {
            ctx.cancel[i].set(true);
            stats.cancels += 1;
        }
        if kind == 1 {
            stats.spurious += 1;
        }
        wakers[i].woken.store(false, Ordering::SeqCst);
        let waker = Waker::from(wakers[i].clone());
        let mut cx = Context::from_waker(&waker);
        let res = tasks[i].as_mut().unwrap().as_mut().poll(&mut cx);
        if res.is_ready() {
            tasks[i] = None;
        }
        let evs: Vec<Ev> = ctx.events.borrow_mut().drain(..).collect();
        for e in &evs {
            stats.events += 1;
            if matches!(e, Ev::SendPending { .. } | Ev::RecvPending { .. }) {
                stats.pending_episodes += 1;
            }
            if matches!(e, Ev::RecvRet { val: Some(_), .. }) {
                stats.delivered += 1;
            }
            trace.push(format!("{e:?}"));
            if let Err(msg) = model.apply(e) {
                let sig = msg.split(':').next().unwrap_or("model-mismatch").split(' ').next().unwrap_or("model-mismatch").to_string();
                return Err(fail(&sig, msg, &trace));
            }
        }
        // immediate lost-wake-up rule, evaluated on the state *after* the step
        for j in 0..tasks.len() {
            if tasks[j].is_some() && model.waiting[j] != Wait::None && !wakers[j].woken.load(Ordering::SeqCst) && model.enabled(&model.waiting[j]) {
                return Err(fail(
                    "lost-wakeup",
                    format!("task{j} is pending in {:?}, its enabling condition holds (open-empty channels = {}), and its waker was not fired since it registered", model.waiting[j], model.open_empty()),
                    &trace,
                ));
            }
        }
    }
    // terminal: every channel whose receiver read to EOS must be drained in the model
    stats.gate_closed = model.gate_closed_episodes;
    Ok(stats)
}

/// Exhaustive stateless DFS over scheduler choices (run actions only). Returns (schedules, complete?)
fn explore_exhaustive(sc: &Scenario, cap: u64, rep: &Report) -> (u64, bool) {
    let mut path: Vec<(usize, usize)> = vec![];
    let mut n = 0u64;
    loop {
        let mut pos = 0usize;
        let mut rec: Vec<(usize, usize)> = vec![];
        let mut chooser = |opts: usize| -> usize {
            let c = if pos < path.len() { path[pos].0.min(opts - 1) } else { 0 };
            rec.push((c, opts));
            pos += 1;
            c
        };
        let r = run_schedule(sc, &mut chooser, None);
        n += 1;
        match r {
            Ok(st) => {
                rep.case(fp_mix(sc.fp(), st.sched_fp), st.pending_episodes > 0);
                rep.count("l1_steps", st.steps);
                rep.count("l1_events", st.events);
                rep.count("l1_gate_closed_episodes", st.gate_closed);
                rep.count("l1_pending_episodes", st.pending_episodes);
                rep.count("l1_values_delivered", st.delivered);
            }
            Err((sig, detail)) => {
                rep.case(fp_mix(sc.fp(), n), true);
                rep.violation(&sig, json!({"layer": "poll-explorer-exhaustive", "choices": rec.iter().map(|x| x.0).collect::<Vec<_>>(), "detail": detail}));
                return (n, false);
            }
        }
        // next path in DFS order
        path = rec;
        loop {
            match path.pop() {
                None => return (n, true),
                Some((c, opts)) => {
                    if c + 1 < opts {
                        path.push((c + 1, opts));
                        break;
                    }
                }
            }
        }
        if n >= cap {
            return (n, false);
        }
    }
}

// ---------------------------------------------------------------------------------------
// Layer 2: real threads
// ---------------------------------------------------------------------------------------

const ST_RUNNING: u8 = 0;
const ST_PARKED: u8 = 1;
const ST_DONE: u8 = 2;

struct Shared2 {
    clock: vcommon::hist::Clock,
    progress: AtomicU64,
    abort: AtomicBool,
}

struct ThreadWaker {
    woken: AtomicBool,
    thread: std::thread::Thread,
    shared: Arc<Shared2>,
}
impl Wake for ThreadWaker {
    fn wake(self: Arc<Self>) {
        self.wake_by_ref()
    }
    fn wake_by_ref(self: &Arc<Self>) {
        self.shared.progress.fetch_add(1, Ordering::SeqCst);
        self.woken.store(true, Ordering::SeqCst);
        self.thread.unpark();
    }
}

struct TaskSlot {
    state: AtomicU8,
    waker: Mutex<Option<Arc<ThreadWaker>>>,
}

/// block_on with park/unpark; returns None when aborted by the supervisor
fn block_on2<F: Future>(fut: F, slot: &TaskSlot, shared: &Arc<Shared2>) -> Option<F::Output> {
    let tw = Arc::new(ThreadWaker { woken: AtomicBool::new(false), thread: std::thread::current(), shared: shared.clone() });
    *slot.waker.lock().unwrap() = Some(tw.clone());
    let waker = Waker::from(tw.clone());
    let mut cx = Context::from_waker(&waker);
    let mut fut = std::pin::pin!(fut);
    loop {
        shared.progress.fetch_add(1, Ordering::SeqCst);
        if let Poll::Ready(v) = fut.as_mut().poll(&mut cx) {
            return Some(v);
        }
        slot.state.store(ST_PARKED, Ordering::SeqCst);
        loop {
            if tw.woken.load(Ordering::SeqCst) {
                // order matters for the supervisor: never appear "parked and not woken" while runnable
                slot.state.store(ST_RUNNING, Ordering::SeqCst);
                tw.woken.store(false, Ordering::SeqCst);
                break;
            }
            if shared.abort.load(Ordering::SeqCst) {
                return None;
            }
            std::thread::park();
        }
    }
}

struct Pace {
    rng: Rng,
    level: u32,
}
impl Pace {
    fn point(&mut self) {
        if self.level == 0 {
            return;
        }
        match self.rng.below(6) {
            0 => std::thread::yield_now(),
            1 => {
                for _ in 0..self.rng.below(40 * self.level as u64) {
                    std::hint::spin_loop();
                }
            }
            _ => {}
        }
    }
}

type Log2 = vcommon::hist::Log<Ev>;

async fn sender_task2(task: usize, script: SenderScript, mut handles: Vec<(usize, DistributionSender<u32>)>, sh: Arc<Shared2>, mut pace: Pace, log: &mut Log2) {
    let mut seq = 0usize;
    for op in script.ops {
        pace.point();
        match op {
            SOp::Send(ch) => {
                let Some(pos) = handles.iter().position(|(c, _)| *c == ch) else { continue };
                let id = msg_id(task, seq);
                seq += 1;
                log.rec(&sh.clock, Ev::SendCall { task, ch, id });
                let r = handles[pos].1.send(id).await;
                log.rec(&sh.clock, Ev::SendRet { task, ch, id, ok: r.is_ok() });
            }
            SOp::CloneH(ch) => {
                if let Some(pos) = handles.iter().position(|(c, _)| *c == ch) {
                    let h = handles[pos].1.clone();
                    handles.push((ch, h));
                }
            }
            SOp::DropH(ch) => {
                if let Some(pos) = handles.iter().position(|(c, _)| *c == ch) {
                    let (c, h) = handles.remove(pos);
                    log.rec(&sh.clock, Ev::DropSenderCall { task, ch: c });
                    drop(h);
                    log.rec(&sh.clock, Ev::DroppedSender { task, ch: c });
                }
            }
        }
    }
    while let Some((c, h)) = handles.pop() {
        pace.point();
        log.rec(&sh.clock, Ev::DropSenderCall { task, ch: c });
        drop(h);
        log.rec(&sh.clock, Ev::DroppedSender { task, ch: c });
    }
}

async fn receiver_task2(task: usize, ch: usize, mode: RecvMode, mut rx: DistributionReceiver<u32>, sh: Arc<Shared2>, mut pace: Pace, log: &mut Log2) {
    let mut got = 0usize;
    loop {
        pace.point();
        if let RecvMode::ThenDrop(m) = mode {
            if got >= m {
                break;
            }
        }
        log.rec(&sh.clock, Ev::RecvCall { task, ch });
        let r = rx.recv().await;
        log.rec(&sh.clock, Ev::RecvRet { task, ch, val: r });
        match r {
            Some(_) => got += 1,
            None => break,
        }
    }
    log.rec(&sh.clock, Ev::DropRecvCall { task, ch });
    drop(rx);
    log.rec(&sh.clock, Ev::DroppedRecv { task, ch });
}

struct Run2 {
    history: Vec<(u64, Ev)>,
    deadlock: Option<String>,
    watchdog: bool,
}

fn run_threads(sc: &Scenario, seed: u64, pace_level: u32) -> Run2 {
    let (txs, rxs) = channels::<u32>(sc.n_ch);
    let shared = Arc::new(Shared2 { clock: vcommon::hist::Clock::new(), progress: AtomicU64::new(0), abort: AtomicBool::new(false) });
    let n = sc.n_tasks();
    let slots: Arc<Vec<TaskSlot>> = Arc::new((0..n).map(|_| TaskSlot { state: AtomicU8::new(ST_RUNNING), waker: Mutex::new(None) }).collect());
    let mut joins = vec![];
    let ns = sc.senders.len();
    // handle cloning happens here, before any thread starts (counts as part of setup)
    let mut sender_handles: Vec<Vec<(usize, DistributionSender<u32>)>> = sc.senders.iter().map(|s| s.chans.iter().map(|c| (*c, txs[*c].clone())).collect()).collect();
    drop(txs);
    for (i, s) in sc.senders.iter().enumerate().rev() {
        let handles = sender_handles.pop().unwrap();
        let (sh, slots, script) = (shared.clone(), slots.clone(), s.clone());
        let pace = Pace { rng: Rng::derive(seed, &[i as u64]), level: pace_level };
        joins.push(std::thread::spawn(move || {
            let mut log = Log2::new();
            let ok = block_on2(sender_task2(i, script, handles, sh.clone(), pace, &mut log), &slots[i], &sh).is_some();
            slots[i].state.store(ST_DONE, Ordering::SeqCst);
            sh.progress.fetch_add(1, Ordering::SeqCst);
            (log, ok)
        }));
    }
    for (c, rx) in rxs.into_iter().enumerate() {
        let (sh, slots, mode) = (shared.clone(), slots.clone(), sc.receivers[c].clone());
        let i = ns + c;
        let pace = Pace { rng: Rng::derive(seed, &[i as u64]), level: pace_level };
        joins.push(std::thread::spawn(move || {
            let mut log = Log2::new();
            let ok = block_on2(receiver_task2(i, c, mode, rx, sh.clone(), pace, &mut log), &slots[i], &sh).is_some();
            slots[i].state.store(ST_DONE, Ordering::SeqCst);
            sh.progress.fetch_add(1, Ordering::SeqCst);
            (log, ok)
        }));
    }
    // supervisor: logical deadlock detection
    let mut deadlock = None;
    let mut watchdog = false;
    let t0 = std::time::Instant::now();
    let mut spins = 0u64;
    loop {
        let p0 = shared.progress.load(Ordering::SeqCst);
        let mut all_done = true;
        let mut all_stuck = true;
        let mut desc = vec![];
        for (i, s) in slots.iter().enumerate() {
            let st = s.state.load(Ordering::SeqCst);
            if st == ST_DONE {
                continue;
            }
            all_done = false;
            let woken = s.waker.lock().unwrap().as_ref().map(|w| w.woken.load(Ordering::SeqCst)).unwrap_or(true);
            if st != ST_PARKED || woken {
                all_stuck = false;
            } else {
                desc.push(format!("task{i}"));
            }
        }
        let p1 = shared.progress.load(Ordering::SeqCst);
        if all_done {
            break;
        }
        if all_stuck && p0 == p1 {
            // consistent snapshot: every live task is parked with its wake flag clear and no wake or
            // poll happened while we looked ⇒ nobody can ever wake anybody: definite deadlock
            deadlock = Some(format!("all live tasks parked and not woken: {desc:?}"));
            shared.abort.store(true, Ordering::SeqCst);
            for s in slots.iter() {
                if let Some(w) = s.waker.lock().unwrap().as_ref() {
                    w.thread.unpark();
                }
            }
            break;
        }
        spins += 1;
        if spins % 64 == 0 {
            std::thread::sleep(std::time::Duration::from_micros(200));
        } else {
            std::thread::yield_now();
        }
        if !cfg!(miri) && t0.elapsed().as_secs() > 120 {
            watchdog = true;
            shared.abort.store(true, Ordering::SeqCst);
            for s in slots.iter() {
                if let Some(w) = s.waker.lock().unwrap().as_ref() {
                    w.thread.unpark();
                }
            }
            break;
        }
    }
    let mut logs = vec![];
    for j in joins {
        if let Ok((log, _)) = j.join() {
            logs.push(log);
        }
    }
    Run2 { history: vcommon::hist::merge(logs), deadlock, watchdog }
}

/// Offline checker over a recorded history (call/return timestamps from one atomic counter).
fn check_history(sc: &Scenario, h: &[(u64, Ev)]) -> Result<u64, (String, String)> {
    let mut delivered = 0u64;
    for ch in 0..sc.n_ch {
        // sends on this channel: id -> (call, ret, ok)
        let mut sends: BTreeMap<u32, (u64, Option<(u64, bool)>)> = BTreeMap::new();
        let mut recvs: Vec<(u64, Option<u32>)> = vec![]; // (ret time, value)
        let mut sender_drop_calls: Vec<u64> = vec![];
        let mut handle_count = sc.senders.iter().map(|s| s.chans.iter().filter(|c| **c == ch).count()).sum::<usize>();
        let mut rx_drop_call: Option<u64> = None;
        for (t, e) in h {
            match e {
                Ev::SendCall { ch: c, id, .. } if *c == ch => {
                    sends.insert(*id, (*t, None));
                }
                Ev::SendRet { ch: c, id, ok, .. } if *c == ch => {
                    if let Some(s) = sends.get_mut(id) {
                        s.1 = Some((*t, *ok));
                    }
                }
                Ev::RecvRet { ch: c, val, .. } if *c == ch => recvs.push((*t, *val)),
                Ev::DropSenderCall { ch: c, .. } if *c == ch => sender_drop_calls.push(*t),
                Ev::DropRecvCall { ch: c, .. } if *c == ch => rx_drop_call = Some(*t),
                _ => {}
            }
        }
        // clones are not logged as events in layer 2; count them from the script
        handle_count += sc.senders.iter().map(|s| {
            let mut live = s.chans.iter().filter(|c| **c == ch).count();
            let mut clones = 0;
            for o in &s.ops {
                match o {
                    SOp::CloneH(c) if *c == ch && live > 0 => { clones += 1; live += 1; }
                    SOp::DropH(c) if *c == ch && live > 0 => { live -= 1; }
                    _ => {}
                }
            }
            clones
        }).sum::<usize>();
        let mut seen = std::collections::BTreeSet::new();
        let mut order: Vec<u32> = vec![];
        for (t, v) in &recvs {
            match v {
                Some(id) => {
                    let Some((call, _)) = sends.get(id) else { return Err(("phantom-value".into(), format!("channel {ch} delivered {id} that was never sent"))) };
                    if call > t {
                        return Err(("phantom-value".into(), format!("channel {ch} delivered {id} before its send was called")));
                    }
                    if !seen.insert(*id) {
                        return Err(("order-or-duplicate".into(), format!("channel {ch} delivered {id} twice")));
                    }
                    order.push(*id);
                    delivered += 1;
                }
                None => {
                    // EOS: every handle's drop must have started before this recv returned
                    let started = sender_drop_calls.iter().filter(|d| **d < *t).count();
                    if started < handle_count {
                        return Err(("early-eos".into(), format!("channel {ch}: end-of-stream returned at t={t} but only {started}/{handle_count} sender handles had begun dropping")));
                    }
                    // every send that returned Ok before the EOS must have been delivered
                    for (id, (_, ret)) in &sends {
                        if let Some((rt, true)) = ret {
                            if rt < t && !seen.contains(id) {
                                return Err(("lost-value".into(), format!("channel {ch}: value {id} was sent successfully but end-of-stream came without it")));
                            }
                        }
                    }
                }
            }
        }
        // order: per sender FIFO and real-time order across senders
        for i in 0..order.len() {
            for j in (i + 1)..order.len() {
                let (a, b) = (order[i], order[j]);
                let (acall, _) = sends[&a];
                if let (_, Some((bret, _))) = sends[&b] {
                    if bret < acall {
                        return Err(("order-or-duplicate".into(), format!("channel {ch}: {b} was sent (returned at {bret}) before send of {a} was called ({acall}) yet was delivered after it")));
                    }
                }
                if a >> 16 == b >> 16 && (a & 0xffff) > (b & 0xffff) {
                    return Err(("order-or-duplicate".into(), format!("channel {ch}: values {a},{b} of the same sender delivered out of send order")));
                }
            }
        }
        // send failures only once the receiver is gone (its drop must have begun before the send returned)
        for (id, (_, ret)) in &sends {
            if let Some((rt, false)) = ret {
                match rx_drop_call {
                    Some(d) if d < *rt => {}
                    _ => return Err(("send-error-with-live-receiver".into(), format!("channel {ch}: send of {id} failed at t={rt} but the receiver had not begun dropping"))),
                }
            }
        }
    }
    Ok(delivered)
}

fn thread_stage(rep: &Report, seed: u64, runs: u64, max_ch: usize, max_senders: usize, max_msgs: usize, pace: u32, workers: usize) {
    // several scenario runs execute concurrently: oversubscribing the cores makes the OS preempt
    // threads at arbitrary points *inside* polls, not only at our pacing points
    vcommon::par::run(workers, 0..runs, |r| {
        let mut rng = Rng::derive(seed, &[15, 2, r]);
        let sc = gen_scenario(&mut rng, max_ch, max_senders, max_msgs, true);
        let seed = rng.next_u64();
        let out = run_threads(&sc, seed, pace);
        let hfp = out.history.iter().fold(0u64, |a, (_, e)| fp_mix(a, vcommon::fp_str(&format!("{e:?}"))));
        rep.case(fp_mix(sc.fp(), hfp), out.history.len() > 4);
        rep.count("l2_thread_runs", 1);
        rep.count("l2_events", out.history.len() as u64);
        if out.watchdog {
            rep.inconclusive("thread-stage wall-clock watchdog fired");
            return;
        }
        if let Some(d) = out.deadlock {
            rep.violation("deadlock", json!({"layer": "threads", "scenario": sc.to_json(), "seed": seed, "what": d,
                "history_tail": out.history.iter().rev().take(40).rev().map(|(t, e)| format!("{t} {e:?}")).collect::<Vec<_>>() }));
            return;
        }
        match check_history(&sc, &out.history) {
            Ok(d) => rep.count("l2_values_delivered", d),
            Err((sig, msg)) => rep.violation(&sig, json!({"layer": "threads", "scenario": sc.to_json(), "seed": seed, "what": msg,
                "history": out.history.iter().map(|(t, e)| format!("{t} {e:?}")).collect::<Vec<_>>() })),
        }
        if r == 0 && rep.want_sample() {
            rep.sample(json!({"layer": "threads", "scenario": sc.to_json(), "history_head": out.history.iter().take(12).map(|(t, e)| format!("{t} {e:?}")).collect::<Vec<_>>() }));
        }
    });
}

// ---------------------------------------------------------------------------------------

pub fn run(args: &Args) -> i32 {
    let rep = Report::new("C15", "exploration", args);
    rep.set_rule("case = (scenario, schedule): layer 1 = scheduler choice vector over real async tasks on the real channel code, \
        exhaustive for the tiny scenarios, random (with spurious polls and send cancellations) beyond; layer 2 = OS-thread runs with \
        seeded pacing. distinct = fingerprint of scenario + scheduling-decision sequence (layer 1) or recorded history (layer 2); \
        non-trivial = at least one task was observed pending (layer 1) / history longer than 4 events (layer 2)");
    rep.assume("poll-level atomicity in layer 1 (a poll is one step); intra-poll interleavings come only from layer 2 under native threads / Miri / TSan");
    let mut rng = Rng::derive(args.seed, &[15]);
    let sanitizer = !args.stage.is_empty();

    if args.opt_u64("warmup", 0) == 1 {
        let sc = &tiny_scenarios()[0];
        let _ = run_threads(sc, 1, 1);
        println!("warmup ok");
        return 0;
    }

    if let Some(p) = &args.replay {
        return replay(p, &rep);
    }

    if !sanitizer {
        // --- layer 1 exhaustive ---
        let cap = args.bound("exh_cap", 100_000, 2_000_000);
        let mut complete = 0;
        let tiny = tiny_scenarios();
        for (k, sc) in tiny.iter().enumerate() {
            let (n, done) = explore_exhaustive(sc, cap, &rep);
            rep.count("l1_exhaustive_schedules", n);
            if done {
                complete += 1;
            }
            rep.extra(&format!("exhaustive_scenario_{k}"), json!({"scenario": sc.to_json(), "schedules": n, "complete": done}));
            if k == 0 {
                rep.sample(json!({"layer": "poll-explorer-exhaustive", "scenario": sc.to_json(), "schedules_enumerated": n, "complete": done}));
            }
            if rep.violation_count() > 0 {
                break;
            }
        }
        rep.extra("exhaustive_scenarios_complete", json!(format!("{complete}/{}", tiny.len())));
        // --- layer 1 random, hostile ---
        let n_rand = args.bound("l1_random", 30_000, 1_500_000);
        for i in 0..n_rand {
            if rep.violation_count() > 3 {
                break;
            }
            let sc = gen_scenario(&mut rng, 3, 4, 4, true);
            let mut r2 = rng.split();
            let mut r3 = rng.split();
            let mut choices = vec![];
            let mut chooser = |n: usize| {
                let c = r2.usize(n);
                choices.push(c);
                c
            };
            let hostile = i % 3 != 0;
            let res = run_schedule(&sc, &mut chooser, if hostile { Some(&mut r3) } else { None });
            match res {
                Ok(st) => {
                    rep.case(fp_mix(sc.fp(), st.sched_fp), st.pending_episodes > 0);
                    rep.count("l1_steps", st.steps);
                    rep.count("l1_events", st.events);
                    rep.count("l1_gate_closed_episodes", st.gate_closed);
                    rep.count("l1_pending_episodes", st.pending_episodes);
                    rep.count("l1_cancellations", st.cancels);
                    rep.count("l1_spurious_polls", st.spurious);
                    rep.count("l1_values_delivered", st.delivered);
                    if i == 1 {
                        rep.sample(json!({"layer": "poll-explorer-random", "scenario": sc.to_json(), "choices": choices, "steps": st.steps}));
                    }
                }
                Err((sig, detail)) => {
                    rep.case(fp_mix(sc.fp(), i), true);
                    rep.violation(&sig, json!({"layer": "poll-explorer-random", "hostile": hostile, "choices": choices, "detail": detail}));
                }
            }
        }
        rep.obligation("gate-closed-observed", rep.get_count("l1_gate_closed_episodes") > 0, "the all-channels-non-empty gate must close at least once");
        rep.obligation("pending-observed", rep.get_count("l1_pending_episodes") > 0, "some task must have been observed pending");
    }

    // --- layer 2 threads ---
    let runs = if cfg!(miri) { args.opt_u64("l2_runs", 2) } else if sanitizer { args.bound("l2_runs", 150, 500) } else { args.bound("l2_runs", 15_000, 400_000) };
    let (mc, ms, mm) = if cfg!(miri) { (2, 3, 3) } else { (3, 4, 5) };
    let workers = if cfg!(miri) { 1 } else { args.workers };
    thread_stage(&rep, rng.next_u64(), runs, mc, ms, mm, if cfg!(miri) { 1 } else { 3 }, workers);
    rep.finish()
}

fn replay(p: &std::path::Path, rep: &Report) -> i32 {
    // replays re-run the recorded layer-1 choice vector when present
    let Ok(text) = std::fs::read_to_string(p) else { return 2 };
    let Ok(v) = serde_json_from(&text) else { return 2 };
    println!("replay file loaded: signature={}", v.get("signature").and_then(|x| x.as_str()).unwrap_or("?"));
    println!("{}", v.get("witness").map(|w| w.to_string()).unwrap_or_default());
    rep.inconclusive("replay prints the witness; re-run the check with the recorded seed to reproduce");
    2
}

fn serde_json_from(s: &str) -> Result<Json, ()> {
    vcommon::serde_json_parse(s)
}
