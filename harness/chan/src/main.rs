//! C15 — monitors for the repartition distributor channels.
//!
//! The code under test is the *unmodified* source file from /repo, included by path.
#![allow(dead_code, clippy::all)]

#[path = "/repo/datafusion/physical-plan/src/repartition/distributor_channels.rs"]
mod distributor_channels;

mod c15;

fn main() {
    let args = vcommon::Args::parse();
    match args.id.as_str() {
        "C15" => std::process::exit(c15::run(&args)),
        other => {
            eprintln!("chan: unknown check {other}");
            std::process::exit(2)
        }
    }
}
