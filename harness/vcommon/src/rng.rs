//! xoshiro256** seeded through splitmix64; splittable by deriving children from tags.

#[derive(Clone, Debug)]
pub struct Rng {
    s: [u64; 4],
}

fn splitmix(x: &mut u64) -> u64 {
    *x = x.wrapping_add(0x9e3779b97f4a7c15);
    let mut z = *x;
    z = (z ^ (z >> 30)).wrapping_mul(0xbf58476d1ce4e5b9);
    z = (z ^ (z >> 27)).wrapping_mul(0x94d049bb133111eb);
    z ^ (z >> 31)
}

impl Rng {
    pub fn new(seed: u64) -> Self {
        let mut x = seed ^ 0x5851f42d4c957f2d;
        let s = [splitmix(&mut x), splitmix(&mut x), splitmix(&mut x), splitmix(&mut x)];
        Rng { s }
    }

    /// Child generator for (seed, path...) – stable regardless of how much the parent was used.
    pub fn derive(seed: u64, path: &[u64]) -> Self {
        let mut x = seed;
        for p in path {
            x = crate::fp_mix(x, *p);
        }
        Rng::new(x)
    }

    pub fn split(&mut self) -> Rng {
        Rng::new(self.next_u64())
    }

    pub fn next_u64(&mut self) -> u64 {
        let r = self.s[1].wrapping_mul(5).rotate_left(7).wrapping_mul(9);
        let t = self.s[1] << 17;
        self.s[2] ^= self.s[0];
        self.s[3] ^= self.s[1];
        self.s[1] ^= self.s[2];
        self.s[0] ^= self.s[3];
        self.s[2] ^= t;
        self.s[3] = self.s[3].rotate_left(45);
        r
    }

    pub fn next_u32(&mut self) -> u32 {
        (self.next_u64() >> 32) as u32
    }

    /// uniform in [0, n) ; n == 0 returns 0
    pub fn below(&mut self, n: u64) -> u64 {
        if n == 0 {
            return 0;
        }
        // multiply-shift, bias negligible for our purposes
        ((self.next_u64() as u128 * n as u128) >> 64) as u64
    }

    pub fn usize(&mut self, n: usize) -> usize {
        self.below(n as u64) as usize
    }

    /// uniform in [lo, hi] inclusive
    pub fn range(&mut self, lo: i64, hi: i64) -> i64 {
        debug_assert!(lo <= hi);
        let span = (hi as i128 - lo as i128 + 1) as u128;
        if span > u64::MAX as u128 {
            return self.next_u64() as i64;
        }
        (lo as i128 + self.below(span as u64) as i128) as i64
    }

    pub fn bool(&mut self) -> bool {
        self.next_u64() & 1 == 1
    }

    /// true with probability num/den
    pub fn chance(&mut self, num: u64, den: u64) -> bool {
        self.below(den) < num
    }

    pub fn f64(&mut self) -> f64 {
        (self.next_u64() >> 11) as f64 / (1u64 << 53) as f64
    }

    pub fn pick<'a, T>(&mut self, xs: &'a [T]) -> &'a T {
        &xs[self.usize(xs.len())]
    }

    pub fn pick_cloned<T: Clone>(&mut self, xs: &[T]) -> T {
        xs[self.usize(xs.len())].clone()
    }

    pub fn weighted(&mut self, w: &[u32]) -> usize {
        let total: u64 = w.iter().map(|x| *x as u64).sum();
        let mut r = self.below(total.max(1));
        for (i, x) in w.iter().enumerate() {
            if r < *x as u64 {
                return i;
            }
            r -= *x as u64;
        }
        w.len() - 1
    }

    pub fn shuffle<T>(&mut self, xs: &mut [T]) {
        for i in (1..xs.len()).rev() {
            let j = self.usize(i + 1);
            xs.swap(i, j);
        }
    }

    /// Random cut points: split `n` items into chunks, each of size in [1, max_chunk].
    pub fn chunks(&mut self, n: usize, max_chunk: usize) -> Vec<usize> {
        let mut out = vec![];
        let mut left = n;
        while left > 0 {
            let c = 1 + self.usize(max_chunk.max(1).min(left));
            out.push(c);
            left -= c;
        }
        out
    }
}
