//! Evidence + verdict reporting. Three-valued verdict: held (0), violated (1), inconclusive (2).

use crate::args::Args;
use serde_json::{json, Map, Value};
use std::collections::{BTreeMap, BTreeSet, HashSet};
use std::sync::Mutex;
use std::time::Instant;

#[derive(Clone, Debug)]
pub struct Violation {
    /// exact signature; matched against known_findings.json
    pub signature: String,
    /// the witness (fully materialised case + what was observed)
    pub detail: Value,
}

#[derive(Default)]
struct Inner {
    evaluations: u64,
    fingerprints: HashSet<u64>,
    samples: Vec<Value>,
    counters: BTreeMap<String, u64>,
    sets: BTreeMap<String, BTreeSet<String>>,
    skips: BTreeMap<String, u64>,
    violations: Vec<Violation>,
    violation_count: u64,
    /// occurrences per signature (every occurrence, also those not kept as witnesses)
    sig_counts: BTreeMap<String, u64>,
    obligations: Vec<(String, bool, String)>,
    inconclusive: Vec<String>,
    extra: Map<String, Value>,
    assumptions: Vec<String>,
    rule: String,
    exhaustive: Option<bool>,
}

pub struct Report {
    pub id: String,
    pub level: String,
    pub args: Args,
    start: Instant,
    inner: Mutex<Inner>,
    /// open known findings of this property (signature -> description), loaded once at start
    known: BTreeMap<String, String>,
}

const MAX_SAMPLES: usize = 6;
const MAX_KEPT_VIOLATIONS: usize = 25;

impl Report {
    pub fn new(id: &str, level: &str, args: &Args) -> Report {
        Report {
            id: id.to_string(),
            level: level.to_string(),
            args: args.clone(),
            start: Instant::now(),
            inner: Mutex::new(Inner::default()),
            known: load_known(&args.root.join("known_findings.json"), id),
        }
    }

    fn lock(&self) -> std::sync::MutexGuard<'_, Inner> {
        self.inner.lock().unwrap_or_else(|e| e.into_inner())
    }

    pub fn elapsed_s(&self) -> f64 {
        self.start.elapsed().as_secs_f64()
    }

    /// true while the soft budget for random tails has not run out
    pub fn within_budget(&self, default_s: f64) -> bool {
        let b = if self.args.budget_s > 0.0 { self.args.budget_s } else { default_s };
        self.elapsed_s() < b
    }

    pub fn set_rule(&self, rule: &str) {
        self.lock().rule = rule.to_string();
    }

    pub fn assume(&self, a: &str) {
        let mut g = self.lock();
        if !g.assumptions.iter().any(|x| x == a) {
            g.assumptions.push(a.to_string());
        }
    }

    pub fn set_exhaustive(&self, e: bool) {
        self.lock().exhaustive = Some(e);
    }

    /// One executed case: `fingerprint` identifies the case, `nontrivial` per the check's rule.
    pub fn case(&self, fingerprint: u64, nontrivial: bool) {
        let mut g = self.lock();
        g.evaluations += 1;
        if nontrivial {
            g.fingerprints.insert(fingerprint);
        }
    }

    pub fn cases(&self, n: u64) {
        self.lock().evaluations += n;
    }

    pub fn nontrivial(&self, fingerprint: u64) {
        self.lock().fingerprints.insert(fingerprint);
    }

    pub fn count(&self, key: &str, n: u64) {
        *self.lock().counters.entry(key.to_string()).or_insert(0) += n;
    }

    pub fn max(&self, key: &str, n: u64) {
        let mut g = self.lock();
        let e = g.counters.entry(key.to_string()).or_insert(0);
        if n > *e {
            *e = n;
        }
    }

    pub fn get_count(&self, key: &str) -> u64 {
        self.lock().counters.get(key).copied().unwrap_or(0)
    }

    /// record a member of a named set (e.g. operator names seen); reported with its size
    pub fn seen(&self, set: &str, member: &str) {
        let mut g = self.lock();
        let s = g.sets.entry(set.to_string()).or_default();
        if s.len() < 400 {
            s.insert(member.to_string());
        }
    }

    pub fn seen_count(&self, set: &str) -> usize {
        self.lock().sets.get(set).map(|s| s.len()).unwrap_or(0)
    }

    pub fn has_seen(&self, set: &str, member: &str) -> bool {
        self.lock().sets.get(set).map(|s| s.contains(member)).unwrap_or(false)
    }

    pub fn sample(&self, v: Value) {
        let mut g = self.lock();
        if g.samples.len() < MAX_SAMPLES {
            g.samples.push(v);
        }
    }

    pub fn want_sample(&self) -> bool {
        self.lock().samples.len() < MAX_SAMPLES
    }

    pub fn skip(&self, reason: &str) {
        *self.lock().skips.entry(reason.to_string()).or_insert(0) += 1;
    }

    pub fn extra(&self, key: &str, v: Value) {
        self.lock().extra.insert(key.to_string(), v);
    }

    pub fn violation(&self, signature: &str, detail: Value) {
        let mut g = self.lock();
        g.violation_count += 1;
        // keep at most a few per signature and a global cap
        *g.sig_counts.entry(signature.to_string()).or_insert(0) += 1;
        let same = g.violations.iter().filter(|v| v.signature == signature).count();
        // the first witness of a NEW signature is always kept (a flood of known signatures must not
        // crowd out an unknown one)
        if (g.violations.len() < MAX_KEPT_VIOLATIONS && same < 5) || (same == 0 && g.sig_counts.len() < 1000) {
            g.violations.push(Violation { signature: signature.to_string(), detail });
        }
    }

    /// occurrences of violations whose signature is NOT an open known finding (what caps and early
    /// exits should look at: a flood of known findings must not cut a run short)
    pub fn violation_count(&self) -> u64 {
        let g = self.lock();
        g.sig_counts.iter().filter(|(k, _)| !self.known.contains_key(*k)).map(|(_, n)| *n).sum()
    }

    /// A coverage obligation: unmet ⇒ the run is inconclusive (exit 2), never "held".
    pub fn obligation(&self, name: &str, met: bool, note: &str) {
        self.lock().obligations.push((name.to_string(), met, note.to_string()));
    }

    pub fn inconclusive(&self, why: &str) {
        self.lock().inconclusive.push(why.to_string());
    }

    /// Write evidence, print verdict lines, return the process exit code.
    pub fn finish(&self) -> i32 {
        let g = self.lock();
        let known = &self.known;

        // classify violations
        let mut known_hit: BTreeMap<String, (String, u64)> = BTreeMap::new();
        let mut fresh: Vec<&Violation> = vec![];
        for v in &g.violations {
            if let Some(desc) = known.get(&v.signature) {
                known_hit.entry(v.signature.clone()).or_insert((desc.clone(), g.sig_counts.get(&v.signature).copied().unwrap_or(1)));
            } else {
                fresh.push(v);
            }
        }
        let mut replay_paths = vec![];
        let is_stage = self.args.evidence == "-";
        if !fresh.is_empty() && !is_stage {
            let dir = self.args.root.join("replays").join(&self.id);
            let _ = std::fs::create_dir_all(&dir);
            for (i, v) in fresh.iter().enumerate() {
                let p = dir.join(format!("{}-seed{}-{}.json", self.args.tier.name(), self.args.seed, i));
                let body = json!({
                    "property": self.id, "signature": v.signature, "seed": self.args.seed,
                    "tier": self.args.tier.name(), "stage": self.args.stage, "witness": v.detail,
                });
                let _ = std::fs::write(&p, serde_json::to_string_pretty(&body).unwrap_or_default());
                replay_paths.push(p.to_string_lossy().into_owned());
            }
        }

        let unmet: Vec<String> = g
            .obligations
            .iter()
            .filter(|(_, met, _)| !*met)
            .map(|(n, _, note)| format!("{n}: {note}"))
            .collect();
        let mut inconclusive = g.inconclusive.clone();
        for u in &unmet {
            inconclusive.push(format!("coverage obligation unmet: {u}"));
        }
        // the evidence schema needs >= 2 distinct non-trivial cases
        if g.fingerprints.len() < 2 && fresh.is_empty() {
            inconclusive.push(format!("only {} distinct non-trivial cases observed", g.fingerprints.len()));
        }

        let mut cov = Map::new();
        cov.insert("evaluations".into(), json!(g.evaluations));
        cov.insert("distinct_nontrivial".into(), json!(g.fingerprints.len()));
        cov.insert("rule".into(), json!(g.rule));
        let samples = if g.samples.is_empty() { vec![json!("(no sample recorded)")] } else { g.samples.clone() };
        cov.insert("samples".into(), Value::Array(samples));
        if let Some(e) = g.exhaustive {
            cov.insert("exhaustive".into(), json!(e));
        }
        cov.insert("counters".into(), json!(g.counters));
        let sets: Map<String, Value> = g
            .sets
            .iter()
            .map(|(k, s)| (k.clone(), json!({"n": s.len(), "members": s.iter().take(120).collect::<Vec<_>>()})))
            .collect();
        cov.insert("observed_sets".into(), Value::Object(sets));
        cov.insert("skips".into(), json!(g.skips));
        cov.insert(
            "coverage_obligations".into(),
            Value::Array(
                g.obligations.iter().map(|(n, m, note)| json!({"name": n, "met": m, "note": note})).collect(),
            ),
        );
        cov.insert("inconclusive_reasons".into(), json!(inconclusive));
        cov.insert(
            "known_findings_hit".into(),
            json!(known_hit.iter().map(|(k, (_, n))| json!({"signature": k, "count": n})).collect::<Vec<_>>()),
        );
        cov.insert(
            "violation_signatures".into(),
            json!(fresh.iter().map(|v| v.signature.clone()).collect::<BTreeSet<_>>()),
        );
        if !self.args.stage.is_empty() {
            cov.insert("stage".into(), json!(self.args.stage));
        }
        for (k, v) in &g.extra {
            cov.insert(k.clone(), v.clone());
        }
        let ev = json!({
            "property_id": self.id,
            "tier": self.args.tier.name(),
            "seed": self.args.seed,
            "level": self.level,
            "coverage": Value::Object(cov),
            "assumptions": g.assumptions,
            "wall_s": self.start.elapsed().as_secs_f64(),
            "violations": g.sig_counts.iter().filter(|(k, _)| !known.contains_key(*k)).map(|(_, n)| *n as i64).sum::<i64>(),
        });
        if is_stage {
            println!("EVIDENCE-JSON: {}", serde_json::to_string(&ev).unwrap_or_default());
        } else {
            if let Some(parent) = std::path::Path::new(&self.args.evidence).parent() {
                let _ = std::fs::create_dir_all(parent);
            }
            if let Err(e) = std::fs::write(&self.args.evidence, serde_json::to_string_pretty(&ev).unwrap_or_default()) {
                eprintln!("cannot write evidence {}: {e}", self.args.evidence);
            }
        }

        println!(
            "SUMMARY property={} tier={} seed={} stage={} evaluations={} distinct_nontrivial={} violations={} known={} skips={} wall_s={:.1}",
            self.id,
            self.args.tier.name(),
            self.args.seed,
            if self.args.stage.is_empty() { "native" } else { &self.args.stage },
            g.evaluations,
            g.fingerprints.len(),
            fresh.len(),
            known_hit.len(),
            g.skips.values().sum::<u64>(),
            self.start.elapsed().as_secs_f64()
        );
        for (sig, (desc, n)) in &known_hit {
            println!("KNOWN-FINDING: property={} signature={} occurrences={} {}", self.id, sig, n, desc);
        }
        if !fresh.is_empty() {
            if is_stage {
                for v in &fresh {
                    println!(
                        "STAGE-VIOLATION property={} signature={} witness={}",
                        self.id,
                        v.signature,
                        serde_json::to_string(&v.detail).unwrap_or_default()
                    );
                }
            }
            for (i, v) in fresh.iter().enumerate() {
                let p = replay_paths.get(i).cloned().unwrap_or_else(|| "(stage)".into());
                println!("VIOLATION property={} replay={} signature={}", self.id, p, v.signature);
            }
            return 1;
        }
        if !inconclusive.is_empty() {
            for r in &inconclusive {
                println!("INCONCLUSIVE property={} reason={}", self.id, r);
            }
            return 2;
        }
        0
    }
}

/// signature -> description for *open* findings of this property
fn load_known(path: &std::path::Path, id: &str) -> BTreeMap<String, String> {
    let mut out = BTreeMap::new();
    let Ok(text) = std::fs::read_to_string(path) else { return out };
    let Ok(v) = serde_json::from_str::<Value>(&text) else { return out };
    if let Some(arr) = v.get("findings").and_then(|x| x.as_array()) {
        for f in arr {
            if f.get("property").and_then(|x| x.as_str()) == Some(id)
                && f.get("status").and_then(|x| x.as_str()) == Some("open")
            {
                if let Some(sig) = f.get("signature").and_then(|x| x.as_str()) {
                    let d = f.get("description").and_then(|x| x.as_str()).unwrap_or("");
                    out.insert(sig.to_string(), d.to_string());
                }
            }
        }
    }
    out
}
