//! History recording: one relaxed global sequence counter, per-thread buffers (the monitor
//! never adds synchronisation edges between the threads of the code under test).

use std::sync::atomic::{AtomicU64, Ordering};

pub struct Clock(AtomicU64);

impl Default for Clock {
    fn default() -> Self {
        Clock(AtomicU64::new(1))
    }
}

impl Clock {
    pub fn new() -> Self {
        Self::default()
    }
    #[inline]
    pub fn tick(&self) -> u64 {
        self.0.fetch_add(1, Ordering::Relaxed)
    }
    pub fn now(&self) -> u64 {
        self.0.load(Ordering::Relaxed)
    }
}

/// A thread-local append-only log of (seq, event).
pub struct Log<E> {
    pub events: Vec<(u64, E)>,
}

impl<E> Default for Log<E> {
    fn default() -> Self {
        Log { events: Vec::new() }
    }
}

impl<E> Log<E> {
    pub fn new() -> Self {
        Self::default()
    }
    #[inline]
    pub fn rec(&mut self, clock: &Clock, e: E) -> u64 {
        let t = clock.tick();
        self.events.push((t, e));
        t
    }
}

/// Merge per-thread logs into one sequence ordered by the global counter.
pub fn merge<E>(logs: Vec<Log<E>>) -> Vec<(u64, E)> {
    let mut all: Vec<(u64, E)> = logs.into_iter().flat_map(|l| l.events).collect();
    all.sort_by_key(|(t, _)| *t);
    all
}
