use std::collections::BTreeMap;
use std::path::PathBuf;

#[derive(Clone, Copy, Debug, PartialEq, Eq)]
pub enum Tier {
    Quick,
    Thorough,
}

impl Tier {
    pub fn name(&self) -> &'static str {
        match self {
            Tier::Quick => "quick",
            Tier::Thorough => "thorough",
        }
    }
    /// pick a bound by tier
    pub fn pick<T>(&self, quick: T, thorough: T) -> T {
        match self {
            Tier::Quick => quick,
            Tier::Thorough => thorough,
        }
    }
}

/// `<bin> <ID> [--tier quick|thorough] [--seed N] [--evidence PATH|-] [--replay PATH]
///  [--workers N] [--budget-s SECS] [--stage NAME] [--opt k=v]...`
#[derive(Clone, Debug)]
pub struct Args {
    pub id: String,
    pub tier: Tier,
    pub seed: u64,
    /// evidence file path; "-" prints `EVIDENCE-JSON: {...}` on stdout instead (Miri stages)
    pub evidence: String,
    pub replay: Option<PathBuf>,
    pub workers: usize,
    /// soft wall-clock budget for the *random tail* only (never a verdict)
    pub budget_s: f64,
    /// sanitizer / reduced stage name ("" = native full run)
    pub stage: String,
    pub opts: BTreeMap<String, String>,
    pub root: PathBuf,
}

impl Args {
    pub fn parse() -> Args {
        let argv: Vec<String> = std::env::args().collect();
        Self::parse_from(&argv[1..])
    }

    pub fn parse_from(argv: &[String]) -> Args {
        let mut a = Args {
            id: String::new(),
            tier: Tier::Quick,
            seed: 1,
            evidence: String::new(),
            replay: None,
            workers: 0,
            budget_s: 0.0,
            stage: String::new(),
            opts: BTreeMap::new(),
            root: PathBuf::from("/verif"),
        };
        let mut i = 0;
        while i < argv.len() {
            let s = argv[i].as_str();
            let mut val = || {
                i += 1;
                argv.get(i).cloned().unwrap_or_default()
            };
            match s {
                "--tier" => {
                    a.tier = if val() == "thorough" { Tier::Thorough } else { Tier::Quick }
                }
                "--seed" => a.seed = val().parse().unwrap_or(1),
                "--evidence" => a.evidence = val(),
                "--replay" => a.replay = Some(PathBuf::from(val())),
                "--workers" => a.workers = val().parse().unwrap_or(0),
                "--budget-s" => a.budget_s = val().parse().unwrap_or(0.0),
                "--stage" => a.stage = val(),
                "--root" => a.root = PathBuf::from(val()),
                "--opt" => {
                    let kv = val();
                    if let Some((k, v)) = kv.split_once('=') {
                        a.opts.insert(k.to_string(), v.to_string());
                    } else {
                        a.opts.insert(kv, "1".to_string());
                    }
                }
                _ if a.id.is_empty() && !s.starts_with("--") => a.id = s.to_string(),
                _ => {
                    eprintln!("unknown argument {s}");
                    std::process::exit(2);
                }
            }
            i += 1;
        }
        if a.workers == 0 {
            a.workers = std::thread::available_parallelism().map(|n| n.get()).unwrap_or(4).min(16);
        }
        if a.evidence.is_empty() {
            a.evidence = a.root.join("evidence").join(format!("{}.json", a.id)).to_string_lossy().into_owned();
        }
        a
    }

    pub fn opt_u64(&self, k: &str, default: u64) -> u64 {
        self.opts.get(k).and_then(|v| v.parse().ok()).unwrap_or(default)
    }

    pub fn opt_str(&self, k: &str) -> Option<&str> {
        self.opts.get(k).map(|s| s.as_str())
    }

    /// quick/thorough bound, overridable with `--opt <name>=N`
    pub fn bound(&self, name: &str, quick: u64, thorough: u64) -> u64 {
        self.opt_u64(name, self.tier.pick(quick, thorough))
    }
}
