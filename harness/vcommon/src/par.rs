//! Minimal parallel case runner + panic capture.

use std::cell::RefCell;
use std::panic::{catch_unwind, AssertUnwindSafe};
use std::sync::Mutex;

thread_local! {
    static LAST_PANIC: RefCell<Option<String>> = const { RefCell::new(None) };
}

/// Install a panic hook that records "message @ file:line" per thread instead of printing.
pub fn quiet_panics() {
    std::panic::set_hook(Box::new(|info| {
        let msg = if let Some(s) = info.payload().downcast_ref::<&str>() {
            s.to_string()
        } else if let Some(s) = info.payload().downcast_ref::<String>() {
            s.clone()
        } else {
            "<non-string panic>".to_string()
        };
        let loc = info.location().map(|l| format!("{}:{}", l.file(), l.line())).unwrap_or_default();
        LAST_PANIC.with(|p| *p.borrow_mut() = Some(format!("{msg} @ {loc}")));
    }));
}

/// The message recorded by the panic hook on this thread since the last call (if any).
pub fn take_last_panic() -> Option<String> {
    LAST_PANIC.with(|p| p.borrow_mut().take())
}

/// Run `f`, turning a panic into Err(message @ location).
pub fn guard<R>(f: impl FnOnce() -> R) -> Result<R, String> {
    LAST_PANIC.with(|p| *p.borrow_mut() = None);
    match catch_unwind(AssertUnwindSafe(f)) {
        Ok(r) => Ok(r),
        Err(e) => {
            let from_hook = LAST_PANIC.with(|p| p.borrow_mut().take());
            Err(from_hook.unwrap_or_else(|| {
                if let Some(s) = e.downcast_ref::<&str>() {
                    s.to_string()
                } else if let Some(s) = e.downcast_ref::<String>() {
                    s.clone()
                } else {
                    "<panic>".to_string()
                }
            }))
        }
    }
}

/// Pull items from `items` on `workers` threads and apply `f`. `f` must do its own panic
/// handling (use `guard`); a panic escaping `f` aborts that worker only.
pub fn run<T: Send, I: Iterator<Item = T> + Send, F: Fn(T) + Sync>(workers: usize, items: I, f: F) {
    let it = Mutex::new(items);
    let workers = workers.max(1);
    if workers == 1 {
        loop {
            let next = it.lock().unwrap().next();
            match next {
                Some(x) => f(x),
                None => return,
            }
        }
    }
    std::thread::scope(|s| {
        for w in 0..workers {
            let it = &it;
            let f = &f;
            std::thread::Builder::new()
                .name(format!("vw{w}"))
                .stack_size(16 << 20)
                .spawn_scoped(s, move || loop {
                    let next = it.lock().unwrap_or_else(|e| e.into_inner()).next();
                    match next {
                        Some(x) => {
                            let _ = catch_unwind(AssertUnwindSafe(|| f(x)));
                        }
                        None => return,
                    }
                })
                .expect("spawn worker");
        }
    });
}
