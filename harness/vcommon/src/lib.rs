//! Shared plumbing for the verification harness: seeded RNG, argument parsing,
//! evidence/violation reporting, a tiny parallel case runner and a history log.
//! No DataFusion dependencies, so it also builds under Miri / TSan cheaply.

pub mod args;
pub mod hist;
pub mod par;
pub mod report;
pub mod rng;

pub use args::{Args, Tier};
pub use report::Report;
pub use rng::Rng;
pub use serde_json::{json, Value as Json};

/// Deterministic 64-bit fingerprint (FNV-1a) of a byte string.
pub fn fp_bytes(b: &[u8]) -> u64 {
    let mut h: u64 = 0xcbf29ce484222325;
    for &x in b {
        h ^= x as u64;
        h = h.wrapping_mul(0x100000001b3);
    }
    h
}

pub fn fp_str(s: &str) -> u64 {
    fp_bytes(s.as_bytes())
}

/// Combine fingerprints.
pub fn fp_mix(a: u64, b: u64) -> u64 {
    let mut x = a ^ b.wrapping_add(0x9e3779b97f4a7c15).wrapping_add(a << 6).wrapping_add(a >> 2);
    x ^= x >> 30;
    x = x.wrapping_mul(0xbf58476d1ce4e5b9);
    x ^= x >> 27;
    x = x.wrapping_mul(0x94d049bb133111eb);
    x ^ (x >> 31)
}

pub use serde_json;

pub fn serde_json_parse(s: &str) -> Result<Json, ()> {
    serde_json::from_str(s).map_err(|_| ())
}
