//! Checks that need datafusion-cli / datafusion-benchmarks.
pub use vcommon;
