//! C46 — benchmark result validation accepts exactly the persisted results; placeholders resolve
//! explicit > environment > default.
//!
//! Part A (results): a generated result set R is rendered as `SELECT * FROM (VALUES …) AS t(…)` inside a
//! generated `.benchmark` file with a `result <file>` directive and driven through the real
//! `SqlBenchmark::{new_with_replacements, initialize, persist, verify}`. Then
//!   * the persisted file is parsed with an independent RFC-4180 reader (delimiter `|`), one mutation is
//!     applied (cell / row / column changed, added, removed, rows swapped, ragged rows) and a fresh
//!     benchmark (`new → initialize → run → verify`) is pointed at the mutated file: must be REJECTED,
//!     except for the documented NULL/empty equivalences (`NULL` or `(empty)` written where the result
//!     holds NULL or ''; a CSV-equivalent rewrite of the file) which must be ACCEPTED;
//!   * the *query* is mutated instead (one cell / row changed) and verified against the untouched
//!     persisted file: must be rejected (NULL <-> '' swaps: accepted).
//! Part B (placeholders): generated placeholder strings are put into a `name` directive (one
//! substitution pass) and into a `run` query (two passes) of generated benchmark files which are parsed
//! in a CHILD process (this binary re-executed with `--opt child=ph`) whose environment the parent
//! chose; the parsed `name()` / `queries()` are compared with a small reference resolver written from
//! the documented grammar (`${V}`, `${V:-default}`, `${V:-default|true value|false value}`, `${V|t|f}`;
//! explicit map > environment > default; only `true` (any case) selects the true branch).

use datafusion::prelude::{SessionConfig, SessionContext};
use datafusion_benchmarks::sql_benchmark::{QueryDirective, SqlBenchmark};
use std::collections::{BTreeMap, HashMap};
use std::path::{Path, PathBuf};
use vcommon::{fp_mix, fp_str, json, Args, Json, Report, Rng};

// ---------------------------------------------------------------------------------------------
// Result-set model
// ---------------------------------------------------------------------------------------------

#[derive(Clone, Copy, Debug, PartialEq)]
enum Ty {
    Str,
    Int,
    Float,
    Bool,
}

#[derive(Clone, Debug, PartialEq)]
enum Cell {
    Null,
    S(String),
    I(i64),
    F(f64),
    B(bool),
}

#[derive(Clone, Debug)]
struct ResultSet {
    names: Vec<String>,
    types: Vec<Ty>,
    rows: Vec<Vec<Cell>>,
    /// split the rows into two VALUES blocks joined by UNION ALL (several batches / partitions)
    split_at: Option<usize>,
    /// hidden row-number column + ORDER BY: several batches (batch_size rows each) in a fixed order
    ordered: bool,
    target_partitions: usize,
    batch_size: usize,
}

const STR_POOL: &[(&str, &str)] = &[
    ("plain", "abc"),
    ("plain", "x"),
    ("empty", ""),
    ("pipe", "b|c"),
    ("pipe", "|"),
    ("pipe", "a||"),
    ("dquote", "q\"q"),
    ("dquote", "\""),
    ("dquote", "\"\""),
    ("squote", "it's"),
    ("squote", "'"),
    ("newline", "a\nb"),
    ("newline", "\n"),
    ("newline", "x|\ny\"z"),
    ("cr", "a\rb"),
    ("crlf", "a\r\nb"),
    ("tab", "a\tb"),
    ("space", " a "),
    ("space", " "),
    ("unicode", "é"),
    ("unicode", "日本語|ß"),
    ("unicode", "🦀 \"x\""),
    ("backslash", "a\\b"),
    ("backslash", "\\\""),
    ("comma", "a,b"),
    ("hash", "#c"),
    ("dashes", "-- c"),
    ("numlike", "1e3"),
    ("numlike", "007"),
    ("null-word", "NULL"),
    ("null-word", "null"),
    ("null-word", "xNULLy"),
    ("empty-marker", "(empty)"),
    ("boollike", "true"),
];

const FLOAT_POOL: &[f64] = &[0.0, -0.0, 1.5, -2.25, 1e20, 1.5e-7, 0.1, 123456.789, f64::NAN, f64::INFINITY, f64::NEG_INFINITY, 3.0];
const NAME_POOL: &[&str] = &["a", "b|c", "Col X", "é", "q\"q", "NULL", "x,y", "value", "k'k", "(empty)"];

fn sql_str(s: &str) -> String {
    // one physical line, no `$`: control characters through chr()
    let mut out = String::from("'");
    for c in s.chars() {
        match c {
            '\'' => out.push_str("''"),
            '\n' => out.push_str("' || chr(10) || '"),
            '\r' => out.push_str("' || chr(13) || '"),
            '\t' => out.push_str("' || chr(9) || '"),
            c => out.push(c),
        }
    }
    out.push('\'');
    out
}

fn sql_cell(c: &Cell, ty: Ty) -> String {
    let t = match ty {
        Ty::Str => "VARCHAR",
        Ty::Int => "BIGINT",
        Ty::Float => "DOUBLE",
        Ty::Bool => "BOOLEAN",
    };
    let v = match c {
        Cell::Null => "NULL".to_string(),
        Cell::S(s) => sql_str(s),
        Cell::I(i) => i.to_string(),
        Cell::F(f) if f.is_nan() => "'NaN'".to_string(),
        Cell::F(f) if f.is_infinite() => (if *f > 0.0 { "'inf'" } else { "'-inf'" }).to_string(),
        Cell::F(f) => format!("{f:?}"),
        Cell::B(b) => b.to_string(),
    };
    format!("CAST({v} AS {t})")
}

impl ResultSet {
    fn sql(&self) -> String {
        let alias = format!("t({})", self.names.iter().map(|n| format!("\"{}\"", n.replace('"', "\"\""))).collect::<Vec<_>>().join(", "));
        let block = |rows: &[Vec<Cell>]| -> String {
            if rows.is_empty() {
                let dummy: Vec<Cell> = self.types.iter().map(|_| Cell::Null).collect();
                let r = dummy.iter().zip(&self.types).map(|(c, t)| sql_cell(c, *t)).collect::<Vec<_>>().join(", ");
                format!("SELECT * FROM (VALUES ({r})) AS {alias} WHERE false")
            } else {
                let rs = rows
                    .iter()
                    .map(|r| format!("({})", r.iter().zip(&self.types).map(|(c, t)| sql_cell(c, *t)).collect::<Vec<_>>().join(", ")))
                    .collect::<Vec<_>>()
                    .join(", ");
                format!("SELECT * FROM (VALUES {rs}) AS {alias}")
            }
        };
        if self.ordered && !self.rows.is_empty() {
            let cols = self.names.iter().map(|n| format!("\"{}\"", n.replace('"', "\"\""))).collect::<Vec<_>>().join(", ");
            let rs = self
                .rows
                .iter()
                .enumerate()
                .map(|(i, r)| format!("(CAST({i} AS BIGINT), {})", r.iter().zip(&self.types).map(|(c, t)| sql_cell(c, *t)).collect::<Vec<_>>().join(", ")))
                .collect::<Vec<_>>()
                .join(", ");
            return format!("SELECT {cols} FROM (VALUES {rs}) AS t(\"rn\", {cols}) ORDER BY \"rn\"");
        }
        match self.split_at {
            Some(k) if k > 0 && k < self.rows.len() => format!("{} UNION ALL {}", block(&self.rows[..k]), block(&self.rows[k..])),
            _ => block(&self.rows),
        }
    }
    fn to_json(&self) -> Json {
        json!({
            "names": self.names,
            "types": self.types.iter().map(|t| format!("{t:?}")).collect::<Vec<_>>(),
            "rows": self.rows.iter().map(|r| r.iter().map(cell_json).collect::<Vec<_>>()).collect::<Vec<_>>(),
            "split_at": self.split_at, "ordered": self.ordered, "target_partitions": self.target_partitions, "batch_size": self.batch_size,
        })
    }
}

fn cell_json(c: &Cell) -> Json {
    match c {
        Cell::Null => Json::Null,
        Cell::S(s) => json!(s),
        Cell::I(i) => json!(i),
        Cell::F(f) => json!(format!("{f:?}")),
        Cell::B(b) => json!(b),
    }
}

/// text the persisted file must hold for a cell (None: not asserted, e.g. float formatting)
fn file_text(c: &Cell) -> Option<String> {
    match c {
        Cell::Null => Some(String::new()),
        Cell::S(s) => Some(s.clone()),
        Cell::I(i) => Some(i.to_string()),
        Cell::B(b) => Some(b.to_string()),
        Cell::F(_) => None,
    }
}

/// NULL and '' are the two values the documented equivalences identify
fn is_blank(c: &Cell) -> bool {
    matches!(c, Cell::Null) || matches!(c, Cell::S(s) if s.is_empty())
}

fn gen_cell(rng: &mut Rng, ty: Ty, rep: Option<&Report>) -> Cell {
    if rng.chance(1, 6) {
        if let Some(r) = rep {
            r.seen("payload_classes", "NULL");
        }
        return Cell::Null;
    }
    match ty {
        Ty::Str => {
            let (class, s) = *rng.pick(STR_POOL);
            if let Some(r) = rep {
                r.seen("payload_classes", class);
            }
            if rng.chance(1, 5) {
                let (c2, s2) = *rng.pick(STR_POOL);
                if let Some(r) = rep {
                    r.seen("payload_classes", c2);
                }
                Cell::S(format!("{s}{s2}"))
            } else {
                Cell::S(s.to_string())
            }
        }
        Ty::Int => Cell::I(*rng.pick(&[0i64, 1, -1, 42, i64::MAX, -i64::MAX, 1000000])),
        Ty::Float => {
            if let Some(r) = rep {
                r.seen("payload_classes", "float");
            }
            Cell::F(*rng.pick(FLOAT_POOL))
        }
        Ty::Bool => Cell::B(rng.bool()),
    }
}

fn gen_result_set(rng: &mut Rng, rep: &Report) -> ResultSet {
    let ncols = 1 + rng.usize(4);
    let nrows = *rng.pick(&[0usize, 1, 1, 2, 2, 3, 4, 6]);
    let mut names = vec![];
    for i in 0..ncols {
        let n = if rng.chance(1, 2) { format!("c{i}") } else { format!("{}{}", rng.pick(NAME_POOL), i) };
        names.push(n);
    }
    let types: Vec<Ty> = (0..ncols).map(|_| *rng.pick(&[Ty::Str, Ty::Str, Ty::Str, Ty::Int, Ty::Float, Ty::Bool])).collect();
    let rows: Vec<Vec<Cell>> = (0..nrows).map(|_| types.iter().map(|t| gen_cell(rng, *t, Some(rep))).collect()).collect();
    let shape = rng.below(8);
    let split_at = if nrows >= 2 && shape == 0 { Some(1 + rng.usize(nrows - 1)) } else { None };
    let ordered = nrows >= 2 && (shape == 1 || shape == 2);
    ResultSet { names, types, rows, split_at, ordered, target_partitions: 1 + rng.usize(4), batch_size: *rng.pick(&[1usize, 2, 8192]) }
}

/// seed-independent result sets: every payload class alone, NULL/'' combinations, empty result, …
fn systematic_result_sets() -> Vec<ResultSet> {
    let mut out = vec![];
    let one = |names: &[&str], types: &[Ty], rows: Vec<Vec<Cell>>| ResultSet {
        names: names.iter().map(|s| s.to_string()).collect(),
        types: types.to_vec(),
        rows,
        split_at: None,
        ordered: false,
        target_partitions: 2,
        batch_size: 8192,
    };
    for (_, s) in STR_POOL {
        out.push(one(&["v"], &[Ty::Str], vec![vec![Cell::S(s.to_string())]]));
        out.push(one(&["k", "v"], &[Ty::Int, Ty::Str], vec![vec![Cell::I(1), Cell::S(s.to_string())], vec![Cell::I(2), Cell::S("z".into())]]));
    }
    out.push(one(&["v"], &[Ty::Str], vec![vec![Cell::Null]]));
    out.push(one(&["v"], &[Ty::Str], vec![vec![Cell::S(String::new())], vec![Cell::Null]]));
    out.push(one(&["a", "b"], &[Ty::Str, Ty::Str], vec![vec![Cell::Null, Cell::S(String::new())], vec![Cell::S(String::new()), Cell::Null]]));
    out.push(one(&["a", "b"], &[Ty::Int, Ty::Float], vec![vec![Cell::Null, Cell::Null], vec![Cell::I(7), Cell::F(1.5)]]));
    out.push(one(&["a", "b"], &[Ty::Int, Ty::Str], vec![]));
    out.push(one(&["a"], &[Ty::Bool], vec![]));
    out.push(one(&["f"], &[Ty::Float], FLOAT_POOL.iter().map(|f| vec![Cell::F(*f)]).collect()));
    out.push(one(&["b|c", "q\"q", "é"], &[Ty::Str, Ty::Bool, Ty::Int], vec![vec![Cell::S("x".into()), Cell::B(true), Cell::I(-i64::MAX)], vec![Cell::S("y".into()), Cell::Null, Cell::I(i64::MAX)]]));
    let mut multi = one(&["k", "v"], &[Ty::Int, Ty::Str], (0..7).map(|i| vec![Cell::I(i), Cell::S(format!("r{i}|"))]).collect());
    multi.split_at = Some(3);
    multi.batch_size = 2;
    multi.target_partitions = 4;
    out.push(multi.clone());
    // the same rows as several batches of one partition, in a fixed order, for 1..4 target partitions
    for (tp, bs) in [(1usize, 2usize), (2, 2), (3, 1), (4, 2), (4, 3)] {
        let mut o = multi.clone();
        o.split_at = None;
        o.ordered = true;
        o.target_partitions = tp;
        o.batch_size = bs;
        out.push(o);
    }
    out
}

// ---------------------------------------------------------------------------------------------
// Independent `|`-CSV reader / writer for the persisted file
// ---------------------------------------------------------------------------------------------

fn csv_parse(text: &str, delim: char) -> Result<Vec<Vec<String>>, String> {
    let mut recs = vec![];
    let mut rec: Vec<String> = vec![];
    let mut cur = String::new();
    let mut it = text.chars().peekable();
    let mut in_q = false;
    let mut any = false; // something belongs to the current record
    while let Some(c) = it.next() {
        if in_q {
            if c == '"' {
                if it.peek() == Some(&'"') {
                    it.next();
                    cur.push('"');
                } else {
                    in_q = false;
                }
            } else {
                cur.push(c);
            }
            continue;
        }
        match c {
            '"' if cur.is_empty() => {
                in_q = true;
                any = true;
            }
            c if c == delim => {
                rec.push(std::mem::take(&mut cur));
                any = true;
            }
            '\r' if it.peek() == Some(&'\n') => {}
            '\n' => {
                if any || !cur.is_empty() {
                    rec.push(std::mem::take(&mut cur));
                    recs.push(std::mem::take(&mut rec));
                }
                any = false;
            }
            c => {
                cur.push(c);
                any = true;
            }
        }
    }
    if in_q {
        return Err("unterminated quoted field".into());
    }
    if any || !cur.is_empty() {
        rec.push(cur);
        recs.push(rec);
    }
    Ok(recs)
}

fn csv_write(recs: &[Vec<String>], delim: char) -> String {
    let mut out = String::new();
    for r in recs {
        let cells: Vec<String> = r
            .iter()
            .map(|c| {
                if c.contains(delim) || c.contains('"') || c.contains('\n') || c.contains('\r') || (r.len() == 1 && c.is_empty()) {
                    format!("\"{}\"", c.replace('"', "\"\""))
                } else {
                    c.clone()
                }
            })
            .collect();
        out.push_str(&cells.join(&delim.to_string()));
        out.push('\n');
    }
    out
}

// ---------------------------------------------------------------------------------------------
// Driving the real SqlBenchmark
// ---------------------------------------------------------------------------------------------

#[derive(Debug, Clone, PartialEq)]
enum Verdict {
    Accepted,
    /// verify returned an error (comparison mismatch or unreadable expected file)
    Rejected(String),
    /// something before `verify` failed: not an observation of the property
    Harness(String),
}

fn rt() -> tokio::runtime::Runtime {
    tokio::runtime::Builder::new_current_thread().enable_all().build().expect("runtime")
}

fn ctx_for(rs: &ResultSet) -> SessionContext {
    SessionContext::new_with_config(SessionConfig::new().with_target_partitions(rs.target_partitions).with_batch_size(rs.batch_size))
}

fn write_bench(dir: &Path, tag: &str, result_file: &Path, sql: &str) -> PathBuf {
    let p = dir.join(format!("{tag}.benchmark"));
    let body = format!("# generated by C46\nname {tag}\ngroup c46\n\nresult {}\n\nrun\n{sql}\n", result_file.display());
    std::fs::write(&p, body).expect("write benchmark file");
    p
}

fn classify_verify(r: datafusion_common::Result<()>) -> Verdict {
    match r {
        Ok(()) => Verdict::Accepted,
        Err(e) => {
            let m = e.to_string();
            let short: String = m.chars().take(200).collect();
            if m.contains("Error in result") {
                Verdict::Rejected(short)
            } else if m.contains("not found") || m.contains("No such file") {
                Verdict::Harness(format!("verify: {short}"))
            } else if m.contains("Csv") || m.contains("CSV") || m.contains("incorrect number of fields") || m.contains("did not contain any columns") {
                Verdict::Rejected(short)
            } else {
                Verdict::Harness(format!("verify: {short}"))
            }
        }
    }
}

/// persist R, then verify it in the same benchmark object (the documented flow of `--persist --validate`)
fn persist_and_verify(dir: &Path, rs: &ResultSet, sql: &str, result_file: &Path) -> Verdict {
    let bench = write_bench(dir, "base", result_file, sql);
    rt().block_on(async {
        let ctx = ctx_for(rs);
        let mut b = match SqlBenchmark::new_with_replacements(&ctx, &bench, dir, HashMap::new()).await {
            Ok(b) => b,
            Err(e) => return Verdict::Harness(format!("parse: {e}")),
        };
        if let Err(e) = b.initialize(&ctx).await {
            return Verdict::Harness(format!("initialize: {e}"));
        }
        if let Err(e) = b.persist(&ctx).await {
            return Verdict::Harness(format!("persist: {e}"));
        }
        classify_verify(b.verify(&ctx).await)
    })
}

/// a fresh benchmark (fresh session) whose `result` points at `result_file`: new → initialize → run → verify
fn run_and_verify(dir: &Path, tag: &str, rs: &ResultSet, sql: &str, result_file: &Path) -> Verdict {
    let bench = write_bench(dir, tag, result_file, sql);
    rt().block_on(async {
        let ctx = ctx_for(rs);
        let mut b = match SqlBenchmark::new(&ctx, &bench, dir).await {
            Ok(b) => b,
            Err(e) => return Verdict::Harness(format!("parse: {e}")),
        };
        if let Err(e) = b.initialize(&ctx).await {
            return Verdict::Harness(format!("initialize: {e}"));
        }
        if let Err(e) = b.run(&ctx, true).await {
            return Verdict::Harness(format!("run: {e}"));
        }
        classify_verify(b.verify(&ctx).await)
    })
}

// ---------------------------------------------------------------------------------------------
// Mutations
// ---------------------------------------------------------------------------------------------

const RESERVED: &[&str] = &["", "NULL", "(empty)"];

struct Mutation {
    kind: &'static str,
    must_accept: bool,
    /// mutated file records (header + rows), or None when the query is mutated instead
    file: Option<Vec<Vec<String>>>,
    query: Option<ResultSet>,
    note: String,
}

fn file_mutations(rng: &mut Rng, rs: &ResultSet, recs: &[Vec<String>]) -> Vec<Mutation> {
    let mut out = vec![];
    let nrows = rs.rows.len();
    let ncols = rs.types.len();
    let fm = |kind: &'static str, must_accept: bool, file: Vec<Vec<String>>, note: String| Mutation { kind, must_accept, file: Some(file), query: None, note };
    out.push(fm("identity-rewrite", true, recs.to_vec(), String::new()));
    // row level
    let mut f = recs.to_vec();
    f.push((0..ncols).map(|i| format!("n{i}")).collect());
    out.push(fm("row-add", false, f, "appended a row".into()));
    if nrows >= 1 {
        let r = rng.usize(nrows);
        let mut f = recs.to_vec();
        let dup = f[1 + r].clone();
        f.insert(1 + r, dup);
        out.push(fm("row-duplicate", false, f, format!("row {r} duplicated")));
        let mut f = recs.to_vec();
        f.remove(1 + r);
        out.push(fm("row-remove", false, f, format!("row {r} removed")));
        // column level (only observable when there is at least one row)
        let mut f = recs.to_vec();
        for (i, rec) in f.iter_mut().enumerate() {
            rec.push(if i == 0 { "extra".into() } else { "e".into() });
        }
        out.push(fm("column-add", false, f, "column appended".into()));
        if ncols >= 2 {
            let c = rng.usize(ncols);
            let mut f = recs.to_vec();
            for rec in f.iter_mut() {
                rec.remove(c);
            }
            out.push(fm("column-remove", false, f, format!("column {c} removed")));
            let mut f = recs.to_vec();
            f[1 + r].remove(c);
            out.push(fm("cell-remove-ragged", false, f, format!("cell ({r},{c}) removed")));
        }
        let mut f = recs.to_vec();
        f[1 + r].push("e".into());
        out.push(fm("cell-add-ragged", false, f, format!("cell appended to row {r}")));
        // cell level
        let r = rng.usize(nrows);
        let c = rng.usize(ncols);
        let old = recs[1 + r][c].clone();
        let blank = is_blank(&rs.rows[r][c]);
        let mut cands: Vec<(&'static str, String)> = vec![("cell-append", format!("{old}9")), ("cell-replace", "zz".to_string()), ("cell-pad-space", format!("{old} "))];
        if old.chars().count() >= 2 {
            let mut t: Vec<char> = old.chars().collect();
            t.pop();
            cands.push(("cell-truncate", t.into_iter().collect()));
        }
        if !blank && old != "NULL" {
            cands.push(("cell-to-blank", String::new()));
        }
        for (kind, new) in cands {
            // a rejecting mutation must leave the documented equivalence classes alone
            if new == old || (RESERVED.contains(&new.as_str()) && kind != "cell-to-blank") || (blank && new.is_empty()) {
                continue;
            }
            let mut f = recs.to_vec();
            f[1 + r][c] = new.clone();
            out.push(fm(kind, false, f, format!("cell ({r},{c}) {old:?} -> {new:?}")));
        }
        // documented equivalences: the result holds NULL or '' and the file says NULL / (empty)
        let blanks: Vec<(usize, usize)> = (0..nrows).flat_map(|r| (0..ncols).map(move |c| (r, c))).filter(|(r, c)| is_blank(&rs.rows[*r][*c])).collect();
        if !blanks.is_empty() {
            let (r, c) = *rng.pick(&blanks);
            let what = if rs.rows[r][c] == Cell::Null { "NULL" } else { "''" };
            for (kind, tok) in [("equiv-null-token", "NULL"), ("equiv-empty-marker", "(empty)")] {
                let mut f = recs.to_vec();
                f[1 + r][c] = tok.to_string();
                out.push(fm(kind, true, f, format!("cell ({r},{c}) holding {what} written as {tok}")));
            }
        }
        // swap two rows that differ in a cell untouched by the equivalences
        if nrows >= 2 {
            let a = rng.usize(nrows);
            let b = (a + 1 + rng.usize(nrows - 1)) % nrows;
            let differ = (0..ncols).any(|c| {
                let (x, y) = (&recs[1 + a][c], &recs[1 + b][c]);
                x != y && !RESERVED.contains(&x.as_str()) && !RESERVED.contains(&y.as_str())
            });
            if differ {
                let mut f = recs.to_vec();
                f.swap(1 + a, 1 + b);
                out.push(fm("row-swap", false, f, format!("rows {a} and {b} swapped")));
            }
        }
    }
    out
}

fn query_mutations(rng: &mut Rng, rs: &ResultSet) -> Vec<Mutation> {
    let mut out = vec![];
    let nrows = rs.rows.len();
    let ncols = rs.types.len();
    let qm = |kind: &'static str, must_accept: bool, q: ResultSet, note: String| Mutation { kind, must_accept, file: None, query: Some(q), note };
    let mut q = rs.clone();
    q.rows.push(rs.types.iter().map(|t| gen_cell(rng, *t, None)).collect());
    q.split_at = None;
    out.push(qm("result-row-add", false, q, "the query returns one more row".into()));
    if nrows >= 1 {
        let r = rng.usize(nrows);
        let mut q = rs.clone();
        q.rows.remove(r);
        q.split_at = None;
        out.push(qm("result-row-drop", false, q, format!("the query no longer returns row {r}")));
        let c = rng.usize(ncols);
        let old = rs.rows[r][c].clone();
        let new = match (&old, rs.types[c]) {
            (Cell::S(s), _) if !s.is_empty() => Cell::S(format!("{s}~")),
            (_, Ty::Str) => Cell::S("~".into()),
            (Cell::I(i), _) => Cell::I(if *i == i64::MAX { 0 } else { i + 1 }),
            (_, Ty::Int) => Cell::I(5),
            (Cell::B(b), _) => Cell::B(!b),
            (_, Ty::Bool) => Cell::B(true),
            (Cell::F(f), _) if f.is_finite() => Cell::F(f + 1.0 + f.abs()),
            (_, Ty::Float) => Cell::F(2.5),
        };
        let mut q = rs.clone();
        q.rows[r][c] = new.clone();
        out.push(qm("result-cell-change", false, q, format!("cell ({r},{c}) {:?} -> {:?}", cell_json(&old), cell_json(&new))));
        if ncols >= 2 {
            let mut q = rs.clone();
            q.names.remove(c);
            q.types.remove(c);
            for row in q.rows.iter_mut() {
                row.remove(c);
            }
            out.push(qm("result-column-drop", false, q, format!("the query no longer returns column {c}")));
        }
        // NULL <-> '' is the documented equivalence on the result side
        let blanks: Vec<(usize, usize)> =
            (0..nrows).flat_map(|r| (0..ncols).map(move |c| (r, c))).filter(|(r, c)| rs.types[*c] == Ty::Str && is_blank(&rs.rows[*r][*c])).collect();
        if !blanks.is_empty() {
            let (r, c) = *rng.pick(&blanks);
            let mut q = rs.clone();
            q.rows[r][c] = if rs.rows[r][c] == Cell::Null { Cell::S(String::new()) } else { Cell::Null };
            out.push(qm("result-null-vs-empty", true, q, format!("cell ({r},{c}) NULL <-> ''")));
        }
    }
    out
}

fn result_case(rep: &Report, args: &Args, root: &Path, idx: u64, rs: &ResultSet, rng: &mut Rng) {
    let selftest = args.opt_u64("selftest", 0);
    let dir = root.join(format!("rs{idx}"));
    std::fs::create_dir_all(&dir).expect("case dir");
    let sql = rs.sql();
    let fp = fp_str(&sql);
    let special = rs.rows.iter().flatten().any(|c| match c {
        Cell::Null => true,
        Cell::S(s) => s.is_empty() || s.chars().any(|ch| !ch.is_ascii_alphanumeric()),
        Cell::F(_) => true,
        _ => false,
    });
    let result_file = dir.join("expected.csv");
    let witness = |extra: Json| json!({"result_set": rs.to_json(), "sql": sql, "detail": extra});

    let base = match vcommon::par::guard(|| persist_and_verify(&dir, rs, &sql, &result_file)) {
        Ok(v) => v,
        Err(p) => {
            rep.case(fp, true);
            rep.violation("panic/persist-verify", witness(json!({"panic": p})));
            let _ = std::fs::remove_dir_all(&dir);
            return;
        }
    };
    match &base {
        Verdict::Harness(why) => {
            rep.case(fp, false);
            rep.skip(&format!("harness: {}", why.split(':').next().unwrap_or("")));
            if rep.get_count("harness_error_samples") < 5 {
                rep.count("harness_error_samples", 1);
                rep.extra(&format!("harness_error_sample_{}", rep.get_count("harness_error_samples")), json!({"sql": sql, "error": why}));
            }
            let _ = std::fs::remove_dir_all(&dir);
            return;
        }
        Verdict::Rejected(msg) => {
            rep.case(fp, true);
            rep.count("persisted/rejected", 1);
            let file = std::fs::read_to_string(&result_file).unwrap_or_default();
            // the file holds exactly the result rows, in another order than the saved batches?
            // floats are compared by value (canonical text), everything else by the text the file must hold
            let canon_f = |t: &str| t.parse::<f64>().map(|f| format!("{f:?}")).unwrap_or_else(|_| t.to_string());
            let mut want: Vec<Vec<String>> = rs
                .rows
                .iter()
                .map(|r| r.iter().map(|c| if let Cell::F(f) = c { format!("{f:?}") } else { file_text(c).unwrap_or_default() }).collect())
                .collect();
            let mut have: Vec<Vec<String>> = csv_parse(&file, '|')
                .map(|r| r.into_iter().skip(1).map(|rec| rec.into_iter().zip(&rs.types).map(|(t, ty)| if *ty == Ty::Float { canon_f(&t) } else { t }).collect()).collect())
                .unwrap_or_default();
            let in_order = want == have;
            want.sort();
            have.sort();
            let sig = if !in_order && want == have && (rs.ordered || rs.split_at.is_some()) { "persisted-result-rejected/persist-reorders-batches" } else { "persisted-result-rejected" };
            rep.violation(sig, witness(json!({"verify_error": msg, "persisted_file": file, "expected": "verify accepts what persist wrote"})));
            let _ = std::fs::remove_dir_all(&dir);
            return;
        }
        Verdict::Accepted => rep.count("persisted/accepted", 1),
    }
    rep.case(fp, special && !rs.rows.is_empty());
    if rs.rows.is_empty() {
        rep.count("empty_result_sets", 1);
    }
    if rs.ordered {
        rep.count("ordered_multi_batch_result_sets", 1);
    }
    if rs.split_at.is_some() {
        rep.count("multi_block_result_sets", 1);
    }

    // the persisted file, read with the independent reader
    let text = match std::fs::read_to_string(&result_file) {
        Ok(t) => t,
        Err(e) => {
            rep.skip("persisted-file-unreadable");
            rep.extra("persisted_file_unreadable", json!({"error": e.to_string(), "path": result_file.display().to_string(), "is_dir": result_file.is_dir()}));
            let _ = std::fs::remove_dir_all(&dir);
            return;
        }
    };
    let recs = csv_parse(&text, '|');
    let shape_ok = matches!(&recs, Ok(r) if r.len() == rs.rows.len() + 1 && r.iter().all(|x| x.len() == rs.types.len()));
    let mut cells_ok = shape_ok;
    if let (true, Ok(r)) = (shape_ok, &recs) {
        cells_ok = r[0] == rs.names
            && rs.rows.iter().zip(&r[1..]).all(|(row, rec)| row.iter().zip(rec).all(|(c, t)| file_text(c).map(|e| &e == t).unwrap_or(true)));
    }
    if !cells_ok && shape_ok && rs.split_at.is_some() {
        // UNION ALL does not promise an order: the model cannot address rows of this file
        rep.skip("multi-block-order-differs-from-model");
        let _ = std::fs::remove_dir_all(&dir);
        return;
    }
    if !cells_ok {
        rep.violation("persisted-file-differs-from-result", witness(json!({"persisted_file": text, "parsed": recs.clone().unwrap_or_default(), "expected": "header + one pipe-delimited CSV record per result row"})));
        let _ = std::fs::remove_dir_all(&dir);
        return;
    }
    let recs = recs.unwrap_or_default();
    if rep.want_sample() && special && rs.rows.len() >= 2 {
        rep.sample(json!({"sql": sql, "persisted_file": text}));
    }

    let mut muts = file_mutations(rng, rs, &recs);
    muts.extend(query_mutations(rng, rs));
    for (k, m) in muts.iter().enumerate() {
        let tag = format!("m{k}");
        if m.must_accept && rs.split_at.is_some() {
            // UNION ALL promises no row order across executions: an accept cannot be demanded
            rep.skip("equivalent-mutation-on-unordered-union");
            continue;
        }
        let (file_path, msql, mrs) = match (&m.file, &m.query) {
            (Some(f), _) => {
                let p = dir.join(format!("{tag}.csv"));
                std::fs::write(&p, csv_write(f, '|')).expect("write mutated file");
                (p, sql.clone(), rs.clone())
            }
            (None, Some(q)) => (result_file.clone(), q.sql(), q.clone()),
            _ => continue,
        };
        let got = vcommon::par::guard(|| run_and_verify(&dir, &tag, &mrs, &msql, &file_path));
        let mut got = match got {
            Ok(v) => v,
            Err(p) => {
                rep.violation(&format!("panic/verify/{}", m.kind), witness(json!({"mutation": m.kind, "note": m.note, "panic": p})));
                continue;
            }
        };
        if selftest == 1 && m.kind == "cell-append" {
            got = Verdict::Accepted; // corrupt the observation: the oracle must notice
        }
        rep.cases(1);
        let mfile = m.file.as_ref().map(|f| csv_write(f, '|'));
        match (&got, m.must_accept) {
            (Verdict::Harness(why), _) => {
                rep.skip(&format!("harness/{}: {}", m.kind, why.split(':').next().unwrap_or("")));
                if rep.get_count("harness_error_samples") < 5 {
                    rep.count("harness_error_samples", 1);
                    rep.extra(&format!("harness_error_sample_{}", rep.get_count("harness_error_samples")), json!({"sql": msql, "mutation": m.kind, "error": why}));
                }
            }
            (Verdict::Accepted, true) => rep.count(&format!("mutation/{}/accepted(expected)", m.kind), 1),
            (Verdict::Rejected(_), false) => {
                rep.count(&format!("mutation/{}/rejected(expected)", m.kind), 1);
                rep.nontrivial(fp_mix(fp, fp_str(m.kind)));
            }
            (Verdict::Accepted, false) => rep.violation(
                &format!("mutation-accepted/{}", m.kind),
                witness(json!({"mutation": m.kind, "note": m.note, "persisted_file": text, "mutated_file": mfile, "verified_sql": msql, "observed": "verify Ok", "expected": "verify rejects"})),
            ),
            (Verdict::Rejected(msg), true) => rep.violation(
                &format!("equivalent-rejected/{}", m.kind),
                witness(json!({"mutation": m.kind, "note": m.note, "persisted_file": text, "mutated_file": mfile, "verified_sql": msql, "observed": msg, "expected": "verify accepts (documented NULL/empty equivalence)"})),
            ),
        }
    }
    let _ = std::fs::remove_dir_all(&dir);
}

// ---------------------------------------------------------------------------------------------
// Placeholders: reference resolver (documented grammar) + generator + child process
// ---------------------------------------------------------------------------------------------

struct Env<'a> {
    map: &'a BTreeMap<String, String>,
    env: &'a BTreeMap<String, String>,
}

impl Env<'_> {
    /// explicit (keys are lower case by the callers' convention) > environment (upper case)
    fn lookup(&self, name: &str) -> Option<String> {
        self.map.get(&name.to_lowercase()).or_else(|| self.env.get(&name.to_uppercase())).cloned()
    }
}

fn take_while(s: &[char], from: usize, f: impl Fn(char) -> bool) -> usize {
    let mut j = from;
    while j < s.len() && f(s[j]) {
        j += 1;
    }
    j
}

/// one substitution pass: first the `${V[:-d]|t|f}` forms, then `${V[:-d]}`; replaced text is not rescanned
fn resolve_once(input: &str, e: &Env) -> Result<String, String> {
    let word = |c: char| c.is_alphanumeric() || c == '_';
    let pass = |input: &str, tf: bool| -> Result<String, String> {
        let s: Vec<char> = input.chars().collect();
        let (mut out, mut i) = (String::new(), 0);
        while i < s.len() {
            let mut matched = None;
            if s[i] == '$' && s.get(i + 1) == Some(&'{') {
                let n_end = take_while(&s, i + 2, word);
                let name: String = s[i + 2..n_end].iter().collect();
                let (mut j, mut default) = (n_end, None);
                let stop = |c: char| if tf { c != '|' && c != '}' } else { c != '}' };
                if !name.is_empty() && s.get(j) == Some(&':') && s.get(j + 1) == Some(&'-') {
                    let d_end = take_while(&s, j + 2, stop);
                    if d_end > j + 2 {
                        default = Some(s[j + 2..d_end].iter().collect::<String>());
                        j = d_end;
                    }
                }
                if !name.is_empty() && !tf && s.get(j) == Some(&'}') {
                    matched = Some((j + 1, e.lookup(&name).or(default).ok_or(format!("Missing value for key '{name}'"))));
                } else if !name.is_empty() && tf && s.get(j) == Some(&'|') {
                    let t_end = take_while(&s, j + 1, |c| c != '|');
                    let f_end = take_while(&s, t_end + 1, |c| c != '}');
                    if t_end > j + 1 && t_end < s.len() && f_end > t_end + 1 && f_end < s.len() {
                        let (t, f): (String, String) = (s[j + 1..t_end].iter().collect(), s[t_end + 1..f_end].iter().collect());
                        let v = e.lookup(&name).or(default).ok_or(format!("Missing value for key '{name}'"));
                        matched = Some((f_end + 1, v.map(|v| if v.eq_ignore_ascii_case("true") { t } else { f })));
                    }
                }
            }
            match matched {
                Some((next, v)) => {
                    out.push_str(&v?);
                    i = next;
                }
                None => {
                    out.push(s[i]);
                    i += 1;
                }
            }
        }
        Ok(out)
    };
    pass(&pass(input, true)?, false)
}

const VARS: &[&str] = &["C46V_A", "C46V_B2", "C46V_C_X", "C46V_D", "C46V_E", "C46V_F"];
const VALUES: &[&str] = &["true", "TRUE", "True", "false", "no", "x1", "some value", "π/2", "a=b", "0", "truex"];
const LITS: &[&str] = &["", "", "a", "-", "/x/", " and ", "日本", "q=", ".csv", "(z)", "A_B", " "];

#[derive(Clone, Debug)]
struct PhCase {
    id: u64,
    /// "name" (one pass) or "run" (two passes)
    ctx: &'static str,
    text: String,
    map: BTreeMap<String, String>,
    forms: Vec<&'static str>,
    /// nested default whose meaning the documentation does not pin down: observed, not asserted
    asserted: bool,
}

fn case_name(rng: &mut Rng, v: &str) -> String {
    match rng.below(4) {
        0 => v.to_lowercase(),
        1 => v.chars().enumerate().map(|(i, c)| if i % 2 == 0 { c.to_ascii_lowercase() } else { c }).collect(),
        _ => v.to_string(),
    }
}

/// pick a variable whose environment state is `want_env` (fixed by the batch) and make its explicit state `want_map`
fn pick_var(rng: &mut Rng, env: &BTreeMap<String, String>, map: &mut BTreeMap<String, String>, want_env: bool, want_map: bool) -> Option<&'static str> {
    let cands: Vec<&'static str> = VARS.iter().copied().filter(|v| env.contains_key(*v) == want_env && (want_map || !map.contains_key(&v.to_lowercase()))).collect();
    if cands.is_empty() {
        return None;
    }
    let v = *rng.pick(&cands);
    if want_map {
        map.entry(v.to_lowercase()).or_insert_with(|| rng.pick(VALUES).to_string());
    }
    Some(v)
}

fn gen_placeholder(rng: &mut Rng, form: usize, state: usize, env: &BTreeMap<String, String>, map: &mut BTreeMap<String, String>) -> Option<(String, &'static str, bool)> {
    let (want_map, want_env) = (state & 1 == 1, state & 2 == 2);
    let v = pick_var(rng, env, map, want_env, want_map)?;
    let set = want_map || want_env;
    let n = case_name(rng, v);
    let d = *rng.pick(&["dflt", "true", "false", "d e", "TRUE", "9"]);
    let (t, f) = (*rng.pick(&["yes", "parquet", "T t", "ü"]), *rng.pick(&["no", "csv", "F f"]));
    Some(match form {
        0 => (format!("${{{n}}}"), "var", true),
        1 => (format!("${{{n}:-{d}}}"), "var-default", true),
        2 => (format!("${{{n}:-{d}|{t}|{f}}}"), "bool-default", true),
        3 => (format!("${{{n}|{t}|{f}}}"), "bool", true),
        4 => {
            // a variable inside the true branch (resolved after the branch was chosen)
            let (wm, we) = (rng.bool(), rng.bool());
            let w = pick_var(rng, env, map, we, wm)?;
            if w == v {
                return None;
            }
            (format!("${{{n}:-{d}|data.${{{}:-w0}}|{f}}}", case_name(rng, w)), "bool-var-in-true-branch", true)
        }
        5 => {
            // nested default: only the case "outer unset" has an agreed meaning (and needs the second pass)
            let (wm, we) = (rng.bool(), rng.bool());
            let w = pick_var(rng, env, map, we, wm)?;
            if w == v {
                return None;
            }
            (format!("${{{n}:-${{{}:-{d}}}}}", case_name(rng, w)), "nested-default", !set)
        }
        6 => ("${BENCHMARK_DIR}".to_string(), "builtin-benchmark-dir", true),
        _ => (format!("${{BAD-{n}:-{d}}}"), "unsupported-syntax-left-alone", true),
    })
}

fn gen_ph_case(rng: &mut Rng, id: u64, env: &BTreeMap<String, String>, forced: Option<(usize, usize, &'static str)>) -> Option<PhCase> {
    let mut map = BTreeMap::new();
    // unrelated explicit entries
    for v in VARS {
        if rng.chance(1, 5) {
            map.insert(v.to_lowercase(), rng.pick(VALUES).to_string());
        }
    }
    let ctx = forced.map(|f| f.2).unwrap_or(if rng.bool() { "name" } else { "run" });
    let n = if forced.is_some() { 1 } else { 1 + rng.usize(3) };
    let mut text = String::from("[");
    let (mut forms, mut asserted) = (vec![], true);
    for _ in 0..n {
        text.push_str(rng.pick(LITS));
        let (form, state) = forced.map(|f| (f.0, f.1)).unwrap_or((rng.weighted(&[3, 3, 3, 2, 2, 2, 1, 1]), rng.usize(4)));
        let (t, f, a) = gen_placeholder(rng, form, state, env, &mut map)?;
        text.push_str(&t);
        forms.push(f);
        // nested defaults need the second pass, which only `run` queries get
        asserted &= a && !(f == "nested-default" && ctx == "name");
    }
    text.push_str(rng.pick(LITS));
    text.push(']');
    Some(PhCase { id, ctx, text, map, forms, asserted })
}

/// CHILD: parse the generated benchmark files under the environment the parent chose; print observations
fn child_placeholders(args: &Args) -> i32 {
    let spec: Json = serde_json::from_str(&std::fs::read_to_string(args.opt_str("spec").unwrap_or("")).unwrap_or_default()).unwrap_or(Json::Null);
    let dir = PathBuf::from(spec["dir"].as_str().unwrap_or("/nonexistent"));
    let mut out = vec![];
    let rt = rt();
    for c in spec["cases"].as_array().cloned().unwrap_or_default() {
        let id = c["id"].as_u64().unwrap_or(0);
        let text = c["text"].as_str().unwrap_or("");
        let map: HashMap<String, String> = c["map"].as_object().map(|m| m.iter().map(|(k, v)| (k.clone(), v.as_str().unwrap_or("").to_string())).collect()).unwrap_or_default();
        let body = if c["ctx"] == "name" { format!("name {text}\n\nrun\nSELECT 1\n") } else { format!("name n\n\nrun\nSELECT '{text}'\n") };
        let p = dir.join(format!("ph{id}.benchmark"));
        std::fs::write(&p, body).expect("write benchmark");
        let r = vcommon::par::guard(|| {
            rt.block_on(async {
                let ctx = SessionContext::new();
                SqlBenchmark::new_with_replacements(&ctx, &p, &dir, map).await
            })
        });
        out.push(match r {
            Err(panic) => json!({"id": id, "panic": panic}),
            Ok(Err(e)) => json!({"id": id, "error": e.to_string()}),
            Ok(Ok(b)) => json!({"id": id, "name": b.name(), "run": b.queries().get(&QueryDirective::Run).cloned().unwrap_or_default()}),
        });
        let _ = std::fs::remove_file(&p);
    }
    println!("C46-CHILD-JSON: {}", Json::Array(out));
    0
}

fn placeholder_batch(rep: &Report, args: &Args, root: &Path, batch: u64, cases: Vec<PhCase>, env: &BTreeMap<String, String>) {
    let dir = root.join(format!("ph{batch}"));
    std::fs::create_dir_all(&dir).expect("batch dir");
    let spec = json!({"dir": dir.display().to_string(), "cases": cases.iter().map(|c| json!({"id": c.id, "ctx": c.ctx, "text": c.text, "map": c.map})).collect::<Vec<_>>()});
    let spec_path = dir.join("spec.json");
    std::fs::write(&spec_path, spec.to_string()).expect("write spec");
    let exe = std::env::current_exe().expect("current exe");
    let mut cmd = std::process::Command::new(exe);
    cmd.args(["C46", "--opt", "child=ph", "--opt", &format!("spec={}", spec_path.display())]);
    for v in VARS {
        cmd.env_remove(v);
    }
    for (k, v) in env {
        cmd.env(k, v);
    }
    let outp = cmd.output();
    let _ = std::fs::remove_dir_all(&dir);
    let stdout = match outp {
        Ok(o) => String::from_utf8_lossy(&o.stdout).into_owned(),
        Err(e) => {
            rep.inconclusive(&format!("cannot spawn the child process: {e}"));
            return;
        }
    };
    let observed: Vec<Json> = stdout.lines().find_map(|l| l.strip_prefix("C46-CHILD-JSON: ")).and_then(|l| serde_json::from_str::<Json>(l).ok()).and_then(|j| j.as_array().cloned()).unwrap_or_default();
    if observed.len() != cases.len() {
        rep.inconclusive(&format!("child process reported {} of {} placeholder cases", observed.len(), cases.len()));
        return;
    }
    rep.count("placeholder_child_processes", 1);
    let env_model = env.clone();
    for (c, o) in cases.iter().zip(&observed) {
        // BENCHMARK_DIR is set internally and wins over everything
        let mut map = c.map.clone();
        map.insert("benchmark_dir".into(), dir.display().to_string());
        let e = Env { map: &map, env: &env_model };
        let passes = if c.ctx == "name" { 1 } else { 2 };
        let mut expected: Result<String, String> = Ok(c.text.clone());
        for _ in 0..passes {
            expected = expected.and_then(|t| resolve_once(&t, &e));
        }
        let mut got: Result<String, String> = if let Some(err) = o["error"].as_str() {
            Err(err.to_string())
        } else if let Some(p) = o["panic"].as_str() {
            rep.violation("panic/placeholder", json!({"text": c.text, "map": c.map, "env": env, "panic": p}));
            continue;
        } else if c.ctx == "name" {
            Ok(o["name"].as_str().unwrap_or("").to_string())
        } else {
            let q = o["run"].as_array().and_then(|a| a.first()).and_then(|s| s.as_str()).unwrap_or("");
            Ok(q.strip_prefix("SELECT '").and_then(|s| s.strip_suffix('\'')).unwrap_or(q).to_string())
        };
        if args.opt_u64("selftest", 0) == 2 && c.id % 5 == 0 {
            got = got.map(|s| format!("{s}x"));
        }
        let fp = fp_mix(fp_str(&c.text), fp_str(&format!("{:?}{:?}{}", c.map, env, c.ctx)));
        rep.case(fp, c.text.contains("${"));
        for f in &c.forms {
            rep.seen("placeholder_forms", &format!("{f}/{}", c.ctx));
        }
        let w = json!({"context": c.ctx, "text": c.text, "explicit_map": c.map, "environment": env,
            "observed": format!("{got:?}"), "expected": format!("{expected:?}"), "passes": passes});
        if !c.asserted {
            rep.count("placeholder/nested-default-observed-only", 1);
            if matches!(&got, Ok(s) if s.contains('}') || s.contains("${")) {
                rep.count("placeholder/nested-default-left-unresolved-or-brace", 1);
                if rep.get_count("nested_samples") < 3 {
                    rep.count("nested_samples", 1);
                    rep.extra(&format!("nested_default_sample_{}", rep.get_count("nested_samples")), w);
                }
            }
            continue;
        }
        match (&got, &expected) {
            (Ok(g), Ok(x)) if g == x => {
                rep.count("placeholder/resolved-equal", 1);
                if rep.want_sample() && c.forms.len() >= 2 {
                    rep.sample(w);
                }
            }
            (Err(g), Err(x)) if g.contains(x.as_str()) => rep.count("placeholder/missing-value-error-equal", 1),
            (Ok(_), Ok(_)) => rep.violation("placeholder-resolution", w),
            (Err(_), Ok(_)) => rep.violation("placeholder-unexpected-error", w),
            (Ok(_), Err(_)) => rep.violation("placeholder-missing-value-not-reported", w),
            (Err(_), Err(_)) => rep.violation("placeholder-wrong-error", w),
        }
    }
}

fn gen_env(rng: &mut Rng, batch: u64) -> BTreeMap<String, String> {
    let mut env = BTreeMap::new();
    for (i, v) in VARS.iter().enumerate() {
        // batch 0: first half set, second half unset, so that every (form x state) exists systematically
        let set = if batch == 0 { i < 3 } else { rng.bool() };
        if set {
            env.insert(v.to_string(), rng.pick(VALUES).to_string());
        }
    }
    env.insert("BENCHMARK_DIR".into(), "/from/the/environment".into());
    env
}

// ---------------------------------------------------------------------------------------------

fn run(args: &Args) -> i32 {
    let rep = Report::new("C46", "exploration", args);
    rep.set_rule("result case = generated result set (1-4 typed columns, 0-7 rows; NULL, '', '|', quotes, newlines, CR, unicode, floats incl. NaN/inf) rendered as VALUES query in a generated .benchmark file, persisted and verified by the real SqlBenchmark, then one file- or query-side mutation per evaluation; placeholder case = generated placeholder string x explicit map x child-process environment; distinct = hash(SQL) / hash(SQL, mutation kind) / hash(string, map, env); non-trivial = the result set has a row with a special cell, the mutation was rejected as expected, or the string contains a placeholder");
    rep.assume("reject = verify returns an error (comparison mismatch or unreadable expected file); errors raised before verify are harness errors and never verdicts");
    rep.assume("documented equivalences (benchmark runner tests): expected NULL or (empty) match an actual NULL or ''; an empty CSV cell is the persisted form of NULL and ''");
    rep.assume("explicit replacement keys are lower case (the convention of every caller in benchmarks/src); values never contain '$'; nested defaults are only asserted where the outer variable is unset and two passes run (run queries)");
    let tmp = tempfile::Builder::new().prefix("c46-").tempdir().expect("tempdir");
    let root = tmp.path().to_path_buf();

    // Part A: result sets
    let sys = systematic_result_sets();
    let n_sys = sys.len() as u64;
    vcommon::par::run(args.workers, sys.into_iter().enumerate(), |(i, rs)| {
        let mut rng = Rng::derive(0xC46, &[0, i as u64]);
        result_case(&rep, args, &root, i as u64, &rs, &mut rng);
    });
    let n_rand = args.bound("result_sets", 240, 6000);
    vcommon::par::run(args.workers, 0..n_rand, |i| {
        let mut rng = Rng::derive(args.seed, &[46, 1, i]);
        let rs = gen_result_set(&mut rng, &rep);
        result_case(&rep, args, &root, n_sys + i, &rs, &mut rng);
    });
    for k in ["row-add", "row-remove", "row-swap", "column-add", "column-remove", "cell-append", "cell-replace", "cell-to-blank", "cell-add-ragged", "result-cell-change", "result-row-drop"] {
        rep.obligation(&format!("mutation:{k}"), rep.get_count(&format!("mutation/{k}/rejected(expected)")) > 0 || rep.violation_count() > 0, "every rejecting mutation kind must have been observed");
    }
    for k in ["identity-rewrite", "equiv-null-token", "equiv-empty-marker", "result-null-vs-empty"] {
        rep.obligation(&format!("mutation:{k}"), rep.get_count(&format!("mutation/{k}/accepted(expected)")) > 0 || rep.violation_count() > 0, "every equivalent mutation kind must have been observed");
    }

    // Part B: placeholders, one child process per environment
    let n_batches = args.bound("placeholder_batches", 10, 80);
    let per_batch = args.bound("placeholders_per_batch", 50, 250);
    vcommon::par::run(args.workers, 0..n_batches, |b| {
        let mut rng = if b == 0 { Rng::derive(0xC46, &[2, 0]) } else { Rng::derive(args.seed, &[46, 2, b]) };
        let env = gen_env(&mut rng, b);
        let mut cases = vec![];
        if b == 0 {
            for form in 0..8 {
                for state in 0..4 {
                    for ctx in ["name", "run"] {
                        for _ in 0..2 {
                            if let Some(c) = gen_ph_case(&mut rng, cases.len() as u64, &env, Some((form, state, ctx))) {
                                cases.push(c);
                            }
                        }
                    }
                }
            }
        }
        while (cases.len() as u64) < per_batch {
            if let Some(c) = gen_ph_case(&mut rng, cases.len() as u64, &env, None) {
                cases.push(c);
            }
        }
        placeholder_batch(&rep, args, &root, b, cases, &env);
    });
    for f in ["var", "var-default", "bool-default", "bool", "bool-var-in-true-branch", "builtin-benchmark-dir", "unsupported-syntax-left-alone"] {
        for ctx in ["name", "run"] {
            rep.obligation(&format!("placeholder:{f}/{ctx}"), rep.has_seen("placeholder_forms", &format!("{f}/{ctx}")), "every documented placeholder form must be resolved in both contexts");
        }
    }
    rep.obligation("placeholder:nested-default/run", rep.has_seen("placeholder_forms", "nested-default/run"), "nested defaults must be exercised");
    rep.finish()
}

fn main() {
    let args = Args::parse();
    vcommon::par::quiet_panics();
    if args.opt_str("child") == Some("ph") {
        std::process::exit(child_placeholders(&args));
    }
    std::process::exit(run(&args));
}
